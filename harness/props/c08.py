"""C08 -- leaks discharge Cd*A*sqrt(2*g*p) only while active and only at positive pressure.

Tie (T): `Gen/RowsC08.lean` (+ `cubic_spline` in Gen/RowsC07.lean) regenerated on every run: `m.leak_con[n]`, `m.mass_balance[j]`,
         `m.pdd_mass_balance[j]` of a zoo (junction/tank leaks, on/off/isolated, DD and PDD) by runtime reflection, the spline
         inputs of `leak_poly_coeffs_param.build` by symbolic execution, `leak_constants`.  `Props/C08.lean` is re-checked.
Tie (C): real `m.leak_con[n]` / mass-balance residuals (`con.evaluate()`) against the Lean driver; `add_leak`/`remove_leak`/control
         firings on real Junction/Tank objects against the Lean state machine `LeakState`.
Oracle : on the implementation: implied leak rate = Cd*A*sqrt(2*9.81*p) for p >= 1e-4, |rate| <= 1e-11*|p| for p <= 0, continuity;
         REAL WNTRSimulator runs (junction and tank leaks, several at once, DD/PDD, windows on/off the hydraulic grid, report
         step 'ALL' or fixed): at every reported step leak_demand = Cd*A*sqrt(2gp) inside [start, end), 0 outside, node mass
         balance includes the leak, and remove_leak (also while active, between two runs) ends it.
The activation window is checked on real runs only (the scheduler model belongs to C04); see manifest note.
"""
import json
import math
import os
import struct
import sys
from fractions import Fraction

sys.path.insert(0, os.path.dirname(os.path.dirname(os.path.abspath(__file__))))
import vlib
from vlib import BrokenTie, Broken, Failure, Check
from translate import rows_c07c08 as T

DRIVER = "Drivers/RowsDriver.lean"
G2 = 2.0 * 9.81


def fbits(x):
    return str(struct.unpack("<Q", struct.pack("<d", float(x)))[0])


def bitsf(s):
    return struct.unpack("<d", struct.pack("<Q", int(s)))[0]


def ulp_steps(x, k):
    for _ in range(abs(k)):
        x = math.nextafter(x, math.inf if k > 0 else -math.inf)
    return x


def small_net(wntr, mode, njunc=2, tank=True):
    wn = wntr.network.WaterNetworkModel()
    wn.add_reservoir("R", base_head=60.0)
    prev = "R"
    for k in range(njunc):
        wn.add_junction("J%d" % k, base_demand=0.004 * (k + 1), elevation=5.0 + 3 * k)
        wn.add_pipe("P%d" % k, prev, "J%d" % k, length=200.0, diameter=0.3, roughness=100.0)
        prev = "J%d" % k
    if tank:
        wn.add_tank("T", elevation=30.0, init_level=4.0, min_level=0.0, max_level=40.0, diameter=12.0)
        wn.add_pipe("PT", prev, "T", length=200.0, diameter=0.3, roughness=100.0)
    wn.options.hydraulic.demand_model = mode
    if mode == "PDD":
        wn.options.hydraulic.required_pressure = 20.0
    return wn


class C08(Check):
    pid = "C08"
    level = "proof"
    prop_modules = ["WntrModel.Props.C08", "WntrModel.Props.C08Window"]
    manifest = dict(
        category="proof",
        text="Lean theorems over definitions regenerated from the current source on every run (m.leak_con[n], m.mass_balance[j], "
        "m.pdd_mass_balance[j] of a zoo with junction and tank leaks on/off/isolated in DD and PDD; leak_poly_coeffs_param spline "
        "inputs and cubic_spline by symbolic execution; leak_constants): the rows are the parametric leak row / mass-balance row; "
        "the leak variable is in the node's balance iff leak_status and the leak row exists iff leak_status and not isolated; for ALL "
        "real pressures, areas, coefficients: rate = Cd*A*sqrt(2g*p) above the 1e-4 band, slope*p at or below zero, the generated "
        "cubic in between with equal values and slopes at both joints; mass-balance residual for any number of links; reported leak "
        "demand model; remove_leak leaves no leak, no status, no control after ANY history. The generated rows are compared "
        "SEMANTICALLY with the parametric rows (polynomial normal form over atoms, conditions with the bound moved into the body; "
        "sound over the reals, sensitive to a sign / constant / bound / leaf: leak_rowSem_is_sensitive) and evaluate to the law at "
        "every point (gen_leak_rows_eval, gen_mb_rows_eval). The ModelUpdater registrations of the zoo (DD and PDD, junctions and "
        "tank) and the node attributes each Definition's build READS are generated: leak_status / _is_isolated rebuild the leak row "
        "and the mode's mass balance, leak_area / leak_discharge_coeff the parameters and the spline coefficients "
        "(updater_registers_leak, leak_definitions_rebuilt_on_what_they_read, leak_row_follows_status). Real residuals and "
        "add/remove_leak histories are compared with the Lean driver; the activation window and reported values are checked on real "
        "simulations (tank and junction leaks in DD and PDD, active leaks at negative pressure, several leaks with windows inside one step).",
        design_ref="DESIGN.md §5 C08",
        note="the activation window is a theorem on the scheduler model of C04 (Props/C08Window.lean: leak_window -- at every reported time the "
        "leak status is on iff start <= t and not start <= end <= t, for any number of leaks on distinct nodes, any steps, start/end on or off the grid, "
        "also inside one hydraulic step; leak_instants_accepted -- start and end are solved times; end < start and end = start stated); the two controls "
        "add_leak registers are diffed against the model's Leak.ctls and the real timeline against runSim by C04's correspondence run "
        "(harness/props/c04.py _leak_controls_corr); in addition it is an oracle on REAL WNTRSimulator runs here (every reported step, report_timestep 'ALL' "
        "and fixed, junction+tank leaks, DD/PDD, removal between two runs). Real-number semantics of the rows (pow = "
        "Real.rpow, 2*9.81 and sqrt(2*9.81) are the doubles the code uses: within 1e-14 / 1e-15 relative, theorem twoG_is_2g); "
        "Newton solve and IEEE rounding only exercised. The LeakState machine is hand-written and tied by correspondence.",
        technique="Lean 4 proof over translator-regenerated constraint rows (semantic normaliser with soundness proof), spline code and updater registrations + differential runs (residuals, add/remove_leak state machine) + oracle on real simulations",
    )
    rule = (
        "obligations: theorems of Props/C08.lean. correspondence cases: leak-row residual evaluations (node kind, Cd, A, pressure), "
        "mass-balance evaluations (mode, #in, #out, leak on/off), add/remove_leak op sequences, and reported (node, time) points of real "
        "simulations; distinct = distinct (kind, regime / window position / op pattern); non-trivial = leak active or pressure in the band "
        "or removal while active"
    )
    trusted_base = [
        "translator harness/translate/rows_c07c08.py (amldump reflection + symbolic execution of leak_poly_coeffs_param.build, cubic_spline; ModelUpdater.update_functions; attribute reads recorded through a recording subclass)",
        "Real.rpow / Real.sqrt as the meaning of aml `**0.5`",
        "the activation window theorem (Props/C08Window) is over the hand-written scheduler model Model/Sched.lean, tied to the code by C04's differential runs",
    ]
    assumptions = ["simulation oracle judges converged steps only; tolerance 2e-6 m3/s = the Newton stopping bound on the leak row"]

    # ------------------------------------------------------------------ translate
    def translate(self, ctx):
        wntr = vlib.import_wntr()
        try:
            T.write_c07(wntr)  # cubic_spline lives in Gen/RowsC07.lean
        except BrokenTie:
            # the PDD part of the source no longer translates: C07's business; what C08 needs from that file is cubic_spline
            spline = T.trace_cubic_spline()
            cur = open(os.path.join(vlib.GEN, "RowsC07.lean")).read()
            if spline not in cur:
                raise BrokenTie("cubic_spline as executed differs from Gen/RowsC07.lean and the file cannot be regenerated")
        self.meta = T.write_c08(wntr)

    def _consts(self):
        from wntr.sim.models import constants
        import types

        ns = types.SimpleNamespace()
        constants.leak_constants(ns)
        self.delta, self.slope = ns.leak_delta, ns.leak_slope

    # ------------------------------------------------------------------ (a) leak rows
    def _leak_rows(self, ctx, wntr, n):
        import wntr.sim.hydraulics as H

        rng = ctx.rng
        failures, broken = [], []
        lines, recs = [], []
        delta = self.delta
        for _ in range(n):
            mode = rng.choice(["DD", "PDD"])
            wn = small_net(wntr, mode)
            specs = {}
            for nm in ("J0", "J1", "T"):
                if rng.random() < 0.8:
                    area = rng.choice([0.0, 1e-6, rng.uniform(1e-5, 1e-2), rng.uniform(0.01, 1.0)])
                    cd = rng.choice([0.75, 1.0, 0.0, rng.uniform(0.05, 1.0)])
                    wn.get_node(nm).add_leak(wn, area, cd, None, None)
                    wn.get_node(nm)._leak_status = True
                    specs[nm] = (area, cd)
            try:
                m, upd = H.create_hydraulic_model(wn)
            except Exception as e:
                kind = "tank" if "T" in specs else "junction"
                failures.append(Failure("%s-leak-model-build" % kind,
                                        "create_hydraulic_model raises %s: %s with an active %s leak (%s)" % (type(e).__name__, e, kind, mode),
                                        {"kind": "model-build", "mode": mode, "leaks": specs, "error": "%s: %s" % (type(e).__name__, e)}))
                ctx.count("model_build_error")
                continue
            for nm, (area, cd) in specs.items():
                tank = nm == "T"
                elev = wn.get_node(nm).elevation
                co = [getattr(m, "leak_poly_coeffs_" + c)[nm].value for c in "abcd"]
                pts = [-1e6, -100.0, -1.0, -1e-9, 1e-3, 0.5, 7.0, 80.0, 1e4, 1e6, delta * rng.random(), delta * rng.random(), delta * rng.random()]
                for c in (0.0, delta):
                    pts += [ulp_steps(c, k) for k in (-2, -1, 0, 1, 2)]
                rec = {"node": nm, "tank": tank, "mode": mode, "area": area, "cd": cd, "elev": elev, "co": co, "pts": []}
                for p in sorted(set(pts)):
                    head = elev + p
                    pp = head - elev
                    if tank:
                        m.source_head[nm].value = head
                    else:
                        m.head[nm].value = head
                    # rate 0: the residual is minus the implied leak rate without cancellation (oracle); random rate: row correspondence
                    for rate in (0.0, rng.uniform(-0.1, 0.5)):
                        m.leak_rate[nm].value = rate
                        r = m.leak_con[nm].evaluate()
                        rec["pts"].append((pp, head, rate, r))
                        lines.append("leakrow %d %s %s" % (tank, vlib.frac_str(elev), " ".join(fbits(x) for x in [head, rate, elev] + co + [area, cd])))
                        lines.append("leakrate %s %s %s" % (fbits(cd), fbits(area), fbits(pp)))
                recs.append(rec)
        out = vlib.lean_run(DRIVER, "\n".join(lines) + "\n") if lines else []
        if len(out) != len(lines) or any(o == "bad-op" for o in out):
            raise vlib.Infra("RowsDriver: %d answers for %d requests" % (len(out), len(lines)))
        it = iter(out)
        for rec in recs:
            kind = "tank" if rec["tank"] else "junction"
            CA = rec["cd"] * rec["area"]
            what = None
            qs = []
            bad = None
            for (pp, head, rate, r) in rec["pts"]:
                lr = bitsf(next(it))
                cur = [bitsf(x) for x in next(it).split()]
                scale = abs(rate) + abs(CA) * (1 + math.sqrt(abs(G2 * pp))) + abs(pp) * 1e-11
                if not (r == lr or abs(r - lr) <= 1e-12 * scale):
                    bad = bad or ("row", pp, r, lr)
                if rate != 0.0:
                    continue
                q = -r
                qs.append((pp, q))
                if abs(q - cur[0]) > 1e-9 * max(abs(q), 1e-12) + 1e-18:
                    bad = bad or ("curve", pp, q, cur[0])
                for a, b in zip(rec["co"], cur[1:]):
                    if not (a == b or abs(a - b) <= 1e-9 * max(abs(a), abs(b))):
                        bad = bad or ("coeff", rec["co"], cur[1:])
                regime = "nonpos" if pp <= 0 else "band" if pp <= self.delta else "pos"
                ctx.case(("leakrow", kind, regime, CA == 0, rec["mode"]), nontrivial=(CA != 0))
                ctx.count("leakrow:" + kind + ":" + regime)
                # oracle
                if what is None:
                    if pp <= 0:
                        if abs(q) > 1e-11 * abs(pp) * (1 + 1e-9) + 1e-300:
                            what = ("nonpositive-pressure", pp, q, 0.0)
                    elif pp >= self.delta * (1 + 1e-9):
                        ex = CA * math.sqrt(G2 * pp)
                        if abs(q - ex) > 1e-12 * max(abs(ex), 1e-300):
                            what = ("positive-pressure", pp, q, ex)
                    elif not (-1e-15 <= q <= CA * math.sqrt(G2 * self.delta) * (1 + 1e-9) + 1e-15):
                        what = ("band", pp, q, "between 0 and the value at the band end")
            if what is None:
                for c in (0.0, self.delta):
                    near = [q for (pp, q) in qs if abs(pp - c) <= 4 * math.ulp(max(c, 1e-300)) + (5e-324 if c == 0 else 0)]
                    if near and max(near) - min(near) > 1e-9 * max(CA, 1e-12):
                        what = ("continuity", c, min(near), max(near))
            if bad:
                broken.append(Broken("correspondence", "m.leak_con residual / coefficients vs Lean driver",
                                     "%s leak Cd=%r A=%r: %r" % (kind, rec["cd"], rec["area"], bad)))
            if what:
                failures.append(Failure("leak-law-%s-%s" % (what[0], kind),
                                        "leak row of a %s: implied leak rate violates '%s' at p=%r: observed %r expected %r (Cd=%r A=%r)"
                                        % (kind, what[0], what[1], what[2], what[3], rec["cd"], rec["area"]),
                                        {"kind": "leak-law", "node_kind": kind, "cd": rec["cd"], "area": rec["area"], "p": what[1], "observed": what[2], "expected": what[3]}))
        return failures, broken

    # ------------------------------------------------------------------ (b) mass balances
    def _mass_balances(self, ctx, wntr, n):
        import wntr.sim.hydraulics as H

        rng = ctx.rng
        failures, broken = [], []
        lines, recs = [], []
        for _ in range(n):
            mode = rng.choice(["DD", "PDD"])
            wn = wntr.network.WaterNetworkModel()
            wn.add_reservoir("R", base_head=50.0)
            wn.add_junction("C", base_demand=rng.choice([0.0, 0.01]), elevation=3.0)
            nin, nout = rng.randint(0, 3), rng.randint(0, 3)
            if nin + nout == 0:
                nin = 1
            for k in range(nin):
                wn.add_junction("A%d" % k, base_demand=0.001, elevation=1.0)
                wn.add_pipe("RA%d" % k, "R", "A%d" % k, length=50.0, diameter=0.3, roughness=100.0)
                wn.add_pipe("I%d" % k, "A%d" % k, "C", length=50.0, diameter=0.3, roughness=100.0)
            for k in range(nout):
                wn.add_junction("B%d" % k, base_demand=0.001, elevation=1.0)
                wn.add_pipe("O%d" % k, "C", "B%d" % k, length=50.0, diameter=0.3, roughness=100.0)
                wn.add_pipe("RB%d" % k, "B%d" % k, "R", length=50.0, diameter=0.3, roughness=100.0)
            wn.options.hydraulic.demand_model = mode
            leak = rng.random() < 0.6
            status = leak and rng.random() < 0.7
            if leak:
                wn.get_node("C").add_leak(wn, 0.01, 0.75, None, None)
                wn.get_node("C")._leak_status = status
            m, upd = H.create_hydraulic_model(wn)
            con = (m.pdd_mass_balance if mode == "PDD" else m.mass_balance)["C"]
            ins = [rng.uniform(-1, 1) for _ in range(nin)]
            outs = [rng.uniform(-1, 1) for _ in range(nout)]
            for k, v in enumerate(ins):
                m.flow["I%d" % k].value = v
            for k, v in enumerate(outs):
                m.flow["O%d" % k].value = v
            dem = rng.uniform(0, 1)
            if mode == "PDD":
                m.demand["C"].value = dem
            else:
                m.expected_demand["C"].value = dem
            rate = rng.uniform(0, 1)
            m.leak_rate["C"].value = rate
            r1 = con.evaluate()
            m.leak_rate["C"].value = rate + 1.0
            r2 = con.evaluate()
            recs.append((mode, nin, nout, status, dem, ins, outs, rate, r1, r2, ("C" in m.leak_con)))
            lines.append("mb %s %d %s %d %s %d %s" % (fbits(dem), status, fbits(rate), nin, " ".join(fbits(x) for x in ins), nout, " ".join(fbits(x) for x in outs)))
        out = vlib.lean_run(DRIVER, "\n".join(l.replace("  ", " ").strip() for l in lines) + "\n")
        if len(out) != len(lines) or any(o == "bad-op" for o in out):
            raise vlib.Infra("RowsDriver mb: %r" % out[:3])
        for o, (mode, nin, nout, status, dem, ins, outs, rate, r1, r2, has_con) in zip(out, recs):
            lr = bitsf(o)
            ctx.case(("mb", mode, nin, nout, status), nontrivial=status)
            ctx.count("mb:%s:leak=%s" % (mode, status))
            exp_ = dem - sum(ins) + sum(outs) + (rate if status else 0.0)
            sens = r2 - r1
            if abs(r1 - exp_) > 1e-12 or abs(sens - (1.0 if status else 0.0)) > 1e-12 or has_con != status:
                failures.append(Failure("leak-in-mass-balance-%s" % mode,
                                        "mass balance of a junction (%s, leak_status=%s, %d in / %d out): residual %r, expected %r; d residual / d leak_rate = %r; leak row present: %s"
                                        % (mode, status, nin, nout, r1, exp_, sens, has_con),
                                        {"kind": "mass-balance", "mode": mode, "status": status, "nin": nin, "nout": nout}))
            elif abs(r1 - lr) > 1e-12:
                broken.append(Broken("correspondence", "mass-balance residual vs Lean mbRow", "%r vs %r" % (r1, lr)))
        return failures, broken

    # ------------------------------------------------------------------ (c) add_leak / remove_leak state machine
    def _leak_ops(self, ctx, wntr, n, forced=()):
        rng = ctx.rng
        failures, broken = [], []
        seqs = [list(s) for s in forced]
        for _ in range(n):
            ops = []
            for _ in range(rng.randint(1, 7)):
                r = rng.random()
                if r < 0.4:
                    st = rng.choice([None, 0, 1800, 3600, 5000])
                    en = rng.choice([None, 7200, 9000, 3600])
                    ops.append(("add", rng.choice([0.01, 0.002, 1.0]), rng.choice([0.75, 0.5, 1.0]), st, en))
                elif r < 0.6:
                    ops.append(("remove",))
                elif r < 0.85:
                    ops.append(("fs",))
                else:
                    ops.append(("fe",))
            seqs.append(ops)
        lines, impl = [], []
        for ops in seqs:
            kind = rng.choice(["junction", "tank"])
            wn = small_net(wntr, "DD")
            node = wn.get_node("J0" if kind == "junction" else "T")
            states = []
            toks = []
            for op in ops:
                outcome = "ok"
                try:
                    if op[0] == "add":
                        node.add_leak(wn, op[1], op[2], op[3], op[4])
                        toks.append("add:%s:%s:%s:%s" % (vlib.frac_str(op[1]), vlib.frac_str(op[2]), "-" if op[3] is None else op[3], "-" if op[4] is None else op[4]))
                    elif op[0] == "remove":
                        node.remove_leak(wn)
                        toks.append("remove")
                    else:
                        cname = node._leak_start_control_name if op[0] == "fs" else node._leak_end_control_name
                        if cname in wn.control_name_list:
                            for a in wn.get_control(cname)._then_actions:
                                a.run_control_action()
                        toks.append(op[0])
                except ValueError:
                    outcome = "ValueError"
                    if op[0] == "add":
                        toks.append("add:%s:%s:%s:%s" % (vlib.frac_str(op[1]), vlib.frac_str(op[2]), "-" if op[3] is None else op[3], "-" if op[4] is None else op[4]))

                def thr(cname):
                    if cname in wn.control_name_list:
                        return str(int(wn.get_control(cname)._condition._threshold))
                    return "-"

                states.append("%s %s %s %s %s %s %s" % (str(bool(node._leak)).lower(), str(bool(node.leak_status)).lower(),
                                                        vlib.frac_str(node.leak_area), vlib.frac_str(node.leak_discharge_coeff),
                                                        thr(node._leak_start_control_name), thr(node._leak_end_control_name), outcome))
            lines.append("leakops " + ";".join(toks))
            impl.append((kind, ops, states))
        out = vlib.lean_run(DRIVER, "\n".join(lines) + "\n")
        for o, (kind, ops, states) in zip(out, impl):
            model = o.split("|")
            pat = "".join(op[0][0] for op in ops)
            ctx.case(("leakops", kind, pat), nontrivial=("r" in pat))
            ctx.count("leakops:" + kind)
            # property oracle on the implementation: after remove_leak nothing of the leak remains
            viol = None
            for k, op in enumerate(ops):
                if op[0] == "remove":
                    f = states[k].split()
                    if f[0] != "false" or f[1] != "false" or f[4] != "-" or f[5] != "-":
                        active_before = k > 0 and states[k - 1].split()[1] == "true"
                        viol = (k, states[k], active_before)
                        break
            if viol:
                failures.append(Failure("remove-leak-while-active" if viol[2] else "remove-leak-incomplete",
                                        "%s.remove_leak leaves leak state (leak, leak_status, area, Cd, start ctl, end ctl) = %s after ops %s"
                                        % (kind, viol[1], [o[0] for o in ops[: viol[0] + 1]]),
                                        {"kind": "leakops", "node_kind": kind, "ops": ops[: viol[0] + 1], "observed": viol[1]}))
            elif model != states:
                k = next((i for i, (a, b) in enumerate(zip(model, states)) if a != b), None)
                broken.append(Broken("correspondence", "add_leak/remove_leak vs Lean LeakState",
                                     "%s ops=%s step %s: impl %r model %r" % (kind, ops, k, states[k] if k is not None else states, model[k] if k is not None else model)))
        return failures, broken

    # ------------------------------------------------------------------ (d) real simulations
    @staticmethod
    def _copy_model(wntr, wn, how):
        import copy, pickle, tempfile
        if how == "dict":
            return wntr.network.from_dict(wntr.network.to_dict(wn))
        if how == "json":
            with tempfile.TemporaryDirectory() as d:
                fn = os.path.join(d, "wn.json")
                wntr.network.write_json(wn, fn)
                return wntr.network.read_json(fn)
        if how == "deepcopy":
            return copy.deepcopy(wn)
        if how == "pickle":
            return pickle.loads(pickle.dumps(wn))
        raise ValueError(how)

    def _sim_case(self, ctx, wntr, spec):
        """spec: dict(mode, hstep, report, duration, leaks={node: (area, cd, start, end)}, pause=None|seconds, remove=[nodes])
        returns list of Failures"""
        failures = []
        wn = small_net(wntr, spec["mode"], njunc=3)
        wn.options.time.hydraulic_timestep = spec["hstep"]
        wn.options.time.report_timestep = spec["report"]
        wn.options.time.pattern_timestep = spec["hstep"]
        if spec.get("isolate") is not None:
            # a leaf junction JL behind pipe PL which a time control closes at spec["isolate"]: from then on JL is cut off
            # from every source; a leak still active there must report zero (its reported pressure is zero)
            wn.add_junction("JL", base_demand=0.002, elevation=8.0)
            wn.add_pipe("PL", "J1", "JL", length=150.0, diameter=0.25, roughness=100.0)
            act = wntr.network.controls.ControlAction(wn.get_link("PL"), "status", wntr.network.LinkStatus.Closed)
            cond = wntr.network.controls.SimTimeCondition(wn, "=", int(spec["isolate"]))
            wn.add_control("close_PL", wntr.network.controls.Control(cond, act))
        if spec.get("high"):
            # a junction ABOVE the hydraulic grade line (negative gauge pressure at every step): an active leak there discharges nothing
            wn.add_junction("JH", base_demand=0.001, elevation=75.0)
            wn.add_pipe("PH", "J2", "JH", length=120.0, diameter=0.25, roughness=100.0)
        for nm, (area, cd, st, en) in spec["leaks"].items():
            wn.get_node(nm).add_leak(wn, area, cd, st, en)
        windows = {nm: (st, en) for nm, (a, c, st, en) in spec["leaks"].items()}
        for nm, wins in spec.get("extra", {}).items():
            # more windows at a node that has a leak: time controls on leak_status exactly like the two add_leak makes, defined
            # AFTER them (controls of equal priority due at the same instant act in definition order: a window that starts
            # where the previous one ends keeps the leak on)
            from wntr.network.controls import Control, ControlAction
            node = wn.get_node(nm)
            for i, (s2, e2) in enumerate(wins):
                wn.add_control("xw%d_start_%s" % (i, nm), Control._time_control(wn, int(s2), "SIM_TIME", False, ControlAction(node, "leak_status", True)))
                wn.add_control("xw%d_end_%s" % (i, nm), Control._time_control(wn, int(e2), "SIM_TIME", False, ControlAction(node, "leak_status", False)))
                ctx.count("sim_spec:extra_window" + (":back-to-back" if s2 == windows[nm][1] else ""))
        for nm, (st, en) in windows.items():
            if st is not None and st == en:
                ctx.count("sim_spec:empty_window(start=end):" + ("on-grid" if st % spec["hstep"] == 0 else "off-grid"))
        ctx.count("sim_spec:simultaneous_leaks=%d" % len(windows))
        for nm, (st, en) in windows.items():
            if st is not None and en is not None and en > st and st % spec["hstep"] != 0 and st // spec["hstep"] == (en - 1) // spec["hstep"]:
                ctx.count("sim_spec:window_inside_one_step:" + ("tank" if nm == "T" else "junction") + (":reportALL" if spec["report"] == "ALL" else ""))
        if spec.get("copy"):
            # the same scenario on a COPY of the model (dictionary / JSON round trip, deepcopy, pickle): the leak and its two
            # controls must mean the same there
            try:
                wn = self._copy_model(wntr, wn, spec["copy"])
            except Exception as e:
                ctx.count("copy_error:%s:%s" % (spec["copy"], type(e).__name__))
                return failures
            ctx.count("sim_spec:model_copy:" + spec["copy"])
        sim = wntr.sim.WNTRSimulator(wn)
        frames = []
        try:
            if spec.get("pause") is None:
                wn.options.time.duration = spec["duration"]
                frames.append(sim.run_sim())
                if spec.get("rerun"):
                    # run / reset_initial_values / run again: the window is relative to the new run's clock, so a leak
                    # still active at the end of the first run must be off again until its start_time
                    wn.reset_initial_values()
                    frames[:] = [wntr.sim.WNTRSimulator(wn).run_sim()]
            else:
                wn.options.time.duration = spec["pause"]
                frames.append(sim.run_sim())
                for nm in spec.get("remove", []):
                    wn.get_node(nm).remove_leak(wn)
                    windows[nm] = (windows[nm][0], -1)  # removed: nothing after the pause
                wn.options.time.duration = spec["duration"]
                frames.append(wntr.sim.WNTRSimulator(wn).run_sim())
        except Exception as e:
            kind = "tank" if "T" in spec["leaks"] else "junction"
            ctx.count("sim_error:" + type(e).__name__)
            if isinstance(e, KeyError):
                failures.append(Failure("%s-leak-model-build" % kind,
                                        "WNTRSimulator.run_sim raises KeyError(%s) with a %s leak that becomes active" % (e, kind),
                                        dict(spec, kind="sim", error="KeyError: %s" % e)))
            return failures
        ctx.count("sim_ok")
        seen_t = set()
        for fi, res in enumerate(frames):
            ld, pr, dm = res.node["leak_demand"], res.node["pressure"], res.node["demand"]
            fl = res.link["flowrate"]
            for t in ld.index:
                t = int(t)
                if fi == 1 and t <= spec["pause"]:
                    if t in seen_t:
                        continue
                seen_t.add(t)
                for nm in list(wn.junction_name_list) + list(wn.tank_name_list):
                    q = float(ld.loc[t, nm])
                    p = float(pr.loc[t, nm])
                    if nm in windows:
                        st, en = windows[nm]
                        area, cd = spec["leaks"][nm][0], spec["leaks"][nm][1]
                        removed = en == -1
                        if removed:
                            active = (st is not None and st <= t and t <= spec["pause"] and fi == 0 and (spec["leaks"][nm][3] is None or t < spec["leaks"][nm][3]))
                        else:
                            active = (st is not None and st <= t) and (en is None or t < en)
                            # further windows at the same node (extra leak_status time controls defined after add_leak)
                            active = active or any(s2 <= t < e2 for (s2, e2) in spec.get("extra", {}).get(nm, []))
                    else:
                        active, area, cd, removed = False, 0.0, 0.0, False
                    pos = "in" if active else "out"
                    ctx.case(("sim", spec["mode"], "tank" if nm == "T" else "junction", pos, nm in windows, spec["report"] == "ALL",
                              (spec["leaks"].get(nm, (0, 0, 0, 0))[2] or 0) % spec["hstep"] != 0), nontrivial=active)
                    ctx.count("simpoint:" + pos)
                    if nm in windows:
                        ctx.count("sim:%s:%s:%s" % (spec["mode"], "tank" if nm == "T" else "junction", pos))
                    if active and p <= 0:
                        ctx.count("sim_active_leak_at_nonpositive_pressure:" + spec["mode"])
                    if active:
                        if p >= 1e-4:
                            ex = cd * area * math.sqrt(G2 * p)
                        elif p <= 0:
                            ex = 0.0
                        else:
                            ex = None
                        if ex is not None and abs(q - ex) > 2e-6 + 1e-9 * abs(ex):
                            failures.append(Failure("leak-window-%s" % ("tank" if nm == "T" else "junction"),
                                                    "leak at %s active at t=%d (window %r) but reported leak_demand %r, Cd*A*sqrt(2g*%r) = %r"
                                                    % (nm, t, windows[nm], q, p, ex), dict(spec, kind="sim", node=nm, t=t, observed=q, expected=ex)))
                    else:
                        if q != 0.0:
                            key = "remove-leak-while-active" if removed else "leak-window-%s" % ("tank" if nm == "T" else "junction")
                            failures.append(Failure(key,
                                                    "leak at %s must be inactive at t=%d (window %r%s) but reported leak_demand %r"
                                                    % (nm, t, spec["leaks"].get(nm, (0, 0, None, None))[2:], ", removed at %d" % spec["pause"] if removed else "", q),
                                                    dict(spec, kind="sim", node=nm, t=t, observed=q, expected=0.0)))
                    # the leak is part of the node's mass balance
                    ins = sum(float(fl.loc[t, l]) for l in wn.get_links_for_node(nm, "INLET"))
                    outs = sum(float(fl.loc[t, l]) for l in wn.get_links_for_node(nm, "OUTLET"))
                    bal = ins - outs - float(dm.loc[t, nm]) - q
                    if abs(bal) > 5e-6:
                        failures.append(Failure("leak-mass-balance-%s" % ("tank" if nm == "T" else "junction"),
                                                "node %s t=%d: inflow - outflow - demand - leak_demand = %r" % (nm, t, bal),
                                                dict(spec, kind="sim", node=nm, t=t, observed=bal, expected=0.0)))
        return failures

    # ------------------------------------------------------------------ (e) pause / edit the leaks / continue; refused add_leak
    def _edit_case(self, ctx, wntr, spec):
        """spec: mode, hstep, report, duration, leaks {node: (area, cd, start, end)}, edits0 / edits1: lists of
        ("remove", node) | ("add", node, area, cd, start, end) | ("refused_add", node, area, cd, start, end), pause (seconds or None),
        same_sim (continue with the SAME WNTRSimulator object or a new one).  edits0 run before the first run, edits1 during
        the pause.  Every reported step is judged by the formula with the parameters of the leak that is registered at that
        time, zero outside its window / after removal, and by the node mass balance."""
        failures = []
        wn = small_net(wntr, spec["mode"], njunc=3)
        wn.options.time.hydraulic_timestep = spec["hstep"]
        wn.options.time.report_timestep = spec["report"]
        wn.options.time.pattern_timestep = spec["hstep"]
        state = {}
        edited = {}
        for nm, (area, cd, st, en) in spec["leaks"].items():
            wn.get_node(nm).add_leak(wn, area, cd, st, en)
            state[nm] = (area, cd, st, en)

        def apply(edits, phase):
            for ed in edits:
                nm = ed[1]
                node = wn.get_node(nm)
                if ed[0] == "remove":
                    node.remove_leak(wn)
                    state[nm] = None
                    edited[nm] = "remove-leak-during-pause" if phase else "remove-leak-incomplete"
                    ctx.count("edit:remove:" + ("pause" if phase else "before"))
                elif ed[0] == "add":
                    node.add_leak(wn, ed[2], ed[3], ed[4], ed[5])
                    state[nm] = tuple(ed[2:6])
                    edited[nm] = "leak-added-during-pause" if phase else "leak-window"
                    ctx.count("edit:add:" + ("pause" if phase else "before"))
                else:
                    try:
                        node.add_leak(wn, ed[2], ed[3], ed[4], ed[5])
                        ctx.count("edit:refused_add:not-refused")
                        state[nm] = "unknown"
                    except ValueError:
                        # refused: the leak that is still registered keeps ITS area and coefficient
                        edited[nm] = "refused-add-leak-changed-parameters"
                        ctx.count("edit:refused_add:" + ("pause" if phase else "before"))

        frames = []
        try:
            apply(spec.get("edits0", []), 0)
            states = [dict(state)]
            sim = wntr.sim.WNTRSimulator(wn)
            wn.options.time.duration = spec["pause"] if spec.get("pause") is not None else spec["duration"]
            frames.append(sim.run_sim())
            if spec.get("pause") is not None:
                apply(spec.get("edits1", []), 1)
                states.append(dict(state))
                wn.options.time.duration = spec["duration"]
                frames.append((sim if spec.get("same_sim") else wntr.sim.WNTRSimulator(wn)).run_sim())
                ctx.count("edit:continue:" + ("same-simulator" if spec.get("same_sim") else "new-simulator"))
        except Exception as e:
            ctx.count("sim_error:" + type(e).__name__)
            return failures
        ctx.count("sim_ok")
        seen_t = set()
        for fi, res in enumerate(frames):
            if res.error_code is not None:
                ctx.count("sim_not_converged")
            ld, pr, dm, fl = res.node["leak_demand"], res.node["pressure"], res.node["demand"], res.link["flowrate"]
            for t in ld.index:
                t = int(t)
                if fi == 1 and t <= spec["pause"] and t in seen_t:
                    continue
                seen_t.add(t)
                for nm in list(wn.junction_name_list) + list(wn.tank_name_list):
                    kind = "tank" if nm == "T" else "junction"
                    q, p = float(ld.loc[t, nm]), float(pr.loc[t, nm])
                    stt = states[fi].get(nm)
                    if stt == "unknown":
                        continue
                    was_edited = nm in edited and (fi == 1 or edited[nm] in ("refused-add-leak-changed-parameters", "leak-window", "remove-leak-incomplete"))
                    key = edited[nm] if was_edited else "leak-window-%s" % kind
                    active = stt is not None and stt[2] is not None and stt[2] <= t and (stt[3] is None or t < stt[3])
                    ctx.case(("edit", spec["mode"], kind, "in" if active else "out", edited.get(nm), fi, bool(spec.get("same_sim"))), nontrivial=active or nm in edited)
                    ctx.count("editpoint:" + ("in" if active else "out"))
                    if active:
                        ex = stt[1] * stt[0] * math.sqrt(G2 * p) if p >= 1e-4 else (0.0 if p <= 0 else None)
                        if ex is not None and abs(q - ex) > 2e-6 + 1e-9 * abs(ex):
                            failures.append(Failure(key if key != "leak-window" else "leak-window-%s" % kind,
                                                    "leak at %s (registered: area %r, Cd %r, window [%r, %r)) active at t=%d: reported leak_demand %r, Cd*A*sqrt(2g*%r) = %r"
                                                    % (nm, stt[0], stt[1], stt[2], stt[3], t, q, p, ex), dict(spec, kind="edit", node=nm, t=t, observed=q, expected=ex)))
                    elif q != 0.0:
                        failures.append(Failure(key if key != "leak-window" else "leak-window-%s" % kind,
                                                "leak at %s must be inactive at t=%d (registered leak: %r) but reported leak_demand %r" % (nm, t, stt, q),
                                                dict(spec, kind="edit", node=nm, t=t, observed=q, expected=0.0)))
                    ins = sum(float(fl.loc[t, l]) for l in wn.get_links_for_node(nm, "INLET"))
                    outs = sum(float(fl.loc[t, l]) for l in wn.get_links_for_node(nm, "OUTLET"))
                    bal = ins - outs - float(dm.loc[t, nm]) - q
                    if abs(bal) > 5e-6:
                        failures.append(Failure("leak-mass-balance-%s" % kind,
                                                "node %s t=%d (%s): inflow - outflow - demand - leak_demand = %r" % (nm, t, edited.get(nm, "not edited"), bal),
                                                dict(spec, kind="edit", node=nm, t=t, observed=bal, expected=0.0)))
        return failures

    DIRECTED_EDITS = [
        # pause with active leaks; remove one, remove + re-add another with other parameters, add a leak on a new node; SAME simulator
        {"mode": "DD", "hstep": 3600, "report": 3600, "duration": 8 * 3600, "pause": 3 * 3600, "same_sim": True,
         "leaks": {"J1": (1e-4, 0.6, 3600, None), "J2": (2e-4, 0.75, 7200, None), "T": (1e-4, 0.6, 0, None)},
         "edits1": [("remove", "J1"), ("add", "J1", 5e-4, 0.9, 5 * 3600, 7 * 3600), ("remove", "J2"), ("remove", "T"),
                    ("add", "T", 6e-4, 0.8, 6 * 3600, 7 * 3600), ("add", "J0", 3e-4, 0.7, 4 * 3600, None)]},
        {"mode": "PDD", "hstep": 1800, "report": "ALL", "duration": 6 * 1800, "pause": 2 * 1800, "same_sim": True,
         "leaks": {"J0": (0.001, 0.75, 0, None), "T": (0.002, 0.6, 900, None)},
         "edits1": [("remove", "J0"), ("remove", "T"), ("add", "T", 0.004, 1.0, 3 * 1800 + 77, 5 * 1800)]},
        # the same with a NEW simulator object
        {"mode": "DD", "hstep": 3600, "report": 3600, "duration": 6 * 3600, "pause": 2 * 3600, "same_sim": False,
         "leaks": {"J1": (1e-4, 0.6, 0, None), "T": (1e-4, 0.6, 3600, None)},
         "edits1": [("remove", "J1"), ("add", "J1", 4e-4, 1.0, 4 * 3600, None), ("remove", "T"), ("add", "J2", 3e-4, 0.7, 3 * 3600, 5 * 3600)]},
        # a REFUSED second add_leak (control names taken) with another area / Cd: the registered leak keeps its parameters
        {"mode": "DD", "hstep": 3600, "report": 3600, "duration": 3 * 3600, "pause": None,
         "leaks": {"J1": (1e-4, 0.6, 0, 7200), "T": (2e-4, 0.6, 3600, None)},
         "edits0": [("refused_add", "J1", 9e-4, 1.0, 3600, None), ("refused_add", "T", 8e-4, 0.9, 0, 3600)]},
        {"mode": "PDD", "hstep": 3600, "report": 3600, "duration": 5 * 3600, "pause": 2 * 3600, "same_sim": True,
         "leaks": {"J2": (2e-4, 0.75, 3600, None), "T": (1e-4, 0.8, 0, 4 * 3600)},
         "edits1": [("refused_add", "J2", 7e-4, 0.5, 3 * 3600, None), ("refused_add", "T", 5e-4, 1.0, None, 3 * 3600)]},
    ]

    def _gen_edit_specs(self, ctx, n):
        rng = ctx.rng
        specs = [dict(d) for d in self.DIRECTED_EDITS]
        for _ in range(n):
            hstep = rng.choice([3600, 1800])
            nst = rng.randint(4, 7)
            kp = rng.randint(1, nst - 2)
            nodes = rng.sample(["J0", "J1", "J2", "T"], rng.randint(1, 3))
            leaks, edits0, edits1 = {}, [], []
            for nm in nodes:
                st = rng.choice([0, hstep, hstep // 2, kp * hstep - 7])
                en = rng.choice([None, None, (kp + 1) * hstep, nst * hstep + 5])  # always after st (st < kp*hstep)
                leaks[nm] = (rng.choice([1e-4, 5e-4, 0.001]), rng.choice([0.6, 0.75, 1.0]), st, en)
            for nm in ["J0", "J1", "J2", "T"]:
                r = rng.random()
                nst_ = kp * hstep + rng.choice([hstep, hstep // 2 + 11, 2 * hstep])
                newp = (rng.choice([2e-4, 8e-4, 0.002]), rng.choice([0.5, 0.9]), nst_, rng.choice([None, nst_ + hstep + 13, nst_ + hstep // 3]))  # end after start
                if nm in leaks:
                    if r < 0.3:
                        edits1.append(("remove", nm))
                    elif r < 0.6:
                        edits1 += [("remove", nm), ("add", nm) + newp]
                    elif r < 0.8:
                        (edits0 if rng.random() < 0.5 else edits1).append(("refused_add", nm, newp[0], newp[1], newp[2], None))
                elif r < 0.35:
                    edits1.append(("add", nm) + newp)
            specs.append({"mode": rng.choice(["DD", "PDD"]), "hstep": hstep, "report": rng.choice(["ALL", hstep]), "duration": nst * hstep,
                          "pause": kp * hstep, "same_sim": rng.random() < 0.6, "leaks": leaks, "edits0": edits0, "edits1": edits1})
        return specs

    DIRECTED_SIMS = [
        # tank + junction leak in PDD, windows on the grid
        {"mode": "PDD", "hstep": 3600, "report": 3600, "duration": 4 * 3600, "leaks": {"T": (0.01, 0.6, 3600, 10800), "J1": (0.002, 0.75, 0, 7200)}},
        # active leak at NEGATIVE pressure, demand-driven and pressure-dependent (together with an ordinary leak)
        {"mode": "DD", "hstep": 3600, "report": 3600, "duration": 3 * 3600, "high": True, "leaks": {"JH": (0.005, 0.75, 0, None), "J0": (0.001, 0.75, 3600, None)}},
        {"mode": "PDD", "hstep": 1800, "report": "ALL", "duration": 3 * 1800, "high": True, "leaks": {"JH": (0.005, 1.0, 900, 4000), "T": (0.002, 0.6, 0, None)}},
        # three simultaneous leaks whose windows lie strictly inside ONE hydraulic step (every solved time is reported)
        {"mode": "DD", "hstep": 3600, "report": "ALL", "duration": 3 * 3600, "leaks": {"J0": (0.001, 0.75, 3700, 4500), "J1": (0.002, 0.6, 3800, 3900), "T": (0.005, 0.6, 3850, 4600)}},
        {"mode": "PDD", "hstep": 3600, "report": 3600, "duration": 3 * 3600, "leaks": {"J0": (0.001, 0.75, 3700, 4500), "J2": (0.002, 0.6, 3800, 7100), "T": (0.005, 0.6, 100, 3500)}},
    ]

    DIRECTED_WINDOWS = [
        # start_time = end_time: an empty window (both controls are due at the same instant, the end control is defined last): never on
        {"mode": "DD", "hstep": 3600, "report": 3600, "duration": 4 * 3600, "leaks": {"J1": (0.001, 0.6, 7200, 7200), "J2": (5e-4, 0.75, 3600, 3 * 3600)}},
        {"mode": "PDD", "hstep": 3600, "report": "ALL", "duration": 4 * 3600, "leaks": {"J0": (0.001, 0.6, 5000, 5000), "T": (0.004, 0.75, 5000, 5000), "J2": (5e-4, 0.75, 5000, 9000)}},
        {"mode": "DD", "hstep": 1800, "report": 1800, "duration": 4 * 1800, "leaks": {"T": (0.004, 0.8, 3600, 3600), "J0": (0.002, 1.0, 0, 0)}},
        # back-to-back windows at one node: [1h,2h) from add_leak, [2h,4h) from a second pair of controls; also off the grid, also a tank
        {"mode": "DD", "hstep": 3600, "report": 3600, "duration": 5 * 3600, "leaks": {"J1": (0.001, 0.6, 3600, 7200)}, "extra": {"J1": [(7200, 4 * 3600)]}},
        {"mode": "PDD", "hstep": 3600, "report": "ALL", "duration": 4 * 3600, "leaks": {"T": (0.004, 0.6, 4000, 5000), "J2": (0.001, 0.75, 100, 3600)},
         "extra": {"T": [(5000, 9000)], "J2": [(3600, 7200), (9000, 9500)]}},
    ]

    def _gen_sim_specs(self, ctx, n):
        rng = ctx.rng
        specs = [dict(d, leaks=dict(d["leaks"])) for d in self.DIRECTED_SIMS + self.DIRECTED_WINDOWS]
        for i in range(n):
            hstep = rng.choice([3600, 1800, 900])
            nst = rng.randint(3, 6)
            duration = hstep * nst
            leaks = {}
            nodes = rng.sample(["J0", "J1", "J2", "T"], rng.randint(1, 3))
            if i % 3 == 0 and "T" not in nodes:
                nodes[0] = "T"
            for nm in nodes:
                on_grid = rng.random() < 0.5
                st = rng.choice([0, hstep, 2 * hstep]) if on_grid else rng.choice([1, hstep // 2, hstep + 777, 2 * hstep - 1])
                en = st + (rng.choice([hstep, 2 * hstep]) if on_grid else rng.choice([hstep // 3, hstep + 123, 2 * hstep + 1]))
                if rng.random() < 0.15:
                    en = None
                area = rng.choice([1e-4, 0.001, 0.005]) if nm != "T" else rng.choice([0.002, 0.01])
                leaks[nm] = (area, rng.choice([0.75, 0.6, 1.0]), st, en)
            spec = {"mode": rng.choice(["DD", "PDD"]), "hstep": hstep, "report": rng.choice(["ALL", hstep, hstep]), "duration": duration, "leaks": leaks}
            extra = {}
            for nm, (a_, c_, st, en) in leaks.items():
                if en is not None and en > st and rng.random() < 0.2:
                    extra[nm] = [(en, en + rng.choice([hstep, hstep // 2 + 5, 2 * hstep]))]  # a second window starting where the first ends
            if extra and i % 4 not in (1, 3):
                spec["extra"] = extra
            if i % 4 == 3:
                # second run after reset_initial_values; at least one leak (incl. the tank's) is still on when run 1 ends
                spec["rerun"] = True
                for nm in list(leaks):
                    a, c, st, en = leaks[nm]
                    if st == 0:
                        st = hstep // 2
                    leaks[nm] = (a, c, st, None if nm in ("T", nodes[0]) else en)
            elif i % 4 == 1:
                # the leaking leaf junction JL is isolated while its leak is active
                tiso = rng.choice([hstep, 2 * hstep, hstep + hstep // 2, 2 * hstep - 7])
                spec["isolate"] = tiso
                leaks["JL"] = (rng.choice([1e-4, 0.001, 0.005]), rng.choice([0.75, 0.6, 1.0]), rng.choice([0, hstep // 2, 1]), rng.choice([None, duration + hstep, tiso + hstep]))
            elif rng.random() < 0.35:
                spec["pause"] = hstep * rng.randint(1, nst - 1)
                spec["remove"] = [nm for nm in nodes if rng.random() < 0.7] or nodes[:1]
                spec.pop("extra", None)  # the extra controls are not the leak's: remove_leak would not take them away
            if not any(k in spec for k in ("rerun", "isolate", "pause")):
                for nm in list(leaks):
                    if nm not in spec.get("extra", {}) and rng.random() < 0.12:
                        a_, c_, st, en = leaks[nm]
                        leaks[nm] = (a_, c_, st, st)  # empty window: start_time = end_time
            specs.append(spec)
        hows = ["dict", "json", "deepcopy", "pickle"]
        for i, spec in enumerate(specs):
            if i % 2 == 1:
                spec["copy"] = hows[(i // 2) % 4]
        return specs

    # ------------------------------------------------------------------ correspondence + oracle
    FORCED_OPS = [
        [("add", 0.01, 0.75, 0, 3600), ("fs",), ("remove",)],
        [("add", 0.01, 0.75, 0, 3600), ("fs",), ("fe",), ("remove",), ("fs",)],
        [("add", 0.01, 0.75, None, None), ("remove",)],
    ]

    def correspondence(self, ctx):
        wntr = vlib.import_wntr()
        self._consts()
        failures, broken = [], []
        for fn, c in vlib.corpus_items(self.pid):
            if c.get("kind") == "sim":
                failures += self._sim_case(ctx, wntr, {k: (tuple(v) if isinstance(v, list) and k != "remove" else v) for k, v in c.items() if k in ("mode", "hstep", "report", "duration", "leaks", "pause", "remove", "isolate", "rerun", "high", "extra", "copy")} | {"leaks": {n: tuple(v) for n, v in c["leaks"].items()}})
        f, b = self._leak_rows(ctx, wntr, 12 if ctx.quick else 120)
        failures += f
        broken += b
        f, b = self._mass_balances(ctx, wntr, 30 if ctx.quick else 300)
        failures += f
        broken += b
        f, b = self._leak_ops(ctx, wntr, 40 if ctx.quick else 400, forced=self.FORCED_OPS)
        failures += f
        broken += b
        for spec in self._gen_sim_specs(ctx, 12 if ctx.quick else 150):
            fs = self._sim_case(ctx, wntr, spec)
            failures += fs
            if len(ctx.samples) < 4:
                ctx.sample({k: spec[k] for k in ("mode", "hstep", "report", "duration", "leaks", "isolate", "rerun", "high", "extra", "copy") if k in spec} | {"pause": spec.get("pause"), "failures": len(fs)})
        for spec in self._gen_edit_specs(ctx, 4 if ctx.quick else 80):
            failures += self._edit_case(ctx, wntr, spec)
        failures.sort(key=lambda x: len(json.dumps(x.replay, default=str)))
        return failures, broken

    def search(self, ctx, broken):
        wntr = vlib.import_wntr()
        self._consts()
        failures = []
        # minimal witnesses first
        failures += self._sim_case(ctx, wntr, {"mode": "DD", "hstep": 3600, "report": 3600, "duration": 3 * 3600, "leaks": {"T": (0.005, 0.6, 0, 7200)}})
        failures += self._sim_case(ctx, wntr, {"mode": "DD", "hstep": 3600, "report": 3600, "duration": 4 * 3600, "leaks": {"J0": (0.001, 0.75, 0, 3 * 3600)},
                                               "pause": 3600, "remove": ["J0"]})
        f, b = self._leak_rows(ctx, wntr, 60)
        failures += f
        f, b = self._mass_balances(ctx, wntr, 100)
        failures += f
        f, b = self._leak_ops(ctx, wntr, 200, forced=self.FORCED_OPS)
        failures += f
        for spec in self._gen_sim_specs(ctx, 40):
            failures += self._sim_case(ctx, wntr, spec)
        for spec in self._gen_edit_specs(ctx, 30):
            failures += self._edit_case(ctx, wntr, spec)
        return failures

    def replay(self, ctx, path):
        r = json.load(open(path if os.path.isabs(path) else os.path.join(vlib.VERIF, path)))
        print(json.dumps(r, indent=1, default=str)[:3000])
        wntr = vlib.import_wntr()
        self._consts()
        rp = r.get("replay", {})
        fs = []
        if rp.get("kind") == "sim":
            spec = {k: rp[k] for k in ("mode", "hstep", "report", "duration", "pause", "remove", "isolate", "rerun", "high", "extra", "copy") if k in rp and rp[k] is not None}
            spec["leaks"] = {n: tuple(v) for n, v in rp["leaks"].items()}
            fs = self._sim_case(ctx, wntr, spec)
        elif rp.get("kind") == "edit":
            spec = {k: rp[k] for k in ("mode", "hstep", "report", "duration", "pause", "same_sim") if k in rp}
            spec["leaks"] = {n: tuple(v) for n, v in rp["leaks"].items()}
            spec["edits0"] = [tuple(e) for e in rp.get("edits0", [])]
            spec["edits1"] = [tuple(e) for e in rp.get("edits1", [])]
            fs = self._edit_case(ctx, wntr, spec)
        elif rp.get("kind") == "leakops":
            fs, _ = self._leak_ops(ctx, wntr, 0, forced=[[tuple(o) for o in rp["ops"]]] * 4)
        else:
            fs, _ = self.correspondence(ctx)
        hit = [f for f in fs if f.key == r.get("key")]
        print("replay: %s" % ("REPRODUCED " + hit[0].what if hit else "not reproduced on the current tree"))
        return 1 if hit else 0


if __name__ == "__main__":
    vlib.run_check(C08)
