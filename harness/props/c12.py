"""C12 -- writing a model to an EPANET INP file and reading it back preserves it.

Tie (T): `Gen/SchemaInp.lean` is regenerated on every run from wntr/epanet/io.py by Python `ast`:
  * for every section writer `_write_X`: each value that reaches a `.format(...)` call -- the model attribute it comes
    from, the `from_si`/`to_si` call (HydParam/QualParam, darcy_weisbach / reaction_order / mass_units arguments) it passes
    through, the format spec (`15.11g`, `.4f`, `12f`, str) and the guard (string constants of the enclosing `if` tests and
    of the literal keywords written next to it);
  * for every section reader `_read_X`: each destination (`add_*` parameter, assigned attribute, `.append`) with the
    conversion call and guard of the value stored there;
  * the option / time keywords written per version (2.2, 2.0) and the keywords the readers recognise;
  * the rule-value conversions of `_EpanetRule` and the control-line conversions of `_write_controls` / `_read_control_line`.
Props/C12.lean decides on these tables that every field is read with a parameter of the conversion class it was
written with (lifted with C17's inverse theorem to every value and each of the ten flow units), that every definition
attribute `to_dict` emits (Gen/SchemaDict.lean) and the statement does not exclude is written and read back, and that the
keywords written are read, 2.0 omitting exactly the 2.2-specific ones.  The control / rule text is modelled in
Model/InpText.lean (`parse (print c) = c`), tied by Drivers/InpDriver.lean.

Oracle (on the real implementation): API-built models (c12c13_gen) x flow unit x INP version: write_inpfile -> read_inpfile,
`to_dict` + control trees of the original vs the re-read model compared field by field after the normalisation the statement
allows; numeric fields compared IN FILE UNITS at the precision of the writer's own format spec (taken from the translator);
second cycle: the second file equals the first modulo the timestamp header and the second re-read equals the first exactly.
"""
import ast
import copy
import json
import logging
import math
import os
import re
import sys
import warnings

sys.path.insert(0, os.path.dirname(os.path.dirname(os.path.abspath(__file__))))
sys.path.insert(0, os.path.dirname(os.path.abspath(__file__)))
import vlib
from vlib import BrokenTie, Broken, Failure, Check
import c12c13_gen as G

UNITS = ["CFS", "GPM", "MGD", "IMGD", "AFD", "LPS", "LPM", "MLD", "CMH", "CMD"]
WORK = os.path.join(vlib.BUILD, "c12")

# ================================================================================================ canonical model


def cond_tree(C, c):
    if isinstance(c, C.AndCondition):
        return ["and", cond_tree(C, c._condition_1), cond_tree(C, c._condition_2)]
    if isinstance(c, C.OrCondition):
        return ["or", cond_tree(C, c._condition_1), cond_tree(C, c._condition_2)]
    if isinstance(c, C.TimeOfDayCondition):
        return ["clock", c._relation.symbol, float(c._threshold), bool(c._repeat), c._first_day]
    if isinstance(c, C.SimTimeCondition):
        return ["time", c._relation.symbol, float(c._threshold), bool(c._repeat), c._first_time]
    if isinstance(c, C.ValueCondition):
        o = c._source_obj
        typ = getattr(o, "node_type", None) or getattr(o, "link_type", None)
        return ["val", typ, o.name, c._source_attr, c._relation.symbol, float(c._threshold)]
    return ["other", type(c).__name__]


def action_list(acts):
    out = []
    for a in acts:
        o, attr = a.target()
        v = a._value
        if attr == "status":
            v = int(v)
        elif isinstance(v, (int, float)) and not isinstance(v, bool):
            v = float(v)
        out.append([getattr(o, "link_type", None) or getattr(o, "node_type", None), o.name, attr, v])
    return out


def canon(wntr, wn):
    """the model as the statement sees it: elements by name, sources without names, the five option groups, controls and
    rules as trees (simple controls are not named in an INP file: kept in order)"""
    C = wntr.network.controls
    d = G.jsonify(wntr.network.to_dict(wn))
    out = {"nodes": {e["name"]: e for e in d["nodes"]}, "links": {e["name"]: e for e in d["links"]},
           "curves": {e["name"]: e for e in d["curves"]}, "patterns": {e["name"]: e for e in d["patterns"]},
           "sources": [{k: v for k, v in s.items() if k != "name"} for s in d["sources"]],
           "options": {g: d["options"][g] for g in ("time", "hydraulic", "quality", "reaction", "energy")},
           "order": {"nodes": [e["name"] for e in d["nodes"]], "links": [e["name"] for e in d["links"]]}}
    ctl, rules = [], []
    for name, c in wn.controls():
        if c.epanet_control_type is C._ControlType.rule:
            rules.append({"name": name, "cond": cond_tree(C, c._condition), "then": action_list(c._then_actions),
                          "else": action_list(c._else_actions), "priority": int(c._priority)})
        else:
            ctl.append({"cond": cond_tree(C, c._condition), "then": action_list(c._then_actions), "priority": int(c._priority)})
    out["controls"], out["rules"] = ctl, rules
    return out


# ---- what the statement puts outside (removed on both sides); every entry names its reason
EXCLUDED = {
    "Junction": {"minimum_pressure": "per-junction PDD parameter (WNTR-only)", "required_pressure": "per-junction PDD parameter (WNTR-only)",
                 "pressure_exponent": "per-junction PDD parameter (WNTR-only)",
                 "leak": "leak (WNTR-only)", "leak_area": "leak (WNTR-only)", "leak_discharge_coeff": "leak (WNTR-only)"},
    "Tank": {"leak": "leak (WNTR-only)", "leak_area": "leak (WNTR-only)", "leak_discharge_coeff": "leak (WNTR-only)"},
    "Reservoir": {"leak": "leak (WNTR-only)", "leak_area": "leak (WNTR-only)", "leak_discharge_coeff": "leak (WNTR-only)"},
    "Pipe": {"initial_quality": "[QUALITY] holds node qualities only", "initial_setting": "a pipe has no setting"},
    "Pump": {"initial_quality": "[QUALITY] holds node qualities only"},
    "Valve": {"initial_quality": "[QUALITY] holds node qualities only"},
}
EXCLUDED_OPTIONS = {
    ("time", "pattern_interpolation"): "WNTR-only",
    ("hydraulic", "inpfile_units"): "the unit system the file is written in (the quantifier of the property)",
    ("hydraulic", "inpfile_pressure_units"): "follows the flow units",
    ("hydraulic", "hydraulics"): "file name of a hydraulics file, not a model setting", ("hydraulic", "hydraulics_filename"): "same",
    ("quality", "inpfile_units"): "mass unit label of the file",
}
V22_ONLY_OPTIONS = [("hydraulic", "headerror"), ("hydraulic", "flowchange"), ("hydraulic", "demand_model"), ("hydraulic", "minimum_pressure"),
                    ("hydraulic", "required_pressure"), ("hydraulic", "pressure_exponent")]
V22_ONLY_ATTRS = {"Tank": ["overflow"]}


def link_class(e):
    return e.get("link_type")


def normalise(cm, version, side):
    """the normalisation the statement allows, applied to BOTH sides (side is only used for documentation)"""
    cm = copy.deepcopy(cm)
    for e in cm["nodes"].values():
        cls = e["node_type"]
        for k in EXCLUDED.get(cls, {}):
            e.pop(k, None)
        if version == 2.0:
            for k in V22_ONLY_ATTRS.get(cls, []):
                e.pop(k, None)
        if cls == "Junction":
            # read-only views of the first demand entry: compared through demand_timeseries_list
            for k in ("base_demand", "demand_pattern", "demand_category"):
                e.pop(k, None)
            for ts in e.get("demand_timeseries_list") or []:
                if ts.get("pattern_name") == "":
                    ts["pattern_name"] = None
            # a junction without a demand entry and one with a single zero demand without pattern/category are the same
            dl = e.get("demand_timeseries_list")
            if dl is not None and len(dl) == 0:
                e["demand_timeseries_list"] = [{"base_val": 0.0, "pattern_name": None, "category": None}]
        if e.get("head_pattern_name") == "":
            e["head_pattern_name"] = None
    for e in cm["links"].values():
        cls = e["link_type"]
        for k in EXCLUDED.get(cls, {}):
            e.pop(k, None)
        if e.get("speed_pattern_name") == "":
            e["speed_pattern_name"] = None
        if cls == "Valve" and e.get("valve_type") == "GPV":
            e.pop("headloss_curve", None)  # the curve object next to its name: compared through curves
        if cls == "Pump" and isinstance(e.get("efficiency"), dict):
            e["efficiency"] = e["efficiency"].get("name")  # the curve object: compared through curves
        if cls == "Pump" and "initial_setting" in e:
            # [STATUS] holds ONE word per link: a closed pump has no place for a speed setting, and a speed setting of 1.0
            # is the format's default (InpNorm.normPump)
            if str(e.get("initial_status")).upper() in ("CLOSED", "0"):
                e.pop("initial_setting")
            elif e["initial_setting"] is None:
                e["initial_setting"] = 1.0
    for s in cm["sources"]:
        if s.get("pattern") == "":
            s["pattern"] = None
    o = cm["options"]
    # a pattern name that names no pattern of the model carries nothing (Options() itself starts with the dangling default '1')
    pats = set(cm["patterns"])
    if o["hydraulic"].get("pattern") not in pats:
        o["hydraulic"]["pattern"] = None
    if o["energy"].get("global_pattern") not in pats:
        o["energy"]["global_pattern"] = None
    for e in cm["nodes"].values():
        for ts in e.get("demand_timeseries_list") or []:
            if ts.get("pattern_name") not in pats:
                ts["pattern_name"] = None
    # [CONTROLS] knows the level of a tank / the pressure of a junction only: a head condition is the same condition in
    # another datum (head = elevation + level / pressure)
    for c in cm["controls"]:
        a = c["cond"]
        if a[0] == "val" and a[3] == "head" and a[1] in ("Tank", "Junction") and a[2] in cm["nodes"]:
            a[3] = "level" if a[1] == "Tank" else "pressure"
            a[5] = a[5] - cm["nodes"][a[2]]["elevation"]
        elif a[0] == "val" and a[1] == "Tank" and a[3] == "pressure":
            a[3] = "level"  # Tank.pressure is head - elevation, the level (CtlCond.norm: the attribute of the node kind)
    for r in cm["rules"]:
        r["cond"] = of_groups(cnf(r["cond"]))  # InpNorm.ofGroups (cnf c)
    for (g, k) in EXCLUDED_OPTIONS:
        o[g].pop(k, None)
    if version == 2.0:
        for (g, k) in V22_ONLY_OPTIONS:
            o[g].pop(k, None)
    # the quality sub-options that belong to another quality mode have no place in the file
    qp = o["quality"].get("parameter")
    if qp != "TRACE":
        o["quality"].pop("trace_node", None)
    if qp != "CHEMICAL":
        o["quality"].pop("chemical_name", None)
    if o["hydraulic"].get("demand_model") in (None, "DDA", "DD"):
        # the PDA parameters are written with the PDA keyword only
        for k in ("minimum_pressure", "required_pressure", "pressure_exponent"):
            o["hydraulic"].pop(k, None)
    if o["hydraulic"].get("demand_model") in ("PDA", "PDD"):
        o["hydraulic"]["demand_model"] = "PDA"
    if o["hydraulic"].get("demand_model") in ("DDA", "DD", None):
        o["hydraulic"]["demand_model"] = "DDA"
    if o["energy"].get("global_price") is None:
        o["energy"]["global_price"] = 0  # unset == the EPANET default (no price)
    for k in ("bulk_order", "wall_order", "tank_order", "trials", "checkfreq", "maxcheck"):
        for g in ("reaction", "hydraulic"):
            if isinstance(o[g].get(k), float) and o[g][k] == int(o[g][k]):
                o[g][k] = int(o[g][k])
    return cm


# ================================================================================================ translator (ast of wntr/epanet/io.py)

CONV_FUNCS = ("to_si", "from_si")
DEST_CALLS = ("ValueCondition", "ControlAction", "_conditional_control", "_time_control", "SimTimeCondition", "TimeOfDayCondition")
_PH = re.compile(r"\{([^{}:!]*)(?:![rsa])?(?::([^{}]*))?\}")

# section of every function the translator reads: (function, direction, section)
FUNCS = [
    ("_write_junctions", "w", "JUNCTIONS"), ("_read_junctions", "r", "JUNCTIONS"),
    ("_write_reservoirs", "w", "RESERVOIRS"), ("_read_reservoirs", "r", "RESERVOIRS"),
    ("_write_tanks", "w", "TANKS"), ("_read_tanks", "r", "TANKS"),
    ("_write_pipes", "w", "PIPES"), ("_read_pipes", "r", "PIPES"),
    ("_write_pumps", "w", "PUMPS"), ("_read_pumps", "r", "PUMPS"),
    ("_write_valves", "w", "VALVES"), ("_read_valves", "r", "VALVES"),
    ("_write_emitters", "w", "EMITTERS"), ("_read_emitters", "r", "EMITTERS"),
    ("_write_curves", "w", "CURVES"), ("_read_curves", "r", "CURVES"), ("_read_end", "r", "CURVES"),
    ("_write_patterns", "w", "PATTERNS"), ("_read_patterns", "r", "PATTERNS"),
    ("_write_energy", "w", "ENERGY"), ("_read_energy", "r", "ENERGY"),
    ("_write_status", "w", "STATUS"), ("_read_status", "r", "STATUS"),
    ("_write_controls", "w", "CONTROLS"), ("_read_control_line", "r", "CONTROLS"),
    ("add_control_condition", "w", "RULES"), ("add_action_on_true", "w", "RULES"), ("add_action_on_false", "w", "RULES"),
    ("generate_control", "r", "RULES"),
    ("_write_demands", "w", "DEMANDS"), ("_read_demands", "r", "DEMANDS"),
    ("_write_quality", "w", "QUALITY"), ("_read_quality", "r", "QUALITY"),
    ("_write_reactions", "w", "REACTIONS"), ("_read_reactions", "r", "REACTIONS"),
    ("_write_sources", "w", "SOURCES"), ("_read_sources", "r", "SOURCES"),
    ("_write_mixing", "w", "MIXING"), ("_read_mixing", "r", "MIXING"),
    ("_write_options", "w", "OPTIONS"), ("_read_options", "r", "OPTIONS"),
    ("_write_times", "w", "TIMES"), ("_read_times", "r", "TIMES"),
    ("_write_coordinates", "w", "COORDINATES"), ("_read_coordinates", "r", "COORDINATES"),
    ("_write_vertices", "w", "VERTICES"), ("_read_vertices", "r", "VERTICES"),
    ("_write_tags", "w", "TAGS"), ("_read_tags", "r", "TAGS"),
]
RULE_PHASE = {"add_control_condition": "IF", "add_action_on_true": "THEN", "add_action_on_false": "ELSE"}


def _strs(node):
    return sorted({n.value for n in ast.walk(node) if isinstance(n, ast.Constant) and isinstance(n.value, str) and n.value.strip()})


def _words(s):
    """upper-case keywords of a literal template / keyword argument"""
    s = _PH.sub(" ", s)
    return [w for w in re.split(r"[^A-Za-z0-9_]+", s) if len(w) >= 2 and w.upper() == w and re.search("[A-Z]", w)]


class FnReader:
    """one function of io.py: value flow from model attributes to format calls (writers) / from tokens to destinations (readers)"""

    def __init__(self, fn, consts, direction, sec, sigs):
        self.fn, self.consts, self.dir, self.sec, self.sigs = fn, consts, direction, sec, sigs
        self.parent = {}
        for n in ast.walk(fn):
            for c in ast.iter_child_nodes(n):
                self.parent[c] = n
        self.assigns = {}   # name -> [(value expr, assign node)]
        self.loops = {}     # name -> (iter expr, index in tuple target or None)
        self.dicts = {}     # dict var -> {key: [(value, node)]}
        for n in ast.walk(fn):
            if isinstance(n, ast.Assign) and len(n.targets) == 1:
                t = n.targets[0]
                if isinstance(t, ast.Name):
                    self.assigns.setdefault(t.id, []).append((n.value, n))
                    if isinstance(n.value, ast.Dict):
                        d = self.dicts.setdefault(t.id, {})
                        for k, v in zip(n.value.keys, n.value.values):
                            if isinstance(k, ast.Constant):
                                d.setdefault(k.value, []).append((v, n))
                elif isinstance(t, ast.Subscript) and isinstance(t.value, ast.Name) and isinstance(t.slice, ast.Constant):
                    self.dicts.setdefault(t.value.id, {}).setdefault(t.slice.value, []).append((n.value, n))
                elif isinstance(t, ast.Tuple):
                    for i, el in enumerate(t.elts):
                        if isinstance(el, ast.Name):
                            self.assigns.setdefault(el.id, []).append((ast.Subscript(value=n.value, slice=ast.Constant(value=i), ctx=ast.Load()), n))
            elif isinstance(n, ast.For):
                if isinstance(n.target, ast.Name):
                    self.loops[n.target.id] = (n.iter, None)
                elif isinstance(n.target, ast.Tuple):
                    for i, e in enumerate(n.target.elts):
                        if isinstance(e, ast.Name):
                            self.loops[e.id] = (n.iter, i)
        self.rows = []

    def _stmt(self, node):
        n = node
        while n in self.parent and not isinstance(n, ast.stmt):
            n = self.parent[n]
        return n

    # ---------------------------------------------------------------- guards
    def guard(self, node):
        out = set()
        n = node
        while n in self.parent:
            p = self.parent[n]
            if isinstance(p, ast.If):
                toks = _strs(p.test)
                for c in ast.walk(p.test):
                    if isinstance(c, ast.Call) and isinstance(c.func, ast.Name) and c.func.id == "isinstance" and len(c.args) == 2:
                        for a in (c.args[1].elts if isinstance(c.args[1], ast.Tuple) else [c.args[1]]):
                            toks.append("isa:" + (a.attr if isinstance(a, ast.Attribute) else getattr(a, "id", "?")))
                if n in p.body:
                    out.update(toks)
                elif n in p.orelse and not (len(p.orelse) == 1 and isinstance(p.orelse[0], ast.If)) and toks:
                    out.add("else:" + "/".join(toks))
            elif isinstance(p, ast.For) and n in p.body:
                it = self.chain(p.iter)
                for ph, lab in (("_if_clauses", "IF"), ("_then_clauses", "THEN"), ("_else_clauses", "ELSE")):
                    if it.endswith(ph):
                        out.add(lab)
            n = p
        return out

    # ---------------------------------------------------------------- names of things
    def chain(self, e, seen=()):
        if isinstance(e, ast.Attribute):
            b = self.chain(e.value, seen)
            if self._is_element(b):
                b = ""
            s = (b + "." if b else "") + e.attr
        elif isinstance(e, ast.Name):
            if e.id in ("wn", "self", "model"):
                s = "wn" if e.id != "self" else "self"
                if e.id == "wn" and "wn" in self.assigns and len(self.assigns["wn"]) == 1 and "wn" not in seen:
                    s = self.chain(self.assigns["wn"][0][0], seen + ("wn",))
            elif e.id in seen:
                s = "local:" + e.id
            elif e.id in self.loops:
                it, idx = self.loops[e.id]
                b = self.chain(it, seen + (e.id,))
                s = "" if self._is_element(b) else b + "[]"
            elif e.id in self.assigns and len(self.assigns[e.id]) == 1 and not isinstance(self.assigns[e.id][0][0], (ast.List, ast.Dict)):
                b = self.chain(self.assigns[e.id][0][0], seen + (e.id,))
                s = "" if self._is_element(b) else b
            elif e.id in self.assigns and all(self._is_element(self.chain(v, seen + (e.id,))) for v, _ in self.assigns[e.id]):
                s = ""
            else:
                s = "local:" + e.id
        elif isinstance(e, ast.Subscript):
            b = self.chain(e.value, seen)
            if isinstance(e.slice, ast.Constant):
                s = "%s[%s]" % (b, e.slice.value)
            else:
                s = b + "[]"
        elif isinstance(e, ast.Call):
            if isinstance(e.func, ast.Name) and e.func.id in ("str", "float", "int", "list", "enumerate", "round") and e.args:
                s = self.chain(e.args[0], seen)
            elif isinstance(e.func, ast.Name) and len(e.args) == 1 and not e.keywords:
                s = "%s(%s)" % (e.func.id, self.chain(e.args[0], seen))
            else:
                s = self.chain(e.func, seen) + "()"
        elif isinstance(e, ast.Constant):
            s = "const:" + repr(e.value)
        else:
            s = "expr"
        s = s.replace("self.wn", "wn")
        if s.startswith("wn.options"):
            s = s[3:]
        return s

    @staticmethod
    def _is_element(ch):
        """an object fetched from the model: wn.nodes[..], wn.links[..], wn.get_node(..), iteration over wn.nodes() ..."""
        return bool(re.match(r"^wn\.(nodes|links|_sources|get_node|get_link|get_curve|get_pattern|controls|curves|patterns)(\(\))?(\[[^\]]*\])*$", ch))

    # ---------------------------------------------------------------- value flow
    # ---------------------------------------------------------------- which assignment reaches which use
    def _ancestry(self, n):
        """[(ancestor, arm)] from the inside out; arm = 'body' / 'orelse' for If and For"""
        out = []
        while n in self.parent:
            p = self.parent[n]
            arm = None
            if isinstance(p, (ast.If, ast.For)):
                arm = "body" if n in p.body else ("orelse" if n in p.orelse else "test")
            out.append((p, arm))
            n = p
        return out

    def reaching(self, cands, use):
        """the assignments (value, node) that may deliver the value read at `use`: not in the other arm of an `if` the use
        is in, not after the use, inside the use's loop when that loop assigns the name itself, and not overwritten by a
        later assignment that the use cannot bypass"""
        ua = self._ancestry(use)
        uarms = {id(p): arm for p, arm in ua}
        uloops = [p for p, arm in ua if isinstance(p, ast.For) and arm == "body"]
        ok = []
        for (v, node) in cands:
            if node is use:
                continue
            na = self._ancestry(node)
            if any(isinstance(p, ast.If) and id(p) in uarms and uarms[id(p)] != arm for p, arm in na):
                continue
            if node.lineno > use.lineno and not any(p in uloops for p, _ in na):
                continue
            ok.append((v, node, na))
        if uloops:
            inner = uloops[0]
            local = [c for c in ok if any(p is inner for p, _ in c[2]) and c[1].lineno <= use.lineno]
            if local:
                ok = [c for c in ok if any(p is inner for p, _ in c[2])]
        # kill: the last candidate before the use whose every enclosing `if` also encloses the use
        def ifs(na):
            return {(id(p), arm) for p, arm in na if isinstance(p, ast.If)}
        keep = []
        for c1 in ok:
            dead = False
            for c2 in ok:
                if c2 is c1 or not (c1[1].lineno < c2[1].lineno <= use.lineno):
                    continue
                # c2 sits on the path of c1 (every `if` arm around c2 is around c1 too, or around the use): it overwrites c1
                if all((k in ifs(c1[2])) or (k[0] in uarms and uarms[k[0]] == k[1]) for k in ifs(c2[2])):
                    dead = True
                    break
            if not dead:
                keep.append(c1)
        return [(v, node) for v, node, _ in keep]

    # ---------------------------------------------------------------- value flow
    def leaves(self, e, use, ctx=frozenset(), wrap="", depth=0, seen=frozenset()):
        """[(leaf expr, ctx, wrap)] -- the expressions the value read at statement `use` may come from"""
        if depth > 6:
            return [(e, ctx, wrap)]
        if isinstance(e, ast.Name):
            srcs = self.assigns.get(e.id)
            if srcs and e.id not in ("wn",):
                out = []
                for (v, node) in self.reaching(srcs, use):
                    if node in seen or isinstance(v, (ast.Dict, ast.List)):
                        continue
                    out += self.leaves(v, node, ctx | self.guard(node), wrap, depth + 1, seen | {node})
                if out:
                    return out
            return [(e, ctx, wrap)]
        if isinstance(e, ast.Subscript) and isinstance(e.value, ast.Name) and e.value.id in self.dicts and isinstance(e.slice, ast.Constant):
            out = []
            for (v, node) in self.reaching(self.dicts[e.value.id].get(e.slice.value, []), use):
                if node not in seen:
                    out += self.leaves(v, node, ctx | self.guard(node), wrap, depth + 1, seen | {node})
            return out or [(e, ctx, wrap)]
        if isinstance(e, ast.Call) and isinstance(e.func, ast.Name) and e.func.id in ("str", "float", "int") and e.args:
            return self.leaves(e.args[0], use, ctx, e.func.id if not wrap else wrap, depth + 1, seen)
        if isinstance(e, ast.IfExp):
            return self.leaves(e.body, use, ctx, wrap, depth + 1, seen) + self.leaves(e.orelse, use, ctx, wrap, depth + 1, seen)
        if isinstance(e, ast.Call) and isinstance(e.func, ast.Name):
            inner = [n for n in ast.walk(self.fn) if isinstance(n, ast.FunctionDef) and n is not self.fn and n.name == e.func.id]
            if inner:
                out = []
                for r in ast.walk(inner[0]):
                    if isinstance(r, ast.Return) and r.value is not None and r not in seen:
                        out += self.leaves(r.value, r, ctx | self.guard(r), wrap, depth + 1, seen | {r})
                if out:
                    return out
        return [(e, ctx, wrap)]

    def conv_of(self, e):
        """(fn, ptype, pname, dw, order, mass, value expr) when e is a to_si / from_si call"""
        if not (isinstance(e, ast.Call) and isinstance(e.func, ast.Name) and e.func.id in CONV_FUNCS):
            return None
        if len(e.args) < 3:
            raise BrokenTie("%s: %s call with fewer than 3 positional arguments" % (self.fn.name, e.func.id))
        p = e.args[2]
        if isinstance(p, ast.Name) and p.id in self.assigns and len(self.assigns[p.id]) == 1:
            p = self.assigns[p.id][0][0]
        if not (isinstance(p, ast.Attribute) and isinstance(p.value, ast.Name) and p.value.id in ("HydParam", "QualParam")):
            raise BrokenTie("%s: parameter of %s is not HydParam.X / QualParam.X: %s" % (self.fn.name, e.func.id, ast.unparse(e.args[2])))
        kw = {k.arg: k.value for k in e.keywords}
        mass = len(e.args) > 3 or "mass_units" in kw
        dw = "darcy_weisbach" in kw
        order = ""
        if "reaction_order" in kw:
            order = self.chain(kw["reaction_order"]).split(".")[-1]
        return (e.func.id, p.value.id[:-5], p.attr, dw, order, mass, e.args[1])

    def add(self, name, leaf, ctx, fmt="", wrap=""):
        cv = self.conv_of(leaf)
        if cv:
            fn, pt, pn, dw, order, mass, val = cv
            if isinstance(val, ast.Name) and len(self.assigns.get(val.id, [])) > 1:
                # a local that is adjusted on the way (threshold = threshold - elevation): named after where it starts from
                first = min(self.assigns[val.id], key=lambda a: a[1].lineno)
                src = self.chain(first[0], (val.id,))
                if src.startswith("const:") or src in ("expr",):
                    src = "local:" + val.id
            else:
                src = self.chain(val)
        else:
            fn, pt, pn, dw, order, mass = "", "", "", False, "", False
            src = self.chain(leaf)
        if self.fn.name in RULE_PHASE:
            ctx = set(ctx) | {RULE_PHASE[self.fn.name]}
        row = dict(const=isinstance(leaf, ast.Constant) or name == "(test)", sec=self.sec, dir=self.dir, fn=self.fn.name, name=name if self.dir == "r" else src, src=src if self.dir == "r" else name,
                   conv=fn, ptype=pt, pname=pn, dw=dw, order=order, mass=mass, fmt=fmt if wrap != "str" or fmt not in ("", "s") and not fmt.endswith("s") else "repr",
                   ctx="|".join(sorted(ctx)))
        if row not in self.rows:
            self.rows.append(row)

    # ---------------------------------------------------------------- writers
    def template(self, e, use, depth=0):
        """all literal text a format template may consist of"""
        if isinstance(e, ast.Constant) and isinstance(e.value, str):
            return [e.value]
        if isinstance(e, ast.Name):
            if e.id in self.assigns and depth < 4:
                out = []
                for (v, _) in self.reaching(self.assigns[e.id], use):
                    for n in ast.walk(v):
                        if isinstance(n, ast.Constant) and isinstance(n.value, str) and "{" in n.value:
                            out.append(n.value)
                        elif isinstance(n, ast.Name) and n.id in self.consts and n.id != e.id:
                            out.append(self.consts[n.id])
                return out
            if e.id in self.consts:
                return [self.consts[e.id]]
        return []

    def read_writer(self):
        for call in ast.walk(self.fn):
            if not (isinstance(call, ast.Call) and isinstance(call.func, ast.Attribute) and call.func.attr == "format"):
                continue
            tpls = self.template(call.func.value, self._stmt(call))
            if not tpls:
                raise BrokenTie("%s: cannot resolve the template of %s" % (self.fn.name, ast.unparse(call)[:80]))
            base = self.guard(call)
            sib = set()
            for a in call.args:
                if isinstance(a, ast.Constant) and isinstance(a.value, str):
                    sib.update(_words(a.value))
            for t in tpls[:1]:
                sib.update(_words(t))
            # placeholders: name -> spec (first non-string spec wins), positional ones numbered
            spec = {}
            for t in tpls:
                auto = 0
                for m in _PH.finditer(t):
                    key = m.group(1)
                    if key == "":
                        key = str(auto)
                        auto += 1
                    sp = m.group(2) or ""
                    if key not in spec or (spec[key].endswith("s") or spec[key] == "") and sp and not sp.endswith("s"):
                        spec[key] = sp
            args = []
            for i, a in enumerate(call.args):
                args.append((str(i), a))
            for kw in call.keywords:
                if kw.arg is None:
                    if isinstance(kw.value, ast.Name) and kw.value.id in self.dicts:
                        for k in self.dicts[kw.value.id]:
                            args.append((k, ast.Subscript(value=kw.value, slice=ast.Constant(value=k), ctx=ast.Load())))
                    else:
                        raise BrokenTie("%s: ** of something that is not a local dictionary" % self.fn.name)
                else:
                    args.append((kw.arg, kw.value))
            for key, a in args:
                if key not in spec:
                    continue
                for (leaf, ctx, wrap) in self.leaves(a, self._stmt(call)):
                    if isinstance(leaf, ast.Constant):
                        continue
                    if isinstance(leaf, ast.Call) and isinstance(leaf.func, ast.Attribute) and leaf.func.attr == "format":
                        continue  # a nested format call is read on its own
                    self.add(key, leaf, set(base) | set(ctx) | sib, spec[key], wrap)
        # attributes the writer only TESTS (check_valve, overflow, vol_curve is None, ...): written through the branch taken
        for n in ast.walk(self.fn):
            if isinstance(n, ast.If):
                for a in ast.walk(n.test):
                    if isinstance(a, ast.Attribute) and not isinstance(self.parent.get(a), ast.Attribute):
                        ch = self.chain(a)
                        if not (ch.startswith("self.") or ch.startswith("local:") or ch.startswith("LinkStatus") or ch.startswith("MixType")
                                or ch.startswith("np.") or ch.startswith("Comparison") or ch.startswith("_ControlType") or "()" in ch):
                            self.add("(test)", a, self.guard(n))
        return self.rows

    # ---------------------------------------------------------------- readers
    def read_reader(self):
        for n in ast.walk(self.fn):
            if isinstance(n, ast.Call):
                f = n.func
                fname = f.attr if isinstance(f, ast.Attribute) else (f.id if isinstance(f, ast.Name) else "")
                if fname.startswith("add_") and fname in self.sigs or fname in DEST_CALLS:
                    params = self.sigs.get(fname)
                    typ = ""
                    if fname == "add_curve" and len(n.args) > 1 and isinstance(n.args[1], ast.Constant):
                        typ = "." + str(n.args[1].value)
                    for i, a in enumerate(n.args):
                        pn = params[i] if params and i < len(params) else str(i)
                        self._dest("%s%s.%s" % (fname, typ, pn), a, n)
                    for kw in n.keywords:
                        if kw.arg:
                            self._dest("%s%s.%s" % (fname, typ, kw.arg), kw.value, n)
                elif fname == "append" and isinstance(f, ast.Attribute) and n.args:
                    tgt = self.chain(f.value)
                    if tgt.startswith("local:"):
                        # a list of points built for add_curve(name, TYPE, points)
                        for m in ast.walk(self.fn):
                            if isinstance(m, ast.Call) and isinstance(m.func, ast.Attribute) and m.func.attr == "add_curve" and len(m.args) > 2 \
                                    and isinstance(m.args[2], ast.Name) and "local:" + m.args[2].id == tgt and isinstance(m.args[1], ast.Constant):
                                tgt = "add_curve.%s.points" % m.args[1].value
                    a = n.args[0]
                    if isinstance(a, ast.Tuple):
                        for i, el in enumerate(a.elts):
                            self._dest("%s.append.%d" % (tgt, i), el, n)
                    else:
                        self._dest("%s.append" % tgt, a, n)
                elif fname == "setattr" and len(n.args) == 3:
                    self._dest(self.chain(n.args[0]) + ".*", n.args[2], n)
            elif isinstance(n, ast.Assign) and len(n.targets) == 1 and isinstance(n.targets[0], ast.Attribute):
                ch = self.chain(n.targets[0])
                if ch.startswith("self.") or ch.startswith("local:"):
                    continue
                self._dest(ch, n.value, n)
        return self.rows

    def _dest(self, dest, value, node):
        base = self.guard(node)
        for (leaf, ctx, wrap) in self.leaves(value, self._stmt(node)):
            # a list of points built in a loop: follow the appended tuples instead
            self.add(dest, leaf, set(base) | set(ctx), "", wrap)


FNS_CACHE = {}
ORDER_SENSITIVE_DERIVED = {}


def read_io_tables(wntr):
    path = os.path.join(vlib.REPO, "wntr", "epanet", "io.py")
    tree = ast.parse(open(path).read())
    consts = {}
    for n in tree.body:
        if isinstance(n, ast.Assign) and len(n.targets) == 1 and isinstance(n.targets[0], ast.Name) and isinstance(n.value, ast.Constant) \
                and isinstance(n.value.value, str):
            consts[n.targets[0].id] = n.value.value
    fns = {}
    for n in ast.walk(tree):
        if isinstance(n, ast.FunctionDef):
            fns.setdefault(n.name, n)
    import inspect
    sigs = {}
    W = wntr.network.model.WaterNetworkModel
    for nm in dir(W):
        if nm.startswith("add_"):
            try:
                sigs[nm] = [p for p in inspect.signature(getattr(W, nm)).parameters if p != "self"]
            except (TypeError, ValueError):
                pass
    rows = []
    for (fname, d, sec) in FUNCS:
        if fname not in fns:
            raise BrokenTie("wntr/epanet/io.py has no function %s" % fname)
        r = FnReader(fns[fname], consts, d, sec, sigs)
        rows += r.read_writer() if d == "w" else r.read_reader()
    FNS_CACHE["fns"] = fns
    return rows, fns, consts


READER_SECTION = {"_read_title": "[TITLE]", "_read_report": "[REPORT]", "_read_labels": "[LABELS]", "_read_backdrop": "[BACKDROP]", "_read_end": None,
                  "_read_control_line": None, "_read_controls": "[CONTROLS]", "_read_rules": "[RULES]"}
# sections whose reader is sensitive to the ORDER of the lines inside the section (hand-written; the permutation oracle never
# shuffles these and shuffles all the others): text kept verbatim, continuation lines, position-dependent names, "first line
# of a node resets", ORDER before coefficients, point / vertex / entry order
ORDER_SENSITIVE = ["[TITLE]", "[CURVES]", "[PATTERNS]", "[CONTROLS]", "[RULES]", "[DEMANDS]", "[SOURCES]", "[REACTIONS]", "[VERTICES]", "[LABELS]",
                   "[BACKDROP]", "[REPORT]",
                   # found by the permutation oracle: `_read_options` converts MINIMUM / REQUIRED PRESSURE with the flow units read
                   # SO FAR -- a file with those lines before UNITS raises AttributeError ('NoneType' has no 'is_traditional');
                   # WNTR's writer puts UNITS first, EPANET itself does not care about the order
                   "[OPTIONS]"]


def derive_order_sensitive(fns, secs):
    """sections whose reader depends on the order of its lines, read off the reader's code: (a) no per-line loop (the whole
    section is handed to a parser); inside the loop (b) an `.append/.add/.remove` on anything but a list created in the
    same iteration, (c) a variable that lives across iterations and is both read and assigned, (d) an attribute
    (`self.flow_units`, an option) that the function both assigns and reads.  -> {section: reason}"""
    sec_fn = {}
    for (f, d, sec) in FUNCS:
        if d == "r" and f.startswith("_read_"):
            sec_fn.setdefault("[%s]" % sec, f)
    sec_fn.update({"[TITLE]": "_read_title", "[REPORT]": "_read_report", "[LABELS]": "_read_labels", "[BACKDROP]": "_read_backdrop",
                   "[CONTROLS]": "_read_controls", "[RULES]": "_read_rules"})
    out = {}
    for sec in secs:
        fn = fns.get(sec_fn.get(sec, ""))
        if fn is None:
            raise BrokenTie("no reader function known for section %s" % sec)
        loops = [n for n in ast.walk(fn) if isinstance(n, ast.For) and "self.sections" in ast.unparse(n.iter)]
        if not loops:
            out[sec] = "the section is handed over as a whole (%s)" % fn.name
            continue
        loop = loops[0]
        inside = set(id(n) for n in ast.walk(loop))
        local_lists = {t.id for n in ast.walk(loop) if isinstance(n, ast.Assign) for t in n.targets if isinstance(t, ast.Name)}
        local_lists -= {t.id for n in ast.walk(fn) if isinstance(n, ast.Assign) and id(n) not in inside for t in n.targets if isinstance(t, ast.Name)}
        why = None
        for n in ast.walk(loop):
            if isinstance(n, ast.Call) and isinstance(n.func, ast.Attribute) and n.func.attr in ("append", "add", "remove", "extend", "insert"):
                recv = n.func.value
                if not (isinstance(recv, ast.Name) and recv.id in local_lists):
                    why = "`%s.%s(...)` keeps the lines in file order" % (ast.unparse(recv)[:40], n.func.attr)
                    break
        if why is None:
            pre = {t.id for n in ast.walk(fn) if isinstance(n, (ast.Assign, ast.AugAssign)) and id(n) not in inside
                   for t in (n.targets if isinstance(n, ast.Assign) else [n.target]) if isinstance(t, ast.Name)}
            assigned_in = {t.id for n in ast.walk(loop) if isinstance(n, (ast.Assign, ast.AugAssign))
                           for t in (n.targets if isinstance(n, ast.Assign) else [n.target]) if isinstance(t, ast.Name)}
            read_in = {n.id for n in ast.walk(loop) if isinstance(n, ast.Name) and isinstance(n.ctx, ast.Load)}
            carried = sorted(v for v in pre & assigned_in & read_in)
            if carried:
                why = "`%s` is carried from line to line" % carried[0]
        if why is None:
            stores = {ast.unparse(t) for n in ast.walk(fn) if isinstance(n, ast.Assign) for t in n.targets if isinstance(t, ast.Attribute)}
            loads = {ast.unparse(n) for n in ast.walk(loop) if isinstance(n, ast.Attribute) and isinstance(n.ctx, ast.Load)}
            both = sorted(x for x in stores & loads if x.startswith("self.") or x.startswith("opts.") or x.startswith("wn.options"))
            if both:
                why = "`%s` is set by one line and used by another" % both[0]
        if why:
            out[sec] = why
    return out


def derive_times_dispatch(fns):
    """the special cases of `_read_times`: (index of the word tested, word, attribute of options.time assigned)"""
    fn = fns["_read_times"]
    out = []
    for n in ast.walk(fn):
        if isinstance(n, ast.If) and isinstance(n.test, ast.Compare) and len(n.test.ops) == 1 and isinstance(n.test.ops[0], ast.Eq):
            m = re.match(r"^current\[(\d)\]\.upper\(\)$", ast.unparse(n.test.left))
            c = n.test.comparators[0]
            tgt = [t for s_ in n.body if isinstance(s_, ast.Assign) for t in s_.targets if isinstance(t, ast.Attribute) and ast.unparse(t).startswith("opts.time.")]
            if m and isinstance(c, ast.Constant) and tgt:
                out.append((int(m.group(1)), c.value, tgt[-1].attr))
    if not out or not any(isinstance(n, ast.Call) and isinstance(n.func, ast.Name) and n.func.id == "setattr" for n in ast.walk(fn)):
        raise BrokenTie("_read_times: no `current[i].upper() == 'WORD'` dispatch / generic setattr found")
    return out


def read_text_tables():
    """the literal text the control / rule writers and readers are made of (ast of wntr/epanet/io.py and
    wntr/network/controls.py): keywords, prefixes, clause templates, comparison words, status words"""
    io_tree = ast.parse(open(os.path.join(vlib.REPO, "wntr", "epanet", "io.py")).read())
    ct_tree = ast.parse(open(os.path.join(vlib.REPO, "wntr", "network", "controls.py")).read())
    T = {}

    def fn_of(tree, cls, name):
        for c in tree.body:
            if isinstance(c, ast.ClassDef) and c.name == cls:
                for f in c.body:
                    if isinstance(f, ast.FunctionDef) and f.name == name:
                        return f
            if cls is None and isinstance(c, ast.FunctionDef) and c.name == name:
                return c
        raise BrokenTie("%s.%s not found" % (cls, name))

    def strs(node, pred=lambda v: True):
        return [n.value for n in ast.walk(node) if isinstance(n, ast.Constant) and isinstance(n.value, str) and pred(n.value)]

    # keywords of parse_rules_lines: the list compared with word.upper()
    f = fn_of(io_tree, "_EpanetRule", "parse_rules_lines")
    kws = [[e.value for e in n.comparators[0].elts] for n in ast.walk(f) if isinstance(n, ast.Compare) and isinstance(n.ops[0], ast.In)
           and isinstance(n.comparators[0], ast.List) and "word.upper()" in ast.unparse(n.left)]
    if len(kws) != 1:
        raise BrokenTie("parse_rules_lines: keyword list not found")
    T["ruleKeywords"] = kws[0]
    T["ruleDispatch"] = sorted({c.value for n in ast.walk(f) if isinstance(n, ast.Compare) and "words[0].upper()" in ast.unparse(n.left)
                                for c in n.comparators if isinstance(c, ast.Constant)})
    # __str__ templates
    T["ruleStr"] = strs(fn_of(io_tree, "_EpanetRule", "__str__"), lambda v: "RULE" in v)
    # prefixes
    pref = []
    for nm, kind in (("add_control_condition", "cond"), ("add_action_on_true", "then"), ("add_action_on_false", "else")):
        f = fn_of(io_tree, "_EpanetRule", nm)
        for d in f.args.defaults:
            if isinstance(d, ast.Constant) and isinstance(d.value, str):
                pref.append((kind, d.value.strip()))
    f = fn_of(io_tree, "_EpanetRule", "add_control_condition")
    for v in strs(f, lambda v: v.strip() in ("AND", "OR") and v != v.strip()):
        if ("cond", v.strip()) not in pref:
            pref.append(("cond", v.strip()))
    f = fn_of(io_tree, "_EpanetRule", "from_if_then_else")
    for n in ast.walk(f):
        if isinstance(n, ast.Call) and isinstance(n.func, ast.Attribute) and n.func.attr in ("add_action_on_true", "add_action_on_false") and len(n.args) == 2:
            pref.append(("then" if n.func.attr.endswith("true") else "else", n.args[1].value.strip()))
    T["rulePrefixes"] = pref
    # clause templates
    tpl = []
    for nm in ("add_control_condition", "add_action_on_true", "add_action_on_false"):
        f = fn_of(io_tree, "_EpanetRule", nm)
        for n in ast.walk(f):
            if isinstance(n, ast.Assign) and len(n.targets) == 1 and isinstance(n.targets[0], ast.Name) and n.targets[0].id == "fmt" and isinstance(n.value, ast.Constant):
                tpl.append((nm, n.value.value.split()))
    T["clauseTemplates"] = tpl
    # simple controls
    f = fn_of(io_tree, "InpFile", "_write_controls")
    T["controlTemplates"] = [v.split() for v in strs(f, lambda v: v.startswith("{ltype}"))]
    T["controlWriteWords"] = sorted(set(strs(f, lambda v: v in ("above", "below", "TIME", "CLOCKTIME"))))
    f = fn_of(io_tree, None, "_read_control_line")
    T["controlReadWords"] = sorted(set(strs(f, lambda v: v.isupper() and v.isalpha())))
    T["controlReadSlots"] = sorted({int(m) for n in ast.walk(f) if isinstance(n, ast.Subscript) and isinstance(n.value, ast.Name) and n.value.id == "current"
                                   and isinstance(n.slice, ast.Constant) for m in [n.slice.value]})
    # Comparison: symbol / text / parse
    comp = [c for c in ct_tree.body if isinstance(c, ast.ClassDef) and c.name == "Comparison"][0]
    for prop in ("symbol", "text"):
        f = [x for x in comp.body if isinstance(x, ast.FunctionDef) and x.name == prop][0]
        pairs = []
        for n in ast.walk(f):
            if isinstance(n, ast.If) and isinstance(n.test, ast.Compare) and isinstance(n.test.comparators[0], ast.Attribute):
                ret = [r for r in n.body if isinstance(r, ast.Return)]
                if ret and isinstance(ret[0].value, ast.Constant):
                    pairs.append((n.test.comparators[0].attr, ret[0].value.value))
        T["rel" + prop.capitalize()] = pairs
    f = [x for x in comp.body if isinstance(x, ast.FunctionDef) and x.name == "parse"][0]
    pl = []
    for n in ast.walk(f):
        if isinstance(n, ast.If) and isinstance(n.test, ast.Compare) and isinstance(n.test.ops[0], ast.In):
            ret = [r for r in n.body if isinstance(r, ast.Return)]
            if ret and isinstance(ret[0].value, ast.Attribute):
                pl.append((ret[0].value.attr, [e.value for e in n.test.comparators[0].elts if isinstance(e, ast.Constant)]))
    T["relParse"] = pl
    # _parse_value: status words
    cc = [c for c in ct_tree.body if isinstance(c, ast.ClassDef) and c.name == "ControlCondition"][0]
    f = [x for x in cc.body if isinstance(x, ast.FunctionDef) and x.name == "_parse_value"][0]
    sv = []
    for n in ast.walk(f):
        if isinstance(n, ast.If) and isinstance(n.test, ast.Compare) and isinstance(n.test.comparators[0], ast.Constant) and isinstance(n.test.comparators[0].value, str):
            ret = [r for r in n.body if isinstance(r, ast.Return)]
            if ret and isinstance(ret[0].value, ast.Constant) and isinstance(ret[0].value.value, int):
                sv.append((n.test.comparators[0].value, ret[0].value.value))
    T["statusValues"] = sv
    # the text forms of the dictionary path (C13)
    T["dictTemplates"] = []
    for cls_, meth in (("ControlAction", "__str__"), ("ValueCondition", "__str__"), ("OrCondition", "__str__"), ("AndCondition", "__str__"),
                       ("TimeOfDayCondition", "__str__"), ("SimTimeCondition", "__str__")):
        c = [x for x in ct_tree.body if isinstance(x, ast.ClassDef) and x.name == cls_][0]
        f = [x for x in c.body if isinstance(x, ast.FunctionDef) and x.name == meth][0]
        T["dictTemplates"].append((cls_, [v for v in strs(f, lambda v: "{" in v or v.strip() in ("AND", "OR")) if "clock_day" not in v and "sim_time" not in v]))
    for k in ("ruleKeywords", "ruleStr", "rulePrefixes", "clauseTemplates", "controlTemplates", "relSymbol", "relText", "relParse", "statusValues"):
        if not T[k]:
            raise BrokenTie("text tables: nothing extracted for %s" % k)
    return T


def text_tables_lean(T):
    def pairs(l):
        return "[" + ", ".join("(%s, %s)" % (_ls(a), _ls(b) if isinstance(b, str) else (str(b) if isinstance(b, int) else _ll(b))) for a, b in l) + "]"
    out = ["/-! ### the literal text of the control / rule writers and readers (ast of io.py and controls.py) -/"]
    out.append("def ruleKeywords : List String := %s" % _ll(T["ruleKeywords"]))
    out.append("def ruleDispatch : List String := %s" % _ll(T["ruleDispatch"]))
    out.append("def ruleStr : List String := %s" % _ll(T["ruleStr"]))
    out.append("def rulePrefixes : List (String × String) := %s" % pairs(T["rulePrefixes"]))
    out.append("def clauseTemplates : List (String × List String) := %s" % pairs(T["clauseTemplates"]))
    out.append("def controlTemplates : List (List String) := [%s]" % ", ".join(_ll(t) for t in T["controlTemplates"]))
    out.append("def controlWriteWords : List String := %s" % _ll(T["controlWriteWords"]))
    out.append("def controlReadWords : List String := %s" % _ll(T["controlReadWords"]))
    out.append("def controlReadSlots : List Nat := [%s]" % ", ".join(map(str, T["controlReadSlots"])))
    out.append("def relSymbol : List (String × String) := %s" % pairs(T["relSymbol"]))
    out.append("def relText : List (String × String) := %s" % pairs(T["relText"]))
    out.append("def relParse : List (String × List String) := %s" % pairs(T["relParse"]))
    out.append("def statusValues : List (String × Nat) := %s" % pairs(T["statusValues"]))
    out.append("def dictTemplates : List (String × List String) := %s" % pairs(T["dictTemplates"]))
    return "\n".join(out) + "\n"


def derive_start_clock_branch(fns):
    """the AM/PM decision of `_write_times` (START CLOCKTIME): `if hrs <op> <bound>:` with, per arm, the suffix written
    and what is subtracted from the hours -> (op code 0 '<' 1 '<=' 2 '>' 3 '>=', bound, then-arm is AM, then-arm subtracts, else-arm subtracts)"""
    fn = fns["_write_times"]
    for n in ast.walk(fn):
        if not (isinstance(n, ast.If) and isinstance(n.test, ast.Compare) and len(n.test.ops) == 1 and isinstance(n.test.left, ast.Name)
                and n.test.left.id == "hrs" and isinstance(n.test.comparators[0], ast.Constant)):
            continue
        ops = {ast.Lt: 0, ast.LtE: 1, ast.Gt: 2, ast.GtE: 3}
        if type(n.test.ops[0]) not in ops:
            raise BrokenTie("_write_times: AM/PM test uses an operator the model does not know: %s" % ast.unparse(n.test))

        def arm(body):
            suf, sub = None, 0
            for st in body:
                if isinstance(st, ast.Assign) and isinstance(st.targets[0], ast.Name) and st.targets[0].id == "time_format" and isinstance(st.value, ast.Constant):
                    suf = st.value.value.strip().upper()
                elif isinstance(st, ast.AugAssign) and isinstance(st.target, ast.Name) and st.target.id == "hrs" and isinstance(st.op, ast.Sub) \
                        and isinstance(st.value, ast.Constant):
                    sub = int(st.value.value)
                else:
                    raise BrokenTie("_write_times: statement in the AM/PM branch the model does not know: %s" % ast.unparse(st))
            if suf not in ("AM", "PM"):
                raise BrokenTie("_write_times: an arm of the AM/PM branch does not set time_format to AM / PM")
            return suf, sub
        (s1, d1), (s2, d2) = arm(n.body), arm(n.orelse)
        if s1 == s2:
            raise BrokenTie("_write_times: both arms of the AM/PM branch write %s" % s1)
        return (ops[type(n.test.ops[0])], int(n.test.comparators[0].value), s1 == "AM", d1, d2)
    raise BrokenTie("_write_times: no `if hrs <op> <n>:` AM/PM branch found")


CLAMP = {}


def derive_required_pressure_clamp(fns):
    """the lower limit `_write_options` applies to REQUIRED PRESSURE: (compared AFTER the conversion to file units?, the
    legal side is `>=`?, bound, the substitute is in FILE units?, substitute)"""
    fn = fns["_write_options"]
    for n in ast.walk(fn):
        if not (isinstance(n, ast.If) and isinstance(n.test, ast.Compare) and len(n.test.ops) == 1 and isinstance(n.test.left, ast.Name)
                and n.test.left.id == "required_pressure" and isinstance(n.test.comparators[0], ast.Constant)):
            continue
        name = n.test.left.id
        bound = float(n.test.comparators[0].value)
        op = type(n.test.ops[0])
        if op in (ast.GtE, ast.Gt):
            legal_ge, clamp_arm = op is ast.GtE, n.orelse
        elif op in (ast.Lt, ast.LtE):
            legal_ge, clamp_arm = op is ast.Lt, n.body
        else:
            raise BrokenTie("_write_options: REQUIRED PRESSURE limit uses an operator the model does not know")
        conv_assign = [a for a in ast.walk(fn) if isinstance(a, ast.Assign) and isinstance(a.targets[0], ast.Name) and a.targets[0].id == name
                       and isinstance(a.value, ast.Call) and isinstance(a.value.func, ast.Name) and a.value.func.id == "from_si"]
        if not conv_assign:
            raise BrokenTie("_write_options: REQUIRED PRESSURE is no longer converted with from_si into `required_pressure`")
        after = all(a.lineno < n.lineno for a in conv_assign)
        sub, sub_file = None, None
        for st in clamp_arm:
            for c in ast.walk(st):
                if isinstance(c, ast.Call) and isinstance(c.func, ast.Attribute) and c.func.attr == "format":
                    nums = [a.value for a in c.args if isinstance(a, ast.Constant) and isinstance(a.value, (int, float)) and not isinstance(a.value, bool)]
                    if nums:
                        sub, sub_file = float(nums[0]), True
            if isinstance(st, ast.Assign) and isinstance(st.targets[0], ast.Name) and st.targets[0].id == name and isinstance(st.value, ast.Constant):
                sub = float(st.value.value)
                sub_file = not any(a.lineno > st.lineno for a in conv_assign)
        if sub is None:
            raise BrokenTie("_write_options: cannot tell what REQUIRED PRESSURE is replaced by below the limit")
        return (after, legal_ge, bound, sub_file, sub)
    raise BrokenTie("_write_options: the lower limit of REQUIRED PRESSURE (`if required_pressure >= 0.1`) was not found")


def read_sections_and_order(path=None):
    """`_INP_SECTIONS` and the order in which `InpFile.read` calls the section readers (ast)"""
    tree = ast.parse(open(path or os.path.join(vlib.REPO, "wntr", "epanet", "io.py")).read())
    secs = None
    for n in tree.body:
        if isinstance(n, ast.Assign) and len(n.targets) == 1 and isinstance(n.targets[0], ast.Name) and n.targets[0].id == "_INP_SECTIONS":
            secs = [e.value for e in n.value.elts if isinstance(e, ast.Constant)]
    if not secs:
        raise BrokenTie("wntr/epanet/io.py: _INP_SECTIONS is not a literal list of strings")
    cls = [n for n in tree.body if isinstance(n, ast.ClassDef) and n.name == "InpFile"]
    rd = [n for n in cls[0].body if isinstance(n, ast.FunctionDef) and n.name == "read"] if cls else []
    if not rd:
        raise BrokenTie("InpFile.read not found")
    sec_of = {f: "[%s]" % sec for (f, d, sec) in FUNCS if d == "r"}
    sec_of.update(READER_SECTION)
    order = []
    for n in ast.walk(rd[0]):
        pass
    calls = [n for n in ast.walk(rd[0]) if isinstance(n, ast.Call) and isinstance(n.func, ast.Attribute) and isinstance(n.func.value, ast.Name)
             and n.func.value.id == "self" and n.func.attr.startswith("_read_")]
    calls.sort(key=lambda n: (n.lineno, n.col_offset))
    for c in calls:
        if c.func.attr not in sec_of:
            raise BrokenTie("InpFile.read calls an unknown section reader %s" % c.func.attr)
        if sec_of[c.func.attr]:
            order.append(sec_of[c.func.attr])
    # the line loop of `read` must still have the shape the model transliterates
    src = ast.unparse(rd[0])
    for needle in ("line = line.strip()", "line.startswith('[')", "sec = vals[0].upper()", "sec.replace(']', 'S]')", "sec.replace('S]', ']')", "sec == '[END]'",
                   "section is None and line.startswith(';')", "self.sections[section].append((lnum, line))"):
        if needle not in src:
            raise BrokenTie("InpFile.read: the line loop no longer contains `%s` (Model/InpText.lean InpRead transliterates it)" % needle)
    return secs, order


def read_keywords(fns):
    """option / time keywords: written per version, and recognised by the readers"""
    out = {"w22": [], "w20": [], "r": []}
    for fname, sec in (("_write_options", "OPTIONS"), ("_write_times", "TIMES")):
        fn = fns[fname]
        parent = {}
        for n in ast.walk(fn):
            for c in ast.iter_child_nodes(n):
                parent[c] = n
        for call in ast.walk(fn):
            if not (isinstance(call, ast.Call) and isinstance(call.func, ast.Attribute) and call.func.attr == "format"):
                continue
            kw = None
            for a in call.args:
                if isinstance(a, ast.Constant) and isinstance(a.value, str) and _words(a.value):
                    kw = " ".join(_words(a.value))
                    break
            if kw is None:
                continue
            only = None
            n = call
            while n in parent:
                p = parent[n]
                if isinstance(p, ast.If) and "version" in ast.unparse(p.test):
                    t = ast.unparse(p.test).replace(" ", "")
                    if t not in ("version==2.0",):
                        raise BrokenTie("%s: version test not of the form `version == 2.0`: %s" % (fname, t))
                    only = "20" if n in p.body else "22"
                n = p
            key = sec + ":" + kw
            if only in (None, "22") and key not in out["w22"]:
                out["w22"].append(key)
            if only in (None, "20") and key not in out["w20"]:
                out["w20"].append(key)
    for fname, sec in (("_read_options", "OPTIONS"), ("_read_times", "TIMES")):
        for n in ast.walk(fns[fname]):
            if isinstance(n, ast.Compare) and len(n.ops) == 1 and isinstance(n.ops[0], (ast.Eq, ast.In)):
                lhs = ast.unparse(n.left)
                if lhs in ("key", "current[0].upper()", "current[1].upper()", "words[1].upper()"):
                    for s in _strs(n.comparators[0]):
                        k = "%s:%s" % (sec, s)
                        if k not in out["r"]:
                            out["r"].append(k)
        if any(isinstance(n, ast.Call) and isinstance(n.func, ast.Name) and n.func.id == "setattr" for n in ast.walk(fns[fname])):
            out["r"].append(sec + ":*")
    return out


# ================================================================================================ specification: which writer slot carries which attribute
# (cls, key, wsec, w, wtoks, rsec, r, rtoks).  Hand-written; emitted into Gen/SchemaInp.lean as `fields` so that the Lean
# theorems and the oracle's tolerance derivation use one table.  `w` / `r` are the names the translator gives to the model
# attribute a writer reads / the destination a reader fills.

def _F(cls, key, sec, w, r, wt=(), rt=(), rsec=None):
    return (cls, key, sec, w, tuple(wt), rsec or sec, r, tuple(rt))


PUMPS2 = ("HeadPump", "PowerPump")
VALVES2 = ("Valve", "GPValve")
LINKS5 = ("Pipe",) + PUMPS2 + VALVES2
NODES3 = ("Junction", "Tank", "Reservoir")
FIELDS = []
FIELDS += [
    _F("Junction", "name", "JUNCTIONS", "wn.junction_name_list[]", "add_junction.name"),
    _F("Junction", "elevation", "JUNCTIONS", "elevation", "add_junction.elevation"),
    _F("Junction", "demand_timeseries_list", "JUNCTIONS", "demand_timeseries_list.base_demand_list()[0]", "add_junction.base_demand"),
    _F("Junction", "demand_timeseries_list", "JUNCTIONS", "demand_timeseries_list.pattern_list()[0]", "add_junction.demand_pattern"),
    _F("Junction", "demand_timeseries_list", "DEMANDS", "demand_timeseries_list[].base_value", "demand_timeseries_list.append.0"),
    _F("Junction", "demand_timeseries_list", "DEMANDS", "demand_timeseries_list[].pattern_name", "demand_timeseries_list.append.1"),
    _F("Junction", "demand_timeseries_list", "DEMANDS", "demand_timeseries_list[].category", "demand_timeseries_list.append.2"),
    _F("Junction", "emitter_coefficient", "EMITTERS", "emitter_coefficient", "emitter_coefficient"),
    _F("Tank", "name", "TANKS", "wn.tank_name_list[]", "add_tank.name"),
    _F("Tank", "elevation", "TANKS", "elevation", "add_tank.elevation"),
    _F("Tank", "init_level", "TANKS", "init_level", "add_tank.init_level"),
    _F("Tank", "min_level", "TANKS", "min_level", "add_tank.min_level"),
    _F("Tank", "max_level", "TANKS", "max_level", "add_tank.max_level"),
    _F("Tank", "diameter", "TANKS", "diameter", "add_tank.diameter"),
    _F("Tank", "min_vol", "TANKS", "min_vol", "add_tank.min_vol"),
    _F("Tank", "vol_curve_name", "TANKS", "vol_curve.name", "add_tank.vol_curve"),
    _F("Tank", "overflow", "TANKS", "overflow", "add_tank.overflow"),
    _F("Tank", "bulk_coeff", "REACTIONS", "bulk_coeff", "bulk_coeff", ["TANK"], ["TANK"]),
    _F("Tank", "mixing_model", "MIXING", "_mixing_model", "mixing_model"),
    _F("Tank", "mixing_fraction", "MIXING", "mixing_fraction", "mixing_fraction", ["2COMP"], ["2COMP"]),
    _F("Reservoir", "name", "RESERVOIRS", "wn.reservoir_name_list[]", "add_reservoir.name"),
    _F("Reservoir", "base_head", "RESERVOIRS", "head_timeseries.base_value", "add_reservoir.base_head"),
    _F("Reservoir", "head_pattern_name", "RESERVOIRS", "head_timeseries.pattern.name", "add_reservoir.head_pattern"),
]
for c in NODES3:
    FIELDS += [_F(c, "coordinates", "COORDINATES", "coordinates[0]", "coordinates"), _F(c, "coordinates", "COORDINATES", "coordinates[1]", "coordinates"),
               _F(c, "tag", "TAGS", "tag", "tag", ["NODE"], ["NODE"]),
               _F(c, "initial_quality", "QUALITY", "initial_quality", "initial_quality", ["CHEMICAL"], ["CHEMICAL"]),
               _F(c, "initial_quality", "QUALITY", "initial_quality", "initial_quality", ["AGE"], ["AGE"]),
               _F(c, "initial_quality", "QUALITY", "initial_quality", "initial_quality", ["else:AGE"], ["else:AGE"])]
FIELDS += [
    _F("Pipe", "name", "PIPES", "wn.pipe_name_list[]", "add_pipe.name"),
    _F("Pipe", "start_node_name", "PIPES", "start_node_name", "add_pipe.start_node_name"),
    _F("Pipe", "end_node_name", "PIPES", "end_node_name", "add_pipe.end_node_name"),
    _F("Pipe", "length", "PIPES", "length", "add_pipe.length"),
    _F("Pipe", "diameter", "PIPES", "diameter", "add_pipe.diameter"),
    _F("Pipe", "roughness", "PIPES", "roughness", "add_pipe.roughness"),
    _F("Pipe", "minor_loss", "PIPES", "minor_loss", "add_pipe.minor_loss"),
    _F("Pipe", "initial_status", "PIPES", "initial_status", "add_pipe.initial_status"),
    _F("Pipe", "check_valve", "PIPES", "check_valve", "add_pipe.check_valve"),
    _F("Pipe", "bulk_coeff", "REACTIONS", "bulk_coeff", "bulk_coeff", ["BULK"], ["BULK"]),
    _F("Pipe", "wall_coeff", "REACTIONS", "wall_coeff", "wall_coeff", ["WALL"], ["WALL"]),
]
for c in PUMPS2:
    FIELDS += [
        _F(c, "name", "PUMPS", "wn.pump_name_list[]", "add_pump.name"),
        _F(c, "start_node_name", "PUMPS", "start_node_name", "add_pump.start_node_name"),
        _F(c, "end_node_name", "PUMPS", "end_node_name", "add_pump.end_node_name"),
        _F(c, "pump_type", "PUMPS", "pump_type", "add_pump.pump_type"),
        _F(c, "base_speed", "PUMPS", "speed_timeseries.base_value", "add_pump.speed", [], ["SPEED"]),
        _F(c, "speed_pattern_name", "PUMPS", "speed_timeseries.pattern.name", "add_pump.pattern", [], ["PATTERN"]),
        _F(c, "efficiency", "ENERGY", "efficiency.name", "efficiency", ["EFFIC", "PUMP"], ["EFFIC", "PUMP"]),
        _F(c, "energy_price", "ENERGY", "energy_price", "energy_price", ["PRICE", "PUMP"], ["PRICE", "PUMP"]),
        _F(c, "energy_pattern", "ENERGY", "energy_pattern", "energy_pattern", ["PATTERN", "PUMP"], ["PATTERN", "PUMP"]),
        _F(c, "initial_status", "STATUS", "LinkStatus(initial_status).name", "initial_status", [], ["ACTIVE"]),
        _F(c, "initial_setting", "STATUS", "initial_setting", "initial_setting", ["isa:float"], ["else:isa:Valve"]),
    ]
FIELDS += [_F("HeadPump", "pump_curve_name", "PUMPS", "pump_curve_name", "add_pump.pump_parameter", ["HEAD"], ["HEAD"]),
           _F("PowerPump", "power", "PUMPS", "power", "add_pump.pump_parameter", ["POWER"], ["POWER"])]
for c in VALVES2:
    FIELDS += [
        _F(c, "name", "VALVES", "wn.valve_name_list[]", "add_valve.name"),
        _F(c, "start_node_name", "VALVES", "start_node_name", "add_valve.start_node_name"),
        _F(c, "end_node_name", "VALVES", "end_node_name", "add_valve.end_node_name"),
        _F(c, "valve_type", "VALVES", "valve_type", "add_valve.valve_type"),
        _F(c, "diameter", "VALVES", "diameter", "add_valve.diameter"),
        _F(c, "minor_loss", "VALVES", "minor_loss", "add_valve.minor_loss"),
        _F(c, "initial_status", "STATUS", "LinkStatus(initial_status).name", "initial_status", [], ["ACTIVE"]),
    ]
FIELDS += [_F("Valve", "initial_setting", "VALVES", "initial_setting", "add_valve.initial_setting", [t], [t]) for t in ("PRV", "FCV", "TCV")]
FIELDS += [_F("GPValve", "headloss_curve_name", "VALVES", "headloss_curve_name", "add_valve.initial_setting", ["GPV"], ["GPV"])]
for c in LINKS5:
    FIELDS += [_F(c, "tag", "TAGS", "tag", "tag", ["LINK"], ["LINK"]),
               _F(c, "vertices", "VERTICES", "_vertices[][0]", "_vertices.append.0"), _F(c, "vertices", "VERTICES", "_vertices[][1]", "_vertices.append.1")]
FIELDS += [
    _F("Curve", "name", "CURVES", "wn.curve_name_list[]", "self.curves[].append.0"),
    _F("Curve", "points", "CURVES", "points[][0]", "add_curve.VOLUME.points.append.0", ["VOLUME"], [], "TANKS"),
    _F("Curve", "points", "CURVES", "points[][1]", "add_curve.VOLUME.points.append.1", ["VOLUME"], [], "TANKS"),
    _F("Curve", "points", "CURVES", "points[][0]", "add_curve.HEAD.points.append.0", ["HEAD"], [], "PUMPS"),
    _F("Curve", "points", "CURVES", "points[][1]", "add_curve.HEAD.points.append.1", ["HEAD"], [], "PUMPS"),
    _F("Curve", "points", "CURVES", "points[][0]", "add_curve.EFFICIENCY.points.append.0", ["EFFICIENCY"], [], "ENERGY"),
    _F("Curve", "points", "CURVES", "points[][1]", "add_curve.EFFICIENCY.points.append.1", ["EFFICIENCY"], [], "ENERGY"),
    _F("Curve", "points", "CURVES", "points[][0]", "add_curve.HEADLOSS.points.append.0", ["HEADLOSS"], [], "VALVES"),
    _F("Curve", "points", "CURVES", "points[][1]", "add_curve.HEADLOSS.points.append.1", ["HEADLOSS"], [], "VALVES"),
    _F("Pattern", "name", "PATTERNS", "wn.pattern_name_list[]", "add_pattern.name"),
    _F("Pattern", "multipliers", "PATTERNS", "multipliers[]", "add_pattern.pattern"),
    _F("Source", "node_name", "SOURCES", "node_name", "add_source.node_name"),
    _F("Source", "source_type", "SOURCES", "source_type", "add_source.source_type"),
    _F("Source", "strength", "SOURCES", "strength_timeseries.base_value", "add_source.quality", ["MASS"], ["MASS"]),
    _F("Source", "strength", "SOURCES", "strength_timeseries.base_value", "add_source.quality", ["else:MASS"], ["else:MASS"]),
    _F("Source", "pattern", "SOURCES", "strength_timeseries.pattern_name", "add_source.pattern"),
]
for k, kw, generic in (("duration", ["DURATION"], False), ("hydraulic_timestep", ["HYDRAULIC"], False), ("quality_timestep", ["QUALITY"], False),
                       ("rule_timestep", ["RULE"], True), ("pattern_timestep", ["PATTERN", "TIMESTEP"], True), ("pattern_start", ["PATTERN", "START"], True),
                       ("report_timestep", ["REPORT", "TIMESTEP"], True), ("report_start", ["REPORT", "START"], True), ("start_clocktime", ["CLOCKTIME"], False)):
    for i in range(3):
        FIELDS.append(_F("Options.time", k, "TIMES", "_sec_to_string(options.time.%s)[%d]" % (k, i), "options.time.*" if generic else "options.time." + k,
                         kw, [] if generic else kw[:1]))
FIELDS.append(_F("Options.time", "statistic", "TIMES", "options.time.statistic", "options.time.statistic"))
for k, wt, rt in (("headloss", ["HEADLOSS"], None), ("viscosity", ["VISCOSITY"], None), ("specific_gravity", ["SPECIFIC"], None), ("pattern", ["PATTERN"], None),
                  ("demand_multiplier", ["MULTIPLIER"], None), ("demand_model", ["MODEL"], None), ("minimum_pressure", ["MINIMUM"], None),
                  ("required_pressure", ["REQUIRED"], None), ("pressure_exponent", ["EXPONENT", "PRESSURE"], None), ("emitter_exponent", ["EMITTER"], None),
                  ("trials", ["TRIALS"], None), ("accuracy", ["ACCURACY"], None), ("unbalanced", ["UNBALANCED"], None), ("unbalanced_value", ["UNBALANCED"], None),
                  ("checkfreq", ["CHECKFREQ"], None), ("maxcheck", ["MAXCHECK"], None), ("damplimit", ["DAMPLIMIT"], None), ("headerror", ["HEADERROR"], None),
                  ("flowchange", ["FLOWCHANGE"], None), ("hydraulics", ["HYDRAULICS"], None), ("hydraulics_filename", ["HYDRAULICS"], None),
                  ("inpfile_pressure_units", ["PRESSURE"], None)):
    FIELDS.append(_F("Options.hydraulic", k, "OPTIONS", "options.hydraulic." + k, "options.hydraulic." + k, wt, rt or wt))
FIELDS += [
    _F("Options.quality", "parameter", "OPTIONS", "options.quality.parameter", "options.quality.parameter", ["QUALITY"], ["QUALITY"]),
    _F("Options.quality", "trace_node", "OPTIONS", "options.quality.trace_node", "options.quality.trace_node", ["TRACE"], ["TRACE"]),
    _F("Options.quality", "chemical_name", "OPTIONS", "options.quality.chemical_name", "options.quality.chemical_name", ["else:TRACE"], ["else:TRACE"]),
    _F("Options.quality", "inpfile_units", "OPTIONS", "options.quality.inpfile_units", "options.quality.inpfile_units", ["else:TRACE"], ["else:TRACE"]),
    _F("Options.quality", "diffusivity", "OPTIONS", "options.quality.diffusivity", "options.quality.diffusivity"),
    _F("Options.quality", "tolerance", "OPTIONS", "options.quality.tolerance", "options.quality.tolerance"),
]
for k, t in (("bulk_order", ["BULK", "ORDER"]), ("wall_order", ["WALL", "ORDER"]), ("tank_order", ["TANK", "ORDER"]), ("bulk_coeff", ["BULK", "GLOBAL"]),
             ("wall_coeff", ["WALL", "GLOBAL"]), ("limiting_potential", ["LIMITING"]), ("roughness_correl", ["ROUGHNESS"])):
    FIELDS.append(_F("Options.reaction", k, "REACTIONS", "options.reaction." + k, "options.reaction." + k, t, t))
for k, t in (("global_price", ["GLOBAL", "PRICE"]), ("global_pattern", ["GLOBAL", "PATTERN"]), ("global_efficiency", ["GLOBAL", "EFFICIENCY"]), ("demand_charge", ["DEMAND"])):
    FIELDS.append(_F("Options.energy", k, "ENERGY", "options.energy." + k, "options.energy." + k, t, t))
# values inside controls and rules
for ph in ("IF", "THEN", "ELSE"):
    w = "local:condition._repr_value()" if ph == "IF" else "local:action._repr_value()"
    r = "ValueCondition.3" if ph == "IF" else "ControlAction.2"
    for attr in ("demand", "flow", "pressure"):
        FIELDS.append(_F("Rule", "%s.%s" % (ph, attr), "RULES", w, r, [ph, attr], [ph, attr]))
    FIELDS.append(_F("Rule", ph + ".head", "RULES", w, r, [ph, "head"], [ph, "head"]))
    FIELDS.append(_F("Rule", ph + ".level", "RULES", w, r, [ph, "level"], [ph, "level"]))
    FIELDS.append(_F("Rule", ph + ".setting.PRV", "RULES", w, r, [ph, "setting", "PRV"], [ph, "setting", "PRV"]))
    FIELDS.append(_F("Rule", ph + ".setting.FCV", "RULES", w, r, [ph, "setting", "FCV"], [ph, "setting", "FCV"]))
FIELDS += [
    _F("Control", "setting.PRV", "CONTROLS", "_then_actions[0]._value", "ControlAction.2", ["setting", "PRV"], ["PRV"]),
    _F("Control", "setting.FCV", "CONTROLS", "_then_actions[0]._value", "ControlAction.2", ["setting", "FCV"], ["FCV"]),
    _F("Control", "setting.TCV", "CONTROLS", "_then_actions[0]._value", "ControlAction.2", ["setting", "TCV"], ["TCV"]),
    _F("Control", "base_speed", "CONTROLS", "_then_actions[0]._value", "ControlAction.2", ["base_speed"], ["isa:Pump"]),
    _F("Control", "threshold.Tank", "CONTROLS", "_condition._threshold", "_conditional_control.3", ["isa:Tank"], ["Tank"]),
    _F("Control", "threshold.Junction", "CONTROLS", "_condition._threshold", "_conditional_control.3", ["isa:Junction"], ["Junction"]),
]

# precision the specification REQUIRES of a written slot (a writer edit that prints fewer digits breaks inp_precision_meets):
# need: 'gN' N significant digits, 'fK' K decimals (in file units), 'repr' exact, 'int'
_REQ = {
    "JUNCTIONS": {"elevation": "g11", "demand_timeseries_list.base_demand_list()[0]": "g11"},
    "RESERVOIRS": {"head_timeseries.base_value": "g11"},
    "TANKS": {k: "g11" for k in ("elevation", "init_level", "min_level", "max_level", "diameter", "min_vol")},
    "PIPES": {k: "g11" for k in ("length", "diameter", "roughness", "minor_loss")},
    "PUMPS": {"power": "repr", "speed_timeseries.base_value": "g11"},
    "VALVES": {"diameter": "g11", "initial_setting": "g11", "minor_loss": "g11"},
    "EMITTERS": {"emitter_coefficient": "repr"},
    "CURVES": {"points[][0]": "f6", "points[][1]": "f6"},
    "PATTERNS": {"multipliers[]": "f6"},
    "ENERGY": {"energy_price": "f4", "options.energy.global_price": "f4", "options.energy.global_efficiency": "f4", "options.energy.demand_charge": "f4"},
    "STATUS": {"initial_setting": "g7"},
    "DEMANDS": {"demand_timeseries_list[].base_value": "repr"},
    "QUALITY": {"initial_quality": "repr"},
    "REACTIONS": {"bulk_coeff": "f4", "wall_coeff": "f4", "options.reaction.bulk_coeff": "f4", "options.reaction.wall_coeff": "f4",
                  "options.reaction.limiting_potential": "f4", "options.reaction.roughness_correl": "f4",
                  "options.reaction.bulk_order": "int", "options.reaction.wall_order": "int", "options.reaction.tank_order": "int"},
    "SOURCES": {"strength_timeseries.base_value": "repr"},
    "MIXING": {"mixing_fraction": "repr"},
    "OPTIONS": dict({"options.hydraulic." + k: "g11" for k in ("specific_gravity", "viscosity", "trials", "accuracy", "checkfreq", "maxcheck", "demand_multiplier",
                                                               "emitter_exponent", "damplimit", "headerror", "flowchange")},
                    **{"options.quality.diffusivity": "g11", "options.quality.tolerance": "g11", "options.hydraulic.minimum_pressure": "f2",
                       "options.hydraulic.required_pressure": "f2", "options.hydraulic.pressure_exponent": "repr", "options.hydraulic.unbalanced_value": "int"}),
    "COORDINATES": {"coordinates[0]": "f9", "coordinates[1]": "f9"},
    "VERTICES": {"_vertices[][0]": "f9", "_vertices[][1]": "f9"},
    "RULES": {"local:condition._repr_value()": "g6", "local:action._repr_value()": "g6"},
    "CONTROLS": {"_condition._threshold": "repr", "_then_actions[0]._value": "repr"},
}


def _need(n):
    return ("sig", int(n[1:])) if n[0] == "g" else ("fixed", int(n[1:])) if n[0] == "f" else (n,)


def precision_requirements():
    """[(description, wsec, w, wtoks, need)] for every numeric slot of the specification"""
    out = []
    for (cls, key, wsec, w, wt, rsec, r, rt) in FIELDS:
        n = _REQ.get(wsec, {}).get(w)
        if wsec == "TIMES" and w.startswith("_sec_to_string"):
            n = "int"
        if n is None:
            continue
        wt2 = tuple(t for t in wt)
        if wsec == "RULES":
            # the value before it is formatted is also a row (placeholder of the clause): only the formatted one counts
            pass
        item = ("%s.%s" % (cls, key), wsec, w, wt2, _need(n))
        if item[1:] not in [o[1:] for o in out]:
            out.append(item)
    return out


# conversions that only the READER performs (accepted input that WNTR's own writer never produces): (sec, destination, guard)
READER_ONLY = [("STATUS", "initial_setting", ("isa:Valve",))]  # a numeric valve setting in [STATUS]; the writer puts valve settings into [VALVES]

FIELDS_HAND = list(FIELDS)
CTOR = {"Junction": "add_junction", "Tank": "add_tank", "Reservoir": "add_reservoir", "Pipe": "add_pipe", "HeadPump": "add_pump", "PowerPump": "add_pump",
        "Valve": "add_valve", "GPValve": "add_valve", "Curve": "add_curve", "Pattern": "add_pattern", "Source": "add_source"}
DERIVED = set()   # the fields found from the source alone (filled by build_fields)


def slot_base(name):
    """the attribute a slot name is about: wrappers (`LinkStatus(x).name`, `_sec_to_string(x)[0]`), component suffixes
    (`[0]`, `[][1]`, `.append.0`) and the leading underscore of a private attribute removed"""
    n = name
    m = re.match(r"^\w+\((.*)\)(?:\.name|\[\d+\])?$", n)
    if m:
        n = m.group(1)
    n = re.sub(r"(\[[^\]]*\])+$", "", n)
    n = re.sub(r"\.append(\.\d+)?$", "", n)
    parts = n.split(".")
    parts[-1] = parts[-1].lstrip("_")
    return ".".join(parts)


def derive_fields(rows, emitted):
    """fields that need no human judgement: in ONE section the writer reads the attribute named like the to_dict key and the
    reader fills the attribute / add_* parameter of that name (`slot_base`); element names: the writer iterates the name
    list of the class the reader creates; [TIMES]: the reader's generic `<word0>_<word1>` rule; guards = the tokens common
    to the two sides"""
    out = []
    secs = []
    for r in rows:
        if r["sec"] not in secs:
            secs.append(r["sec"])
    for cls, keys in emitted.items():
        for key in keys:
            full = (cls.lower() + "." + key) if cls.startswith("Options.") else key
            ctor = CTOR.get(cls, "add_x")
            for sec in secs:
                W, R = [], []
                for x in rows:
                    if x["sec"] != sec or x["const"] and x["dir"] == "w" and x.get("src") != "(test)":
                        continue
                    b = slot_base(x["name"])
                    if x["dir"] == "w":
                        if b == full or (key == "name" and re.match(r"^wn\.\w+_name_list$", b)):
                            W.append(x)
                    else:
                        if b == full or b == "%s.%s" % (ctor, key) or (cls == "Options.time" and x["name"] == "options.time.*"):
                            R.append(x)
                if key == "name" and not any(x["name"] == ctor + ".name" for x in R):
                    continue
                if any(not x["const"] for x in W):
                    W = [x for x in W if not x["const"]]  # an attribute that is printed is not also "written through a test"
                if not W or not R or (cls, key) in OUTSIDE:
                    continue
                seen = []
                for w in W:
                    cw = set(t for t in w["ctx"].split("|") if t)
                    best = None
                    for r in R:
                        cr = set(t for t in r["ctx"].split("|") if t)
                        if r["name"].endswith(".*"):
                            if cw != set(key.upper().split("_")):
                                continue
                            cand = (cw, r, ())
                        elif cw and not (cw & cr):
                            continue
                        else:
                            cand = (cw & cr, r, tuple(sorted(cw & cr)))
                        if best is None or len(cand[0]) > len(best[0]):
                            best = cand
                    if best is None:
                        continue
                    wt = tuple(sorted(best[0]))
                    f = (cls, key, sec, w["name"], wt, sec, best[1]["name"], best[2])
                    if f not in seen:
                        seen.append(f)
                out += seen
    return out


def build_fields(rows, emitted):
    """FIELDS := the derived fields + the hand-written lines for the (class, key) pairs the derivation does not reach"""
    global FIELDS
    auto = derive_fields(rows, emitted)
    covered = {(f[0], f[1]) for f in auto}
    manual = [f for f in FIELDS_HAND if (f[0], f[1]) not in covered]
    DERIVED.clear()
    DERIVED.update(auto)
    FIELDS = auto + manual
    return auto, manual


# attributes `to_dict` emits that the statement puts outside / that are functions of others: (cls, key) -> reason
OUTSIDE = {}
for _c, _d in EXCLUDED.items():
    for _k, _why in _d.items():
        for _cc in ({"Pump": PUMPS2, "Valve": VALVES2}.get(_c, (_c,))):
            OUTSIDE[(_cc, _k)] = _why
for _c in NODES3:
    OUTSIDE[(_c, "node_type")] = "the section the element is written in"
for _c in LINKS5:
    OUTSIDE[(_c, "link_type")] = "the section the element is written in"
for _k in ("base_demand", "demand_pattern", "demand_category"):
    OUTSIDE[("Junction", _k)] = "read-only view of the first entry of demand_timeseries_list"
OUTSIDE[("GPValve", "headloss_curve")] = "the curve object of headloss_curve_name"
OUTSIDE[("GPValve", "initial_setting")] = "a GPV's setting is its curve (headloss_curve_name)"
OUTSIDE[("Curve", "curve_type")] = "an INP curve has no type field: the type follows from the element that refers to it (unreferenced typed curves are outside the statement)"
OUTSIDE[("Source", "name")] = "INP files store sources without names"
OUTSIDE[("Options.time", "pattern_interpolation")] = "WNTR-only"
OUTSIDE[("Pattern", "wrap")] = "WNTR-only: an INP pattern always repeats (a non-wrapping pattern, e.g. a fire-flow pattern, has no place in the file)"
OUTSIDE[("Options.hydraulic", "inpfile_units")] = "the unit system of the file (quantified over)"


# ================================================================================================ Gen/SchemaInp.lean

def _ls(s):
    return json.dumps(s, ensure_ascii=True)


def _ll(xs):
    return "[" + ", ".join(_ls(x) for x in xs) + "]"


def emitted_keys(wntr):
    import c13
    em, _ = c13.reflect_emitted(wntr)
    em = {k: list(v) for k, v in em.items()}
    od = wntr.network.WaterNetworkModel().options.to_dict()
    for g in ("time", "hydraulic", "quality", "reaction", "energy"):
        em["Options." + g] = list(od[g].keys())
    return em


def gen_schema_inp_lean(wntr, rows, kw):
    from wntr.epanet.util import HydParam, QualParam
    build_fields(rows, emitted_keys(wntr))
    out = ["-- GENERATED by harness/props/c12.py from wntr/epanet/io.py (ast).  Do not edit.",
           "-- `fields` / `outside` are the hand-written specification of harness/props/c12.py carried over verbatim.",
           "import WntrModel.Model.InpText", "namespace Wntr.InpSchema.Gen", "open Wntr.InpSchema Wntr.InpFormat", ""]
    strings = []

    def sid(x):
        if x not in strings:
            strings.append(x)
        return strings.index(x)

    def ids(sec, name, toks):
        return "(%d, %d, [%s])" % (sid(sec), sid(name), ", ".join(str(sid(t)) for t in toks))

    uniq = []
    for r in rows:
        if r["conv"]:
            en = HydParam if r["ptype"] == "Hyd" else QualParam
            if r["pname"] not in en.__members__:
                raise BrokenTie("%s: unknown parameter %sParam.%s" % (r["fn"], r["ptype"], r["pname"]))
            cv = "some { toSI := %s, hyd := %s, param := %d, dw := %s, order := %s, mass := %s }" % (
                "true" if r["conv"] == "to_si" else "false", "true" if r["ptype"] == "Hyd" else "false", en[r["pname"]].value,
                "true" if r["dw"] else "false", _ls(r["order"]), "true" if r["mass"] else "false")
        else:
            cv = "none"
        toks = [x for x in r["ctx"].split("|") if x]
        t = "  { sec := %s, write := %s, name := %s, conv := %s, fmt := %s, toks := %s, const := %s, spec := %s, ids := %s }" % (
            _ls(r["sec"]), "true" if r["dir"] == "w" else "false", _ls(r["name"]), cv, _ls(r["fmt"]),
            _ll(toks), "true" if r["const"] else "false", spec_lean(fmt_spec(r["fmt"])) if r["dir"] == "w" else ".text", ids(r["sec"], r["name"], toks))
        if t not in [u[1] for u in uniq]:
            uniq.append((r, t))
    out.append("def table : Table := [")
    secs = []
    for (r, t) in uniq:
        if r["sec"] not in secs:
            secs.append(r["sec"])
    out.append(",\n".join("  (%d, [\n%s])" % (sid(sec), ",\n".join("  " + t for (r, t) in uniq if r["sec"] == sec)) for sec in secs))
    out.append("]\n")
    out.append("def rows : List Row := table.all\n")
    fl = []
    for (cls, key, wsec, w, wt, rsec, r, rt) in FIELDS:
        fl.append("  { cls := %s, key := %s, wsec := %s, w := %s, wtoks := %s, rsec := %s, r := %s, rtoks := %s, wids := %s, rids := %s, derived := %s }" % (
            _ls(cls), _ls(key), _ls(wsec), _ls(w), _ll(wt), _ls(rsec), _ls(r), _ll(rt), ids(wsec, w, wt), ids(rsec, r, rt),
            "true" if (cls, key, wsec, w, wt, rsec, r, rt) in DERIVED else "false"))
    names = []
    for i in range(0, len(fl), 60):
        nm = "fields%d" % (i // 60)
        names.append(nm)
        out.append("def %s : List Field := [\n%s]\n" % (nm, ",\n".join(fl[i:i + 60])))
    out.append("def fields : List Field := %s\n" % " ++ ".join(names))
    mk = []
    for f in FIELDS:
        if f not in DERIVED and (f[0], f[1]) not in mk:
            mk.append((f[0], f[1]))
    out.append("/-- the (class, key) pairs carried by hand-written lines of the specification (the remainder the derivation does not reach) -/")
    out.append("def manualKeys : List (String × String) := [\n%s]\n" % ",\n".join("  (%s, %s)" % (_ls(c), _ls(k)) for (c, k) in mk))
    out.append("def outside : List (String × String) := [\n%s]\n" % ",\n".join("  (%s, %s)" % (_ls(c), _ls(k)) for (c, k) in sorted(OUTSIDE)))
    out.append("/-- required precision per written numeric slot (hand-written specification of harness/props/c12.py) -/")
    out.append("def precisionReq : List PrecReq := [\n%s]\n" % ",\n".join(
        "  { what := %s, ids := %s, need := %s }" % (_ls(d), ids(a, b, c), spec_lean(n)) for (d, a, b, c, n) in precision_requirements()))
    out.append("def readerOnly : List (Nat × Nat × List Nat) := [%s]\n" % ", ".join(ids(a, b, c) for a, b, c in READER_ONLY))
    out.append("/-- the string numbering used in `ids` -/\ndef strings : List String := %s\n" % _ll(strings))
    secs, order = read_sections_and_order()
    out.append("/-- `_INP_SECTIONS` -/\ndef inpSections : List String := %s\n" % _ll(secs))
    out.append("/-- the sections in the order in which `InpFile.read` calls their readers (ast) -/\ndef readOrder : List String := %s\n" % _ll(order))
    global ORDER_SENSITIVE_DERIVED
    ORDER_SENSITIVE_DERIVED = derive_order_sensitive(FNS_CACHE["fns"], secs)
    out.append("/-- sections whose reader depends on the order of the lines inside, with the reason read off the reader's code (ast) -/")
    out.append("def orderSensitive : List (String × String) := [\n%s]\n" % ",\n".join("  (%s, %s)" % (_ls(k), _ls(v)) for k, v in ORDER_SENSITIVE_DERIVED.items()))
    out.append("/-- the hand-written expectation (harness/props/c12.py ORDER_SENSITIVE) -/\ndef orderSensitiveExpected : List String := %s\n" % _ll(ORDER_SENSITIVE))
    out.append("/-- the special cases of `_read_times` (ast): (index of the word tested, word, attribute); every other line sets `<w0>_<w1>` -/")
    out.append("def timesDispatch : List (Nat × String × String) := [%s]\n" % ", ".join("(%d, %s, %s)" % (i, _ls(w), _ls(a)) for i, w, a in derive_times_dispatch(FNS_CACHE["fns"])))
    cl = derive_required_pressure_clamp(FNS_CACHE["fns"])
    CLAMP["required_pressure"] = cl
    from fractions import Fraction as _Fr
    q = lambda v: "(%d : Rat) / %d" % (_Fr(str(v)).numerator, _Fr(str(v)).denominator)
    out.append("/-- the lower limit of REQUIRED PRESSURE in `_write_options` (ast): compared after the conversion to file units, the legal side is `>=`, bound, the substitute is in file units, substitute -/")
    out.append("def requiredPressureClamp : Bool × Bool × Rat × Bool × Rat := (%s, %s, %s, %s, %s)\n" % (
        "true" if cl[0] else "false", "true" if cl[1] else "false", q(cl[2]), "true" if cl[3] else "false", q(cl[4])))
    b = derive_start_clock_branch(FNS_CACHE["fns"])
    out.append("/-- the AM/PM branch of `_write_times` (ast): (operator 0 `<` 1 `<=` 2 `>` 3 `>=`, bound, the then-arm writes AM, hours subtracted in the then-arm, in the else-arm) -/")
    out.append("def startClockBranch : Nat × Int × Bool × Int × Int := (%d, %d, %s, %d, %d)\n" % (b[0], b[1], "true" if b[2] else "false", b[3], b[4]))
    out.append(text_tables_lean(read_text_tables()))
    od = wntr.network.WaterNetworkModel().options.to_dict()
    out.append("/-- keys of `Options.to_dict()` per group (reflection) -/")
    out.append("def optionKeys : List (String × List String) := [\n%s]\n" % ",\n".join(
        "  (%s, %s)" % (_ls("Options." + g), _ll(list(od[g].keys()))) for g in ("time", "hydraulic", "quality", "reaction", "energy")))
    def kws(l):
        return "[" + ", ".join("(%s, %s)" % (_ls(k.split(":")[0]), _ll(k.split(":")[1].split())) for k in l) + "]"
    tw = []
    for k in kw["w22"]:
        sec, words = k.split(":")
        if sec != "TIMES":
            continue
        ws = words.split()
        fld = None
        for r in rows:
            if r["sec"] == "TIMES" and r["dir"] == "w" and set(x for x in r["ctx"].split("|") if x) == set(ws):
                m = re.search(r"options\.time\.(\w+)", r["name"])
                if m:
                    fld = m.group(1)
        if fld is None:
            raise BrokenTie("_write_times: cannot tell which option the keyword %s is written from" % words)
        tw.append((ws, fld))
    out.append("/-- [TIMES]: (keyword as written, the `options.time` attribute it is written from) -/")
    out.append("def timesWritten : List (List String × String) := [%s]\n" % ", ".join("(%s, %s)" % (_ll(ws), _ls(f)) for ws, f in tw))
    out.append("/-- (section, words of the keyword) -/")
    out.append("def kwWritten22 : List (String × List String) := %s" % kws(kw["w22"]))
    out.append("def kwWritten20 : List (String × List String) := %s" % kws(kw["w20"]))
    out.append("def kwRead : List (String × List String) := %s" % kws(kw["r"]))
    out.append("")
    out.append("end Wntr.InpSchema.Gen")
    return "\n".join(out) + "\n", len(uniq)


# ================================================================================================ precision of the file format (from the translator)

def fmt_spec(fmt):
    """the format spec of a written slot as the translator found it -> ('fixed', k) | ('sig', n) | ('repr',) | ('int',) | ('text',).
    THE one reading of format strings: emitted into Gen/SchemaInp.lean (`Row.spec`, proved bounds in Props/C12.lean) and used
    by the oracle for its tolerance."""
    if fmt == "repr":
        return ("repr",)
    f = fmt.strip().lstrip("<>^")
    m = re.match(r"^0?(\d*)(?:\.(\d+))?([gfeEGdsn]?)$", f)
    if not m:
        return ("text",)
    width, prec, typ = m.group(1), m.group(2), m.group(3)
    if typ in ("g", "G"):
        return ("sig", max(int(prec), 1) if prec is not None else 6)
    if typ == "f":
        return ("fixed", int(prec) if prec is not None else 6)
    if typ == "d":
        return ("int",)
    if typ == "" and prec is None and width == "":
        return ("repr",)  # '{}'.format(float) is str(float): the shortest string that reads back to the same double
    return ("text",)


def spec_lean(sp):
    return {"fixed": ".fixed %d", "sig": ".sig %d"}.get(sp[0], "." + sp[0]) % sp[1:] if sp[0] in ("fixed", "sig") else "." + sp[0]


def fmt_tolerance(fmt):
    """(relative, absolute) error bound IN FILE UNITS of printing a float with `fmt` and parsing it again -- the bounds
    proved in Props/C12.lean for the same `Spec` (fix_error_bound, sig_error_bound; repr/int exact)"""
    return spec_tolerance(fmt_spec(fmt))


def spec_tolerance(sp):
    if sp[0] == "sig":
        return (0.5 * 10.0 ** (1 - sp[1]), 0.0)
    if sp[0] == "fixed":
        return (0.0, 0.5 * 10.0 ** (-sp[1]))
    if sp[0] in ("repr", "int"):
        return (0.0, 0.0)
    return None


class Precision:
    """per (class, key, guard token) the writer's conversion and format, taken from the rows the translator extracted"""

    ROUND = 4e-15  # two conversions there and back in double precision

    def __init__(self, wntr, rows):
        self.wntr = wntr
        self.rows = rows
        self.cache = {}
        self.req = {(wsec, w): need for (_, wsec, w, wt, need) in precision_requirements()}

    def lookup(self, cls, key, alt=None, whint=None):
        k = (cls, key, alt, whint)
        if k in self.cache:
            return self.cache[k]
        res = None
        for (c, ky, wsec, w, wt, rsec, r, rt) in FIELDS:
            if c != cls or ky != key:
                continue
            if alt is not None and wt and alt not in wt:
                continue
            if whint is not None and whint not in w and whint not in wsec:
                continue
            cands = [x for x in self.rows if x["sec"] == wsec and x["dir"] == "w" and x["name"] == w and not x["const"]
                     and all(t in x["ctx"].split("|") for t in wt)]
            cands.sort(key=lambda x: (x["fmt"] == "",))
            if cands:
                res = (cands[0], wsec)
                break
        self.cache[k] = res
        return res

    def to_file(self, row, units, wn, x):
        if not row["conv"]:
            return x
        U = self.wntr.epanet.util
        par = (U.HydParam if row["ptype"] == "Hyd" else U.QualParam)[row["pname"]]
        kw = {}
        if row["dw"]:
            kw["darcy_weisbach"] = wn.options.hydraulic.headloss == "D-W"
        if row["order"]:
            kw["reaction_order"] = getattr(wn.options.reaction, row["order"])
        fn = U.from_si if row["conv"] == "from_si" else U.to_si
        return float(fn(U.FlowUnits[units], x, par, **kw))

    def same(self, cls, key, a, b, units, wn, alt=None, whint=None):
        """(equal at the precision of the file?, description of the bound used)"""
        if a == b:
            return True, "equal"
        if not (isinstance(a, (int, float)) and isinstance(b, (int, float))) or isinstance(a, bool) or isinstance(b, bool):
            return False, "not numeric"
        got = self.lookup(cls, key, alt, whint)
        if got is None:
            return abs(a - b) <= self.ROUND * max(abs(a), abs(b)), "no format found for %s.%s: exact" % (cls, key)
        row, sec = got
        # the bound is the one REQUIRED of the slot (Gen.precisionReq, theorem inp_field_precision); a slot without a
        # requirement is held to the format it is printed with
        need = self.req.get((row["sec"], row["name"]))
        tol = spec_tolerance(need) if need is not None else fmt_tolerance(row["fmt"])
        if tol is None:
            return abs(a - b) <= self.ROUND * max(abs(a), abs(b)), "format %r not numeric: exact" % row["fmt"]
        fa, fb = self.to_file(row, units, wn, a), self.to_file(row, units, wn, b)
        bound = tol[0] * abs(fa) * (1 + 1e-9) + tol[1] * (1 + 1e-9) + self.ROUND * max(abs(fa), abs(fb)) + 1e-300
        return abs(fa - fb) <= bound, "[%s] %s written as {:%s}, required %s: |%.17g - %.17g| vs %.3g in file units" % (
            sec, key, row["fmt"], "-".join(map(str, need)) if need else "-", fa, fb, bound)


# ================================================================================================ comparison

def link_cls(e):
    if e["link_type"] == "Pump":
        return "HeadPump" if e.get("pump_type") == "HEAD" else "PowerPump"
    if e["link_type"] == "Valve":
        return "GPValve" if e.get("valve_type") == "GPV" else "Valve"
    return "Pipe"


def flatten_cond(c, p="IF"):
    if c[0] == "and":
        return flatten_cond(c[1], p) + flatten_cond(c[2], "AND")
    if c[0] == "or":
        return flatten_cond(c[1], p) + flatten_cond(c[2], "OR")
    return [(p, c)]


def cnf(c):
    """the condition as the AND of OR-groups the [RULES] syntax can say (groups and atoms in writing order)"""
    if c[0] == "and":
        return cnf(c[1]) + cnf(c[2])
    if c[0] == "or":
        return [g1 + g2 for g1 in cnf(c[1]) for g2 in cnf(c[2])]
    return [[c]]


def of_groups(gs):
    """the canonical tree of an AND of OR-groups (left-nested), InpNorm.ofGroups"""
    def grp(g):
        t = g[0]
        for a in g[1:]:
            t = ["or", t, a]
        return t
    t = grp(gs[0])
    for g in gs[1:]:
        t = ["and", t, grp(g)]
    return t


def cond_shape(c):
    return [c[0], cond_shape(c[1]), cond_shape(c[2])] if c[0] in ("and", "or") else "atom"


class Comparer:
    """field-by-field comparison of two canonical models; failures get stable keys `<section>-<attribute>-<what>`"""

    def __init__(self, prec, wn0, units, version, m0):
        self.p, self.wn, self.u, self.v, self.m0 = prec, wn0, units, version, m0
        self.clamp = CLAMP.get("required_pressure")
        self.out = []  # (key, path, old, new, note)

    def fail(self, key, path, old, new, note=""):
        self.out.append((key, path, old, new, note))

    def num(self, sec, cls, key, path, a, b, alt=None, whint=None, label=None):
        ok, note = self.p.same(cls, key, a, b, self.u, self.wn, alt, whint)
        if not ok:
            self.fail("%s-%s-%s" % (sec, label or key, "value" if isinstance(a, (int, float)) and isinstance(b, (int, float)) and not isinstance(a, bool) else "changed"),
                      path, a, b, note)

    def elements(self, kind, a, b):
        for name in a:
            if name not in b:
                self.fail("%s-element-lost" % kind, "/%s/%s" % (kind, name), name, "<absent>")
        for name in b:
            if name not in a:
                self.fail("%s-element-appeared" % kind, "/%s/%s" % (kind, name), "<absent>", name)
        return [n for n in a if n in b]

    def run(self, c0, c2):
        qp = c0["options"]["quality"].get("parameter")
        qalt = qp if qp in ("CHEMICAL", "AGE") else "else:AGE"
        default1 = "1" in c0["patterns"] and self.m0["options"]["hydraulic"].get("pattern") is None
        for name in self.elements("nodes", c0["nodes"], c2["nodes"]):
            x, y = c0["nodes"][name], c2["nodes"][name]
            cls = x["node_type"]
            sec = {"Junction": "junctions", "Tank": "tanks", "Reservoir": "reservoirs"}[cls]
            for k in sorted(set(x) | set(y)):
                p = "/nodes/%s/%s" % (name, k)
                if k not in x or k not in y:
                    self.fail("%s-%s-%s" % (sec, k, "lost" if k in x else "appeared"), p, x.get(k, "<absent>"), y.get(k, "<absent>"))
                elif k == "coordinates":
                    for i in (0, 1):
                        self.num("coordinates", cls, k, p + "[%d]" % i, x[k][i], y[k][i])
                elif k == "demand_timeseries_list":
                    self.demands(name, x[k], y[k], default1)
                elif k == "initial_quality":
                    self.num("quality", cls, k, p, x[k] or 0.0, y[k] or 0.0, alt=qalt)
                elif k in ("emitter_coefficient",):
                    self.num("emitters", cls, k, p, x[k] or 0.0, y[k] or 0.0)
                elif k == "bulk_coeff":
                    self.num("reactions", cls, k, p, x[k], y[k]) if x[k] is not None and y[k] is not None else (x[k] == y[k] or self.fail("reactions-bulk_coeff-changed", p, x[k], y[k]))
                elif k in ("tag",):
                    x[k] == y[k] or self.fail("tags-tag-changed", p, x[k], y[k])
                elif k in ("mixing_model", "mixing_fraction"):
                    if k == "mixing_fraction" and x.get("mixing_model") not in ("Mix2", "2COMP", "TwoComp"):
                        continue  # the fraction belongs to the two-compartment model only
                    self.num("mixing", cls, k, p, x[k], y[k])
                else:
                    self.num(sec, cls, k, p, x[k], y[k])
        for name in self.elements("links", c0["links"], c2["links"]):
            x, y = c0["links"][name], c2["links"][name]
            cls = link_cls(x)
            sec = {"Pipe": "pipes", "HeadPump": "pumps", "PowerPump": "pumps", "Valve": "valves", "GPValve": "valves"}[cls]
            if cls != link_cls(y):
                self.fail("%s-type-changed" % sec, "/links/%s" % name, cls, link_cls(y))
                continue
            for k in sorted(set(x) | set(y)):
                p = "/links/%s/%s" % (name, k)
                if k not in x or k not in y:
                    self.fail("%s-%s-%s" % (sec, k, "lost" if k in x else "appeared"), p, x.get(k, "<absent>"), y.get(k, "<absent>"))
                elif k == "vertices":
                    if len(x[k]) != len(y[k]):
                        self.fail("vertices-vertices-count", p, x[k], y[k])
                    else:
                        for i, (va, vb) in enumerate(zip(x[k], y[k])):
                            for j in (0, 1):
                                self.num("vertices", cls, k, p + "[%d][%d]" % (i, j), va[j], vb[j])
                elif k == "initial_setting":
                    if cls in ("HeadPump", "PowerPump"):
                        self.num("status", cls, k, p, x[k], y[k])
                    elif cls == "Valve":
                        vt = x.get("valve_type")
                        self.num("valves", cls, k, p, x[k], y[k], alt={"PRV": "PRV", "PSV": "PRV", "PBV": "PRV", "FCV": "FCV", "TCV": "TCV"}.get(vt))
                elif k in ("bulk_coeff", "wall_coeff"):
                    self.num("reactions", cls, k, p, x[k], y[k]) if x[k] is not None and y[k] is not None else (x[k] == y[k] or self.fail("reactions-%s-changed" % k, p, x[k], y[k]))
                elif k == "tag":
                    x[k] == y[k] or self.fail("tags-tag-changed", p, x[k], y[k])
                elif k in ("efficiency", "energy_price", "energy_pattern"):
                    self.num("energy", cls, k, p, x[k], y[k]) if x[k] is not None and y[k] is not None else (x[k] == y[k] or self.fail("energy-%s-changed" % k, p, x[k], y[k]))
                elif k == "initial_status":
                    x[k] == y[k] or self.fail("%s-initial_status-changed" % ("status" if cls != "Pipe" else "pipes"), p, x[k], y[k])
                else:
                    self.num(sec, cls, k, p, x[k], y[k])
        for name in self.elements("curves", c0["curves"], c2["curves"]):
            x, y = c0["curves"][name], c2["curves"][name]
            if x["curve_type"] != y["curve_type"]:
                self.fail("curves-curve_type-changed", "/curves/%s/curve_type" % name, x["curve_type"], y["curve_type"])
            if len(x["points"]) != len(y["points"]):
                self.fail("curves-points-count", "/curves/%s/points" % name, x["points"], y["points"])
            else:
                for i, (pa, pb) in enumerate(zip(x["points"], y["points"])):
                    for j in (0, 1):
                        self.num("curves", "Curve", "points", "/curves/%s/points[%d][%d]" % (name, i, j), pa[j], pb[j], alt=x["curve_type"], whint="[][%d]" % j,
                                 label="points-%s" % x["curve_type"])
        for name in self.elements("patterns", c0["patterns"], c2["patterns"]):
            x, y = c0["patterns"][name]["multipliers"], c2["patterns"][name]["multipliers"]
            if len(x) != len(y):
                self.fail("patterns-multipliers-count", "/patterns/%s" % name, x, y)
            else:
                for i, (a, b) in enumerate(zip(x, y)):
                    self.num("patterns", "Pattern", "multipliers", "/patterns/%s/multipliers[%d]" % (name, i), a, b)
        if len(c0["sources"]) != len(c2["sources"]):
            self.fail("sources-source-count", "/sources", c0["sources"], c2["sources"])
        else:
            for i, (x, y) in enumerate(zip(c0["sources"], c2["sources"])):
                for k in ("node_name", "source_type", "pattern"):
                    x[k] == y[k] or self.fail("sources-%s-changed" % k, "/sources[%d]/%s" % (i, k), x[k], y[k])
                alt = "MASS" if x["source_type"].upper() == "MASS" else "else:MASS"
                ok, note = self.p.same("Source", "strength", x["strength"], y["strength"], self.u, self.wn, alt)
                if not ok:
                    self.fail("sources-strength-mass-read-as-concentration" if alt == "MASS" else "sources-strength-value", "/sources[%d]/strength" % i, x["strength"], y["strength"], note)
        for g in c0["options"]:
            x, y = c0["options"][g], c2["options"][g]
            for k in sorted(set(x) | set(y)):
                p = "/options/%s/%s" % (g, k)
                sec = {"time": "times", "reaction": "reactions", "energy": "energy"}.get(g, "options")
                if k not in x or k not in y:
                    self.fail("%s-%s-%s" % (sec, k, "lost" if k in x else "appeared"), p, x.get(k, "<absent>"), y.get(k, "<absent>"))
                elif g == "hydraulic" and k == "pattern" and default1 and x[k] is None and y[k] == "1":
                    self.fail("options-pattern-default-1", p, x[k], y[k], "a pattern named '1' exists and no default pattern is set")
                elif x[k] is None or y[k] is None or isinstance(x[k], str) or isinstance(y[k], str):
                    x[k] == y[k] or self.fail("%s-%s-changed" % (sec, k), p, x[k], y[k])
                elif g == "hydraulic" and k == "required_pressure" and self.clamp is not None:
                    # EPANET's lower limit (in FILE units): a value below it is written as the limit -- the writer's documented
                    # behaviour (it warns); a value that is legal in file units must come back within the file precision
                    got = self.p.lookup("Options.hydraulic", "required_pressure")
                    row = got[0] if got else None
                    fx = self.p.to_file(row, self.u, self.wn, x[k]) if row else x[k]
                    if fx < self.clamp[2] * (1 - 1e-12):
                        U = self.p.wntr.epanet.util
                        lim = float(U.to_si(U.FlowUnits[self.u], self.clamp[4], U.HydParam.Pressure))
                        self.num(sec, "Options." + g, k, p, lim, y[k], label="required_pressure-below-limit")
                    else:
                        self.num(sec, "Options." + g, k, p, x[k], y[k])
                else:
                    self.num(sec, "Options." + g, k, p, x[k], y[k])
        self.controls(c0, c2)
        return self.out

    def demands(self, name, x, y, default1):
        p = "/nodes/%s/demand_timeseries_list" % name
        if len(x) != len(y):
            self.fail("demands-entries-count", p, x, y)
            return
        for i, (a, b) in enumerate(zip(x, y)):
            self.num("demands" if len(x) > 1 else "junctions", "Junction", "demand_timeseries_list", "%s[%d]/base_val" % (p, i), a["base_val"], b["base_val"],
                     whint="DEMANDS" if len(x) > 1 else "JUNCTIONS", label="base_demand")
            if a["pattern_name"] != b["pattern_name"]:
                if default1 and a["pattern_name"] is None and b["pattern_name"] == "1":
                    self.fail("options-pattern-default-1", "%s[%d]/pattern_name" % (p, i), None, "1", "a pattern named '1' exists and no default pattern is set")
                else:
                    self.fail("demands-pattern_name-changed", "%s[%d]/pattern_name" % (p, i), a["pattern_name"], b["pattern_name"])
            if a["category"] != b["category"]:
                self.fail("demands-category-single-entry-lost" if len(x) == 1 else "demands-category-changed", "%s[%d]/category" % (p, i), a["category"], b["category"])

    # ---- controls and rules
    def value(self, sec, cls, key, path, a, b, label):
        ok, note = self.p.same(cls, key, a, b, self.u, self.wn)
        if not ok:
            self.fail("%s-%s-value" % (sec, label), path, a, b, note)

    def vtype(self, name):
        e = self.m0["links"].get(name, {})
        return {"PRV": "PRV", "PSV": "PRV", "PBV": "PRV", "FCV": "FCV", "TCV": "TCV"}.get(e.get("valve_type"))

    def atom(self, sec, path, a, b, phase):
        if a[:2] != b[:2] or (a[0] == "val" and a[:5] != b[:5]):
            if sec == "controls" and a[0] == "val" and b[0] == "val" and a[1] == "Tank" and a[3] == "head" and b[3] == "level" and a[1:3] == b[1:3]:
                self.fail("controls-condition-tank-head-read-as-level", path, a, b)
            elif sec == "controls" and a[0] == "val" and b[0] == "val" and a[:4] == b[:4]:
                self.fail("controls-condition-relation-changed", path, a, b)
            else:
                self.fail("%s-condition-changed" % sec, path, a, b)
            return
        if a[0] in ("time", "clock"):
            if a[2] != b[2]:
                self.fail("%s-%s-seconds-lost" % (sec, a[0]) if int(a[2]) == a[2] else "%s-%s-fraction" % (sec, a[0]), path, a, b)
            if a[3:] != b[3:]:
                self.fail("%s-%s-repeat-changed" % (sec, a[0]), path, a, b)
            return
        attr, obj = a[3], a[1]
        x, y = a[5], b[5]
        if attr == "status":
            x == y or self.fail("%s-condition-status-changed" % sec, path, a, b)
        elif sec == "controls":
            self.value(sec, "Control", "threshold." + ("Tank" if obj == "Tank" else "Junction"), path, x, y, "threshold")
        elif attr == "setting":
            vt = self.vtype(a[2])
            if vt in ("PRV", "FCV"):
                self.value(sec, "Rule", "%s.setting.%s" % (phase, vt), path, x, y, "setting")
            else:
                self.rule_plain(path, x, y, "setting")
        elif attr in ("demand", "flow", "pressure", "head", "level"):
            self.value(sec, "Rule", "%s.%s" % (phase, attr), path, x, y, attr)
        else:
            x == y or self.fail("%s-condition-value" % sec, path, a, b)

    def rule_plain(self, path, x, y, label):
        # unconverted rule values are printed with the same {:.6g} (translator: RULES rows without conversion)
        need = self.p.req.get(("RULES", "local:action._repr_value()")) or ("sig", 6)
        rel = spec_tolerance(need)[0]
        if x != y and not (isinstance(x, (int, float)) and isinstance(y, (int, float)) and abs(x - y) <= rel * abs(x) * (1 + 1e-9)):
            self.fail("rules-%s-value" % label, path, x, y, "required %s" % (need,))

    def actions(self, sec, path, xs, ys, phase):
        if len(xs) != len(ys):
            self.fail("%s-%s-actions-count" % (sec, phase.lower()), path, xs, ys)
            return
        for i, (a, b) in enumerate(zip(xs, ys)):
            p = "%s[%d]" % (path, i)
            if a[:3] != b[:3]:
                if sec == "controls" and a[:2] == b[:2] and {a[2], b[2]} == {"setting", "base_speed"}:
                    self.fail("controls-action-pump-setting-read-as-base_speed", p, a, b)
                else:
                    self.fail("%s-action-changed" % sec, p, a, b)
                continue
            if a[2] == "status" or isinstance(a[3], str) or isinstance(b[3], str):
                a[3] == b[3] or self.fail("%s-action-value-changed" % sec, p, a, b)
            elif a[2] == "setting" and self.vtype(a[1]) in ("PRV", "FCV"):
                vt = self.vtype(a[1])
                if sec == "controls":
                    self.value(sec, "Control", "setting." + vt, p, a[3], b[3], "setting")
                else:
                    self.value(sec, "Rule", "%s.setting.%s" % (phase, vt), p, a[3], b[3], "setting")
            elif sec == "controls":
                self.value(sec, "Control", "setting.TCV" if a[2] == "setting" else "base_speed", p, a[3], b[3], a[2])
            else:
                self.rule_plain(p, a[3], b[3], a[2])

    def controls(self, c0, c2):
        if len(c0["controls"]) != len(c2["controls"]):
            self.fail("controls-control-count", "/controls", len(c0["controls"]), len(c2["controls"]))
        else:
            for i, (x, y) in enumerate(zip(c0["controls"], c2["controls"])):
                p = "/controls[%d]" % i
                self.atom("controls", p + "/cond", x["cond"], y["cond"], "IF") if x["cond"][0] not in ("and", "or") and y["cond"][0] not in ("and", "or") \
                    else (x["cond"] == y["cond"] or self.fail("controls-condition-changed", p, x["cond"], y["cond"]))
                self.actions("controls", p + "/then", x["then"], y["then"], "THEN")
                x["priority"] == y["priority"] or self.fail("controls-priority-changed", p, x["priority"], y["priority"])
        r0 = {r["name"]: r for r in c0["rules"]}
        r2 = {r["name"]: r for r in c2["rules"]}
        if [r["name"] for r in c0["rules"]] != [r["name"] for r in c2["rules"]]:
            self.fail("rules-rule-names", "/rules", [r["name"] for r in c0["rules"]], [r["name"] for r in c2["rules"]])
        for name in r0:
            if name not in r2:
                continue
            x, y = r0[name], r2[name]
            p = "/rules/%s" % name
            # a rule condition means an AND of OR-groups (no parentheses in [RULES]; EPANET reads `a AND b OR c` as a AND (b OR c)):
            # the same condition = the same groups of the same atoms
            gx, gy = cnf(x["cond"]), cnf(y["cond"])
            if [len(g) for g in gx] != [len(g) for g in gy]:
                fx, fy = flatten_cond(x["cond"]), flatten_cond(y["cond"])
                if {json.dumps(a[:5]) for _, a in fx} == {json.dumps(a[:5]) for _, a in fy}:
                    self.fail("rules-condition-mixed-and-or-regrouped", p + "/cond", x["cond"], y["cond"], "same clauses, other grouping: %s -> %s" % (
                        [len(g) for g in gx], [len(g) for g in gy]))
                else:
                    self.fail("rules-condition-changed", p + "/cond", x["cond"], y["cond"])
            else:
                j = 0
                for ga, gb in zip(gx, gy):
                    for a, b in zip(ga, gb):
                        self.atom("rules", "%s/cond#%d" % (p, j), a, b, "IF")
                        j += 1
            self.actions("rules", p + "/then", x["then"], y["then"], "THEN")
            self.actions("rules", p + "/else", x["else"], y["else"], "ELSE")
            x["priority"] == y["priority"] or self.fail("rules-priority-changed", p, x["priority"], y["priority"])


# ================================================================================================ cases

def base_spec():
    return {
        "patterns": [{"name": "p1", "mult": [1.0, 1.5]}],
        "curves": [],
        "junctions": [{"name": "J1", "elev": 10.0, "coords": [1.0, 2.0], "demands": [[0.01, None, None]]},
                      {"name": "J2", "elev": 12.0, "coords": [3.0, 2.0], "demands": [[0.02, "p1", None]]}],
        "tanks": [{"name": "T1", "elev": 20.0, "init": 3.0, "min": 1.0, "max": 5.0, "diam": 10.0, "minvol": 0.0, "overflow": False, "coords": [5.0, 5.0]}],
        "reservoirs": [{"name": "R1", "head": 50.0, "pat": None, "coords": [0.0, 0.0]}],
        "pipes": [{"name": "P1", "a": "R1", "b": "J1", "len": 100.0, "diam": 0.3, "rough": 100.0, "mloss": 0.0, "status": "OPEN", "cv": False, "vertices": []},
                  {"name": "P2", "a": "J1", "b": "J2", "len": 100.0, "diam": 0.3, "rough": 100.0, "mloss": 0.0, "status": "OPEN", "cv": False, "vertices": []},
                  {"name": "P3", "a": "J2", "b": "T1", "len": 100.0, "diam": 0.3, "rough": 100.0, "mloss": 0.0, "status": "OPEN", "cv": False, "vertices": []}],
        "pumps": [], "valves": [], "sources": [], "controls": [],
        "options": {"hydraulic": {"pattern": None}},
    }


def directed_specs():
    """one small model per defect class named in DESIGN §6 (always run, whatever the seed)"""
    out = []

    def mk(label, f):
        sp = base_spec()
        f(sp)
        out.append((label, sp))

    def ctl(cond, act=("P2", "status", "CLOSED"), name="control 1"):
        return {"name": name, "kind": "control", "cond": cond, "then": [list(act)], "else": [], "priority": 3}

    def rule(cond, name="r1", prio=3):
        return {"name": name, "kind": "rule", "cond": cond, "then": [["P2", "status", "OPEN"]], "else": [], "priority": prio}

    mk("time-control-seconds", lambda sp: sp["controls"].extend([ctl(["time", "=", 3661]), ctl(["clock", "=", 4139], name="control 2")]))
    mk("rule-and-or", lambda sp: sp["controls"].append(rule(["or", ["and", ["val", "node", "T1", "level", ">", 4.0], ["val", "node", "J1", "pressure", "<", 10.0]],
                                                            ["time", ">=", 7200]])))
    mk("rule-clock-noon", lambda sp: sp["controls"].extend([rule(["clock", ">=", 45000], "rc1"), rule(["clock", "<", 1800], "rc2"), rule(["clock", "=", 43200], "rc3"),
                                                            rule(["clock", ">", 0], "rc4"), rule(["time", ">=", 86400 + 3661], "rc5", 5)]))
    mk("single-demand-category", lambda sp: sp["junctions"][0].update(demands=[[0.01, None, "dom"]]))
    mk("tank-head-control", lambda sp: sp["controls"].append(ctl(["val", "node", "T1", "head", ">", 24.0])))
    # every attribute a simple control can name: the threshold must come back as the SAME condition in the section's datum
    # (junction: pressure = head - elevation; tank: level = head - elevation = pressure), in every unit system
    mk("control-attributes", lambda sp: sp["controls"].extend([
        ctl(["val", "node", "J1", "pressure", ">", 35.5], name="control 1"), ctl(["val", "node", "J1", "head", "<", 45.5], name="control 2"),
        ctl(["val", "node", "T1", "level", ">", 4.25], name="control 3"), ctl(["val", "node", "T1", "head", "<", 22.5], name="control 4"),
        ctl(["val", "node", "T1", "pressure", ">", 3.5], name="control 5")]))
    mk("mass-source", lambda sp: (sp["sources"].append({"name": "INP1", "node": "J1", "type": "MASS", "strength": 0.008296, "pat": None}),
                                  sp["options"].update(quality={"parameter": "CHEMICAL", "chemical_name": "Cl", "inpfile_units": "mg/L"})))
    mk("default-pattern-1", lambda sp: sp["patterns"].append({"name": "1", "mult": [0.5, 2.0]}))
    mk("quality-ug", lambda sp: (sp["junctions"][0].update(iq=0.0005), sp["sources"].append({"name": "INP1", "node": "J1", "type": "CONCEN", "strength": 0.001, "pat": None}),
                                 sp["options"].update(quality={"parameter": "CHEMICAL", "chemical_name": "Cl", "inpfile_units": "ug/L"})))
    def shared(sp):
        # one curve of every type with 2-3 users each (every reader section converts "its" curve: a second user must not convert it again)
        sp["curves"] += [{"name": "VC", "type": "VOLUME", "pts": [[0.0, 0.0], [3.0, 80.0], [8.0, 300.0]]},
                         {"name": "HC", "type": "HEAD", "pts": [[0.0, 40.0], [0.05, 30.0], [0.1, 10.0]]},
                         {"name": "EC", "type": "EFFICIENCY", "pts": [[0.0, 50.0], [0.05, 75.0], [0.1, 60.0]]},
                         {"name": "GC", "type": "HEADLOSS", "pts": [[0.0, 0.0], [0.05, 3.0], [0.1, 9.0]]}]
        for k in (2, 3):
            sp["tanks"].append({"name": "T%d" % k, "elev": 20.0 + k, "init": 3.0, "min": 1.0, "max": 5.0, "diam": 10.0, "minvol": 0.0, "overflow": False,
                                "coords": [5.0 + k, 5.0], "volcurve": "VC"})
            sp["pipes"].append({"name": "PT%d" % k, "a": "J2", "b": "T%d" % k, "len": 100.0, "diam": 0.3, "rough": 100.0, "mloss": 0.0, "status": "OPEN", "cv": False, "vertices": []})
        for k in (1, 2, 3):
            sp["pumps"].append({"name": "PU%d" % k, "a": "R1", "b": "J1", "type": "HEAD" if k < 3 else "POWER", "param": "HC" if k < 3 else 20000.0, "speed": 1.0,
                                "pat": None, "status": "OPEN", "vertices": [], "eff": "EC"})
        for k in (1, 2):
            sp["valves"].append({"name": "G%d" % k, "a": "J1", "b": "J2", "diam": 0.2, "type": "GPV", "mloss": 0.0, "setting": "GC", "status": "ACTIVE", "vertices": []})
    mk("shared-curves", shared)
    # PDA with a required pressure on both sides of EPANET's lower limit 0.1 (psi in the US systems = 0.07034 m, m in the metric ones)
    for rp in (0.0705, 0.08, 0.0965, 0.1005, 0.15):
        mk("required-pressure-%g" % rp, lambda sp, rp=rp: sp["options"]["hydraulic"].update(demand_model="PDA", required_pressure=rp, minimum_pressure=0.0, pressure_exponent=0.5))
    # every clock-time field at the AM/PM boundaries of the day (START CLOCKTIME, a CLOCKTIME control, a SYSTEM CLOCKTIME premise)
    for t in (0, 11 * 3600 + 3599, 43200, 45000, 12 * 3600 + 3599, 46800, 86399):
        mk("clock-%d" % t, lambda sp, t=t: (sp["options"].update(time={"start_clocktime": t}),
                                            sp["controls"].extend([ctl(["clock", "=", t]), rule(["clock", ">=", t], "rc")])))
    return out


def permute_inp(text, rng, shuffle_section=None):
    """a format-preserving rewrite of an INP file WNTR wrote: whole sections in another order, header spelling (case,
    plural S), blank and comment lines, tabs for blanks; `shuffle_section`: additionally the data lines of that ONE section
    in another order (only asked for sections not in ORDER_SENSITIVE)"""
    lines = text.splitlines()
    pre, blocks, cur = [], [], None
    for ln in lines:
        if ln.strip().startswith("["):
            cur = [ln.strip().split()[0], []]
            blocks.append(cur)
        elif cur is None:
            pre.append(ln)
        else:
            cur[1].append(ln)
    end = [b for b in blocks if b[0].upper() == "[END]"]
    blocks = [b for b in blocks if b[0].upper() != "[END]"]
    rng.shuffle(blocks)
    out = list(pre)
    verbatim = ("[TITLE]", "[LABELS]", "[BACKDROP]")
    for name, body in blocks:
        up = name.upper()
        style = rng.randrange(4)
        hdr = name.lower() if style == 0 else name.capitalize() if style == 1 else name
        if style == 3 and up.endswith("S]") and up not in ("[STATUS]",):
            hdr = name[:-2] + "]"  # the reader accepts a missing plural S
        out.append(("  " if rng.random() < 0.3 else "") + hdr + ("   ;section" if rng.random() < 0.3 else ""))
        data = [l for l in body]
        if shuffle_section == up:
            idx = [i for i, l in enumerate(data) if l.split(";")[0].split()]
            vals = [data[i] for i in idx]
            rng.shuffle(vals)
            for i, v in zip(idx, vals):
                data[i] = v
        for l in data:
            if rng.random() < 0.15:
                out.append(rng.choice(["", "   ", "\t", "; a comment line", "  ;another"]))
            if up not in verbatim and l.strip() and rng.random() < 0.5:
                head, sep, tail = l.partition(";")
                head = re.sub(r"^ +", lambda m: "\t", head)
                head = re.sub(r"  +", lambda m: rng.choice(["\t", " \t ", m.group(0)]), head)
                l = head + sep + tail
            out.append(l)
    for name, body in end:
        out.append(name)
        out += ["this text after [END] is never read", "[NOSUCHSECTION]"] if rng.random() < 0.5 else []
    return "\n".join(out) + "\n"


def normalise_text(txt):
    """an INP file modulo the header comment lines (file name, WNTR version, creation time)"""
    return "\n".join(l.rstrip() for l in txt.splitlines() if not l.startswith("; "))


class C12(Check):
    pid = "C12"
    level = "proof"
    prop_modules = ["WntrModel.Props.C12"]
    manifest = dict(
        category="proof",
        text="Lean theorems over tables regenerated from wntr/epanet/io.py on every run: every attribute slot of every INP section is "
        "written and read back, with conversion calls of opposite direction and equal conversion class for each of the ten flow units, "
        "every mass unit / reaction order / Darcy flag and EVERY value (inp_field_roundtrip, lifting C17's inverse theorem); every "
        "definition attribute to_dict emits that the statement does not exclude is carried by such a slot (inp_attribute_coverage); the "
        "option keywords written are read, 2.0 omitting exactly the 2.2-specific ones (option_keywords_roundtrip); the text form of "
        "simple controls and rules re-parses to the same control (control_line_roundtrip, rule_text_roundtrip) with the counterexamples "
        "for mixed AND/OR and for tank-head conditions; number formats {:.kf} / {:.ng} modelled on Rat with proved error bounds and a per-slot precision requirement decided on the extracted format specs; the comparison normalisation is proved idempotent. The real write_inpfile/read_inpfile is run on generated API-built models x flow "
        "unit x version and compared field by field at the precision of the writer's own format specs; a second cycle must change nothing.",
        design_ref="DESIGN.md §5 C12",
        note="partial: number formats, the line handling of InpFile.read (blank / comment lines, headers, [END], section order, reader "
        "order from ast) and the [TIMES] grammar are hand-transliterated models tied by the driver on every run (format strings, whole "
        "permuted files, [TIMES] lines), ASCII white space / case only; which sections are line-order-sensitive is a hand-written list "
        "tested by the permutation oracle; the hand-written specification table "
        "(which writer slot carries which attribute) is trusted; control/rule text printing and parsing is hand-modelled and tied by the "
        "driver correspondence; element constructors (add_*) are exercised, not modelled",
        technique="Lean 4 proof over translator-regenerated schema tables + differential run against the Lean driver + round-trip oracle on the implementation",
    )
    rule = ("obligations: theorems of Props/C12.lean over Gen/SchemaInp.lean, Gen/SchemaDict.lean, Gen/Units.lean. correspondence cases: "
            "(model, flow unit, INP version) write/read/compare + second cycle; distinct = distinct feature signature x unit x version; "
            "non-trivial = the model has controls or rules, several demands, sources or curves")
    trusted_base = ["translator harness/props/c12.py (ast of wntr/epanet/io.py: value flow into format calls and into add_*/attribute destinations)",
                    "the hand-written REMAINDER of the specification (evidence key spec_hand_written_remainder: the attributes whose slot is named differently from the "
                    "to_dict key, and the value slots inside controls / rules) and the exclusion list OUTSIDE; every other field is derived from the source by name",
                    "Python float formatting / parsing (bounded per field by the format spec, checked on every case)"]
    assumptions = ["the section readers see a file only through the lines stored per section, in the fixed order InpFile.read calls them (read off the source by ast)",
                   "a value printed with {:W.Ng} is reproduced to 0.5*10^(1-N) relative, with {:.Nf} to 0.5*10^-N absolute (in file units), str() exactly",
                   "model names contain no white space or ';' (the INP tokeniser is not modelled)",
                   "a pump speed setting of 1.0 and an unset one are the same (the format's default); a closed pump has no place for a setting"]

    # ---------------------------------------------------------------- translate
    def translate(self, ctx):
        wntr = vlib.import_wntr()
        rows, fns, consts = read_io_tables(wntr)
        kw = read_keywords(fns)
        self.rows = rows
        txt, n = gen_schema_inp_lean(wntr, rows, kw)
        ctx.cov["schema_rows"] = n
        ctx.cov["schema_fields"] = len(FIELDS)
        ctx.cov["spec_fields_derived_from_source"] = len(DERIVED)
        mk = []
        for f in FIELDS:
            if f not in DERIVED and "%s.%s" % (f[0], f[1]) not in mk:
                mk.append("%s.%s" % (f[0], f[1]))
        ctx.cov["spec_hand_written_remainder"] = mk
        vlib.write_if_changed(os.path.join(vlib.GEN, "SchemaInp.lean"), txt)
        # C12 reuses the to_dict key sets of C13's translator
        import c13
        em, dfl = c13.reflect_emitted(wntr)
        vlib.write_if_changed(os.path.join(vlib.GEN, "SchemaDict.lean"), c13.gen_schema_lean(em, dfl, c13.read_from_dict_rows()))

    # ---------------------------------------------------------------- one case
    def roundtrip(self, wntr, prec, label, sp, wn, units, version, workdir, ctx=None):
        """-> list of Failure for (model, unit, version)"""
        fails = []
        rp = {"case": label, "units": units, "version": version, "spec": sp}
        f1 = os.path.join(workdir, "a.inp")
        f2 = os.path.join(workdir, "b.inp")

        def F(key, what, **kw):
            d = dict(rp)
            d.update(kw)
            fails.append(Failure(key, what, d))

        try:
            m0 = canon(wntr, wn)
            c0 = normalise(m0, version, "orig")
            try:
                wntr.network.write_inpfile(wn, f1, units=units, version=version)
            except Exception as e:
                F("write-raises-%s" % type(e).__name__, "write_inpfile raises %s: %s" % (type(e).__name__, str(e)[:150]), observed=repr(e))
                return fails
            try:
                w2 = wntr.network.read_inpfile(f1)
            except Exception as e:
                F("read-raises-%s-%s" % (type(e).__name__, _exc_class(e)), "read_inpfile of the file WNTR wrote raises %s: %s" % (type(e).__name__, str(e)[:150]), observed=repr(e))
                return fails
            m2 = canon(wntr, w2)
            c2 = normalise(m2, version, "reread")
            for nm, cc in (("original", c0), ("re-read", c2)):
                if normalise(cc, version, "again") != cc:
                    raise BrokenTie("the normalisation is not idempotent on the %s model of case %s (theorem second_cycle_idempotent models it)" % (nm, label))
            seen = set()
            for (key, path, old, new, note) in Comparer(prec, wn, units, version, m0).run(c0, c2):
                if ctx:
                    ctx.count("diff:" + key)
                if key in seen:
                    continue
                seen.add(key)
                F(key, "re-read model differs at %s: %r -> %r (units %s, version %s) %s" % (path, old, new, units, version, note),
                  where=path, expected=old, observed=new)
            # ---- format-preserving permutations of the file must read back to the same model (exact)
            import random as _random
            import zlib as _zlib
            prng = _random.Random(_zlib.crc32(repr((label, units, version)).encode()))
            t1raw = open(f1).read()
            d2 = G.jsonify(wntr.network.to_dict(w2))
            secs_present = [b for b in re.findall(r"^\[[A-Z]+\]", t1raw, re.M)]
            cand = []
            for sname in secs_present:
                if sname not in (ORDER_SENSITIVE_DERIVED or ORDER_SENSITIVE) and sname != "[END]":
                    body = t1raw.split(sname, 1)[1].split("\n[", 1)[0]
                    if sum(1 for l in body.splitlines()[1:] if l.split(";")[0].split()) >= 2:
                        cand.append(sname)
            for kind, sh in (("format", None), ("lines", prng.choice(cand) if cand else None)):
                if kind == "lines" and sh is None:
                    continue
                ptxt = permute_inp(t1raw, prng, sh)
                with open(f1, "w") as fh:
                    fh.write(ptxt)
                try:
                    wp = wntr.network.read_inpfile(f1)
                except Exception as e:
                    F("permute-%s-read-raises-%s" % (kind if sh is None else "lines-" + sh.strip("[]").lower(), type(e).__name__),
                      "a format-preserving rewrite of the file WNTR wrote cannot be read: %s: %s" % (type(e).__name__, str(e)[:150]), permuted=ptxt[:4000], observed=repr(e))
                    continue
                if ctx:
                    ctx.count("permute:" + (kind if sh is None else "lines:" + sh))
                if kind == "format":
                    df = G.diff(d2, G.jsonify(wntr.network.to_dict(wp)))
                    self.file_requests.append((ptxt, {k: [l for (_, l) in v] for k, v in wp._inpfile.sections.items()}, "%s %s %s" % (label, units, version)))
                else:
                    df = G.diff({k: v for k, v in m2.items() if k != "order"}, {k: v for k, v in canon(wntr, wp).items() if k != "order"})
                if df:
                    top = df[0][0].strip("/").split("/")[0].split("[")[0]
                    F("permute-%s-%s" % ("format" if sh is None else "lines-" + sh.strip("[]").lower(), top),
                      "a format-preserving rewrite of the file (%s) reads back differently at %s: %r -> %r" % (
                          "sections permuted, header spelling, blank/comment lines, tabs" if sh is None else "lines of %s permuted" % sh, df[0][0], df[0][1], df[0][2]),
                      where=df[0][0], expected=df[0][1], observed=df[0][2], permuted=ptxt[:6000])
            with open(f1, "w") as fh:
                fh.write(t1raw)
            # ---- second cycle: nothing further changes
            try:
                wntr.network.write_inpfile(w2, f2, units=units, version=version)
                w3 = wntr.network.read_inpfile(f2)
            except Exception as e:
                F("second-cycle-raises-%s" % type(e).__name__, "second write/read cycle raises %s: %s" % (type(e).__name__, str(e)[:150]), observed=repr(e))
                return fails
            t1, t2 = normalise_text(open(f1).read()), normalise_text(open(f2).read())
            if ctx:
                ctx.count("second-cycle:" + ("text-identical" if t1 == t2 else "text-differs"))
            m3 = canon(wntr, w3)
            seen = set()
            # "nothing further": the second re-read equals the first at the precision of the file (a converted value printed
            # with str() may move by one unit in the last place per cycle; a drift larger than the field's bound is a failure)
            for (key, path, old, new, note) in Comparer(prec, w2, units, version, m2).run(c2, normalise(m3, version, "second")):
                key = "second-cycle-" + key
                if key in seen:
                    continue
                seen.add(key)
                F(key, "a second write/read cycle changes the model again at %s: %r -> %r (units %s, version %s) %s" % (path, old, new, units, version, note),
                  where=path, expected=old, observed=new)
        finally:
            for f in (f1, f2):
                if os.path.exists(f):
                    os.remove(f)
        return fails

    def _cases(self, ctx):
        for fn, item in vlib.corpus_items("C12"):
            yield ("corpus:" + fn, item["spec"], item.get("units"), item.get("version"))
        for label, sp in directed_specs():
            yield ("directed:" + label, sp, None, None)
        n = 40 if ctx.quick else 150
        for i in range(n):
            yield ("gen%d" % i, G.gen_spec(ctx.rng, size=1 if i % 3 else 2, inp_only=True, share_curves=True, control_attrs=True, clock_boundaries=True, option_thresholds=True), None, None)

    def correspondence(self, ctx):
        wntr = vlib.import_wntr()
        logging.getLogger("wntr").setLevel(logging.CRITICAL)
        failures, broken = [], []
        if not hasattr(self, "rows"):
            raise BrokenTie("translator produced no tables")
        prec = Precision(wntr, self.rows)
        self.file_requests = []
        workdir = os.path.join(WORK, "run-%d" % os.getpid())
        os.makedirs(workdir, exist_ok=True)
        nunits = 3 if ctx.quick else 10
        text_lines = []
        try:
            with warnings.catch_warnings():
                warnings.simplefilter("ignore")
                for ci, (label, sp, u0, v0) in enumerate(self._cases(ctx)):
                    try:
                        wn = G.realise(wntr, sp)
                    except Exception as e:
                        raise vlib.Infra("generator produced a model the API refuses (%s): %s: %s" % (label, type(e).__name__, e))
                    feats = G.features(sp)
                    for f in feats:
                        ctx.count("feat:" + (f.split("=")[0] if f.startswith("rule:priority") else f))
                    nontriv = bool(sp["controls"]) or bool(sp["sources"]) or bool(sp["curves"]) or any(len(j["demands"] or []) > 1 for j in sp["junctions"])
                    if u0:
                        units = [u0]
                    elif label == "directed:control-attributes" or label.startswith("directed:required-pressure"):
                        units = list(UNITS)
                    elif label.startswith("directed"):
                        units = [UNITS[(ctx.seed + ci) % 10], UNITS[(ctx.seed + ci + 5) % 10]]
                    else:
                        units = [UNITS[(ctx.seed * 3 + ci + k * (10 // nunits if nunits < 10 else 1)) % 10] for k in range(nunits)]
                        units = list(dict.fromkeys(units))
                    for u in units:
                        for ver in ([v0] if v0 else [2.2, 2.0]):
                            ctx.case((tuple(sorted(feats)), u, ver), nontriv)
                            ctx.count("units:" + u)
                            ctx.count("version:%s" % ver)
                            fs = self.roundtrip(wntr, prec, label, sp, wn, u, ver, workdir, ctx)
                            ctx.count("outcome:" + ("equal" if not fs else "differs"))
                            failures += fs
                    if len(ctx.samples) < 4 and label.startswith("gen"):
                        ctx.sample({"case": label, "features": sorted(feats)[:25], "units": units})
                    text_lines += self._text_requests(wntr, label, sp, wn)
        finally:
            try:
                for f in os.listdir(workdir):
                    os.remove(os.path.join(workdir, f))
                os.rmdir(workdir)
            except OSError:
                pass
        text_lines += self._times_requests(wntr, ctx)
        broken += self._text_correspondence(ctx, wntr, text_lines)
        broken += self._file_correspondence(ctx)
        return failures, broken

    def _times_requests(self, wntr, ctx):
        """[TIMES] lines (every keyword the writer writes, in several spellings and value forms, with and without a units
        word) through the real `_read_times`, and START CLOCKTIME strings through `_clock_time_to_sec`"""
        from fractions import Fraction
        io_ = wntr.epanet.io
        out = []
        kws = [["DURATION"], ["HYDRAULIC", "TIMESTEP"], ["QUALITY", "TIMESTEP"], ["PATTERN", "TIMESTEP"], ["PATTERN", "START"], ["REPORT", "TIMESTEP"],
               ["REPORT", "START"], ["RULE", "TIMESTEP"]]
        rng = ctx.rng
        for kw in kws:
            for rep in range(3):
                sec = rng.choice([0, 59, 60, 3599, 3600, 3661, 86399, 86400, 90061, rng.randrange(0, 400000)])
                if "TIMESTEP" in kw:
                    sec = max(sec, 3600)  # TimeOptions itself refuses / clamps non-positive timesteps (not the reader's doing)
                h, m, x = sec // 3600, (sec % 3600) // 60, sec % 60
                forms = [("%02d:%02d:%02d" % (h, m, x), "h:%d:%d:%d" % (h, m, x)), ("%d:%02d" % (h, m), "m:%d:%d" % (h, m)), (str(h), "d:%d" % h)]
                dec = rng.choice([0.25, 1.5, 0.1, 2.75, 13.3])
                fr = Fraction(dec)
                forms.append((repr(dec), "d:%d/%d" % (fr.numerator, fr.denominator)))
                txt, enc = forms[rep % len(forms)] if rep < 2 else rng.choice(forms)
                words = [w if rng.random() < 0.5 else w.capitalize() for w in kw]
                line = " ".join(words) + "   " + txt + rng.choice(["", " HOURS", " MIN", ""])
                inp = io_.InpFile()
                inp.wn = wntr.network.WaterNetworkModel()
                before = dict(inp.wn.options.to_dict()["time"])
                inp.sections["[TIMES]"] = [(1, line)]
                try:
                    inp._read_times()
                    after = dict(inp.wn.options.to_dict()["time"])
                    ch = [(k, after[k]) for k in after if after[k] != before.get(k)]
                    extra = [k for k in vars(inp.wn.options.time) if k not in before and not k.startswith("_")]
                    if len(ch) == 1:
                        exp = "%s %d" % (ch[0][0], int(ch[0][1]))
                    elif not ch:
                        exp = None  # the value equals the default: nothing to see
                    else:
                        exp = "changed %s" % ch
                except Exception as e:
                    exp = "raises %s" % type(e).__name__
                if exp is not None:
                    out.append(("M %s %s %s" % (words[0], words[1] if len(words) > 1 else "-", enc), exp, "_read_times on %r" % line))
        for rep in range(10):
            sec = rng.choice([0, 1800, 43199, 43200, 45000, 86399, rng.randrange(0, 86400)])
            h, m, x = sec // 3600, (sec % 3600) // 60, sec % 60
            hh, ap = (h, "AM") if h < 12 else (h - 12, "PM")
            txt = "%02d:%02d:%02d" % (hh, m, x)
            try:
                exp = str(int(io_._clock_time_to_sec(txt, ap)))
            except Exception:
                exp = "none"
            out.append(("U %d %d %d %s" % (hh, m, x, ap), exp, "_clock_time_to_sec(%r, %r) as _write_times writes %d s" % (txt, ap, sec)))
        for (hh, m, x, ap) in ((12, 0, 0, "PM"), (12, 30, 0, "AM"), (13, 0, 0, "PM"), (11, 59, 59, "PM")):
            txt = "%02d:%02d:%02d" % (hh, m, x)
            try:
                exp = str(int(io_._clock_time_to_sec(txt, ap)))
            except Exception:
                exp = "none"
            out.append(("U %d %d %d %s" % (hh, m, x, ap), exp, "_clock_time_to_sec(%r, %r)" % (txt, ap)))
        return [(a, b, "times: " + c) for a, b, c in out]

    def _file_correspondence(self, ctx):
        """the model's first loop of `InpFile.read` (blank lines, headers, [END], stored lines) on whole permuted files against
        the sections the real reader stored"""
        broken = []
        reqs = self.file_requests[:: max(1, len(self.file_requests) // (25 if ctx.quick else 120))]
        malformed = [("junk before the first header\n[JUNCTIONS]\n J1 0 0\n", None), ("[JUNCTIONS]\n J1 0 0\n[NOSUCH]\n x\n", None),
                     ("; only comments\n\n[END]\n[JUNCTIONS]\n J1 0 0\n", {})]
        lines = ["S\x1f" + "\x1f".join(t.splitlines()) for t, _, _ in reqs] + ["S\x1f" + "\x1f".join(t.splitlines()) for t, _ in malformed]
        if not lines:
            return broken
        out = vlib.lean_run("Drivers/InpDriver.lean", "\n".join(lines) + "\n")
        if len(out) != len(lines):
            raise vlib.Infra("InpDriver returned %d lines for %d files" % (len(out), len(lines)))
        exps = [(secs, what) for _, secs, what in reqs] + [(e, "malformed %d" % i) for i, (_, e) in enumerate(malformed)]
        nmis = 0
        for (secs, what), got in zip(exps, out):
            parts = got.split("\x02")
            status, model = parts[0], {}
            for p in parts[1:]:
                k, _, v = p.partition("\x1f")
                if k != "#top":
                    model.setdefault(k, []).append(v)
            if secs is None:
                ok = status == "err"
            else:
                ok = status in ("ok", "end") and {k: v for k, v in secs.items() if v} == model
            ctx.count("file-model-vs-impl:" + ("agree" if ok else "disagree"))
            if not ok and nmis < 4:
                nmis += 1
                bad = [k for k in set(model) | set(secs or {}) if (secs or {}).get(k, []) != model.get(k, [])][:3]
                broken.append(Broken("correspondence", "InpDriver S", "model of InpFile.read stores other lines than the implementation for %s: status %s, sections %s" % (what, status, bad)))
        return broken

    # ---------------------------------------------------------------- control / rule text: model vs implementation
    def _text_requests(self, wntr, label, sp, wn):
        """[(request line, what the implementation does, description)] for the Lean driver"""
        C = wntr.network.controls
        io_ = wntr.epanet.io
        out = []
        times = set()

        def walk(c):
            if c[0] in ("and", "or"):
                walk(c[1]); walk(c[2])
            elif c[0] in ("time", "clock") and float(c[2]) == int(c[2]) and c[2] >= 0:
                times.add((c[0], int(c[2])))
        for c in sp["controls"]:
            walk(c["cond"])
        for kind, t in sorted(times):
            hms = [int(x) for x in C.ControlCondition._sec_to_hours_min_sec(t).split(":")]
            exp = "%d:%d:%d" % tuple(hms)
            if kind == "clock" and t < 86400:
                ck = C.ControlCondition._sec_to_clock(t)
                hh, ap = ck.split()
                ch = [int(x) for x in hh.split(":")]
                out.append(("T %d" % t, "%s %d:%d:%d %s" % (exp, ch[0], ch[1], ch[2], ap), "_sec_to_hours_min_sec / _sec_to_clock(%d)" % t))
                out.append(("Q %d %d %d %s" % (ch[0], ch[1], ch[2], ap), str(int(C.ControlCondition._parse_value(ck))), "_parse_value(%r)" % ck))
            else:
                out.append(("T %d" % t, exp + " *", "_sec_to_hours_min_sec(%d)" % t))
            txt = "%d:%02d:%02d" % tuple(hms)
            out.append(("P %d %d %d" % tuple(hms), str(int(io_._str_time_to_sec(txt))), "_str_time_to_sec(%r)" % txt))
        # rules: the lines WNTR writes, sorted by the model's parser, against the rule WNTR re-creates from them
        rules = [(n, c) for n, c in wn.controls() if c.epanet_control_type is C._ControlType.rule]
        if rules:
            lines = []
            for n, c in rules:
                r = io_._EpanetRule("x", wntr.epanet.util.FlowUnits.LPS, wntr.epanet.util.MassUnits.mg)
                r.from_if_then_else(c)
                text = str(r)
                lines += text.splitlines()
            parsed = io_._EpanetRule.parse_rules_lines(lines, wntr.epanet.util.FlowUnits.LPS, wntr.epanet.util.MassUnits.mg)
            k = 0
            blocks = []
            for ln in lines:
                w = ln.split(";")[0].split()
                if not w:
                    continue
                if w[0].upper() == "RULE":
                    blocks.append([])
                else:
                    blocks[-1].append("priority:%d" % int(float(w[1])) if w[0].upper() == "PRIORITY" else w[0].lower())
            if len(parsed) == len(blocks) == len(rules):
                for (n, c), er, kws in zip(rules, parsed, blocks):
                    ctl = er.generate_control(wn)
                    tree = cond_tree(C, ctl._condition)
                    cnt = [0]

                    def show(t):
                        if t[0] in ("and", "or"):
                            l = show(t[1])
                            return "(%s %s %s)" % (t[0], l, show(t[2]))
                        cnt[0] += 1
                        return str(cnt[0] - 1)
                    out.append(("C " + " ".join(w for w in kws if w in ("if", "and", "or"))[: 10 ** 6].split(" then")[0], None, None))
                    conj = []
                    for w in kws:
                        if w in ("then", "else") or w.startswith("priority"):
                            break
                        conj.append(w)
                    out[-1] = ("C " + " ".join(conj), show(tree), "generate_control condition tree of rule %s" % n)
                    out.append(("R " + " ".join(kws), "%d %d %d %d" % (len(flatten_cond(tree)), len(ctl._then_actions), len(ctl._else_actions), int(ctl._priority)),
                                "parse_rules_lines blocks of rule %s" % n))
            else:
                out.append(("X", "rules=%d parsed=%d" % (len(rules), len(parsed)), "parse_rules_lines finds another number of rules"))
        out += self._clause_requests(wntr, wn, rules)
        out += self._writer_requests(wntr, rules)
        out += self._format_requests(sp)
        return [(a, b, "%s: %s" % (label, c)) for a, b, c in out]

    def _writer_requests(self, wntr, rules):
        """the premises the INP writer produces for the ORIGINAL condition tree (AND of OR-groups since e0050eda) and the
        in-order text of `str(condition)` (dictionary path), against the model's `flattenCnf` / `flatten`"""
        C = wntr.network.controls
        io_ = wntr.epanet.io
        U = wntr.epanet.util
        out = []
        for n, c in rules:
            atoms = []

            def pre(t):
                if isinstance(t, C.AndCondition):
                    return ["&"] + pre(t._condition_1) + pre(t._condition_2)
                if isinstance(t, C.OrCondition):
                    return ["|"] + pre(t._condition_1) + pre(t._condition_2)
                atoms.append(t)
                return ["a"]
            words = pre(c._condition)

            def text(a):
                r0 = io_._EpanetRule("x", U.FlowUnits.LPS, U.MassUnits.mg)
                r0.add_control_condition(a)
                return " ".join(r0._if_clauses[0].split()[1:])
            texts = [text(a) for a in atoms]
            tid = [texts.index(t) for t in texts]
            r = io_._EpanetRule("x", U.FlowUnits.LPS, U.MassUnits.mg)
            r.add_control_condition(c._condition)
            written = []
            for cl in r._if_clauses:
                w = cl.split()
                written.append("%s:%d" % (w[0].lower(), texts.index(" ".join(w[1:]))))
            inorder = ["if"] + [w.lower() for w in str(c._condition).split() if w in ("AND", "OR")]
            out.append(("D " + " ".join(words), (" ".join(written), " ".join(inorder), tid), "premises written for rule %s" % n))
        return out

    def _clause_requests(self, wntr, wn, rules):
        """every premise WNTR writes, tokenised, read by the model's `parseAtom` against `generate_control`; every simple
        control's action word read by the model's `parseAct` against `_read_control_line`"""
        import io as _io
        C = wntr.network.controls
        io_ = wntr.epanet.io
        U = wntr.epanet.util
        out = []

        def tok(w):
            if re.match(r"^\d+:\d+:\d+$", w):
                return "h:" + ":".join(str(int(x)) for x in w.split(":"))
            try:
                float(w)
                return "n:0"
            except ValueError:
                return "w:" + w.lower()

        def atom_str(a):
            if a[0] in ("time", "clock"):
                return "%s %s %d" % (a[0], {">": "gt", ">=": "ge", "<": "lt", "<=": "le", "=": "eq", "<>": "ne"}[a[1]], int(a[2]))
            node = a[1] in ("Junction", "Tank", "Reservoir")
            v = int(a[5]) if a[3] == "status" else 0
            return "value %s %s %s %s %s %d" % ("node" if node else "link", a[1].lower(), a[2], a[3].lower(),
                                                {">": "gt", ">=": "ge", "<": "lt", "<=": "le", "=": "eq", "<>": "ne"}[a[4]], v)
        for n, c in rules:
            r = io_._EpanetRule("x", U.FlowUnits.LPS, U.MassUnits.mg)
            r.from_if_then_else(c)
            try:
                ctl = r.generate_control(wn)
            except Exception:
                continue
            atoms = [a for _, a in flatten_cond(cond_tree(C, ctl._condition))]
            if len(atoms) != len(r._if_clauses):
                continue
            for cl, a in zip(r._if_clauses, atoms):
                w = cl.split()[1:]
                if len(w) >= 5 and w[0].upper() == "SYSTEM" and w[-1].upper() in ("AM", "PM"):
                    h, m, sec = [int(x) for x in w[3].split(":")]
                    toks = ["w:system", "w:" + w[1].lower(), "w:" + w[2].lower(), "c:%d:%d:%d:%s" % (h, m, sec, w[-1].upper())]
                else:
                    toks = [tok(x) if i not in (1,) or w[0].upper() == "SYSTEM" else "w:" + x for i, x in enumerate(w)]
                out.append(("K " + " ".join(toks), atom_str(a), "generate_control on clause %r" % cl.strip()))
        inp = io_.InpFile()
        inp.flow_units, inp.mass_units = U.FlowUnits.LPS, U.MassUnits.mg
        buf = _io.BytesIO()
        inp._write_controls(buf, wn)
        for ln in buf.getvalue().decode().splitlines()[1:]:
            w = ln.split()
            if len(w) < 6:
                continue
            try:
                ctl = io_._read_control_line(ln, wn, U.FlowUnits.LPS, "x")
                act = ctl._then_actions[0]
                exp = {"status": "status %d" % int(act._value) if act._attribute == "status" else "", "base_speed": "speed 0", "setting": "setting 0"}[act._attribute]
            except Exception:
                exp = "none"
            out.append(("A %s %s" % (w[0].lower(), tok(w[2])), exp, "_read_control_line action of %r" % ln.strip()))
        return out

    def _format_requests(self, sp):
        """number formats: the model's '{:.kf}' / '{:.ng}' on the exact rational of a double against Python's own formatting"""
        from fractions import Fraction
        vals = []

        def walk(o):
            if isinstance(o, float) and o == o and abs(o) < 1e12 and len(vals) < 200:
                vals.append(o)
            elif isinstance(o, dict):
                for v in o.values():
                    walk(v)
            elif isinstance(o, list):
                for v in o:
                    walk(v)
        walk(sp)
        import zlib as _zlib
        vals = sorted(set(vals), key=lambda v: (_zlib.crc32(repr(v).encode()) % 1000, v))[:6]
        vals += [-v / 86400.0 for v in vals[:2]] + [v * 448.831 for v in vals[:2]]
        out = []
        ks = sorted({sp_[1] for r in self.rows for sp_ in [fmt_spec(r["fmt"])] if r["dir"] == "w" and sp_[0] == "fixed"})
        ns = sorted({sp_[1] for r in self.rows for sp_ in [fmt_spec(r["fmt"])] if r["dir"] == "w" and sp_[0] == "sig"})
        for v in vals:
            fr = Fraction(v)
            x = "%d/%d" % (fr.numerator, fr.denominator)
            for k in ks:
                txt = format(v, ".%df" % k)
                fb = Fraction(txt)
                out.append(("F %d %s" % (k, x), "%s %d/%d" % (txt, fb.numerator, fb.denominator), "'{:.%df}'.format(%r)" % (k, v)))
            for n in ns:
                fb = Fraction(format(v, ".%dg" % n))
                out.append(("G %d %s" % (n, x), "%d/%d" % (fb.numerator, fb.denominator), "'{:.%dg}'.format(%r)" % (n, v)))
        return out

    def _text_correspondence(self, ctx, wntr, reqs):
        broken = []
        if not reqs:
            return broken
        uniq = []
        seen = set()
        for r in reqs:
            k = (r[0], repr(r[1]), r[2])
            if k not in seen:
                seen.add(k)
                uniq.append(r)
        out = vlib.lean_run("Drivers/InpDriver.lean", "\n".join(r[0] for r in uniq) + "\n")
        if len(out) != len(uniq):
            raise vlib.Infra("InpDriver returned %d lines for %d requests" % (len(out), len(uniq)))
        nmis = 0
        for (req, exp, desc), got in zip(uniq, out):
            kind = req[:1]
            if kind == "D":
                # the model numbers the atoms in tree order; atoms with the same text are the same premise in the file
                written, inorder, tid = exp
                parts = got.split(" ; ")
                m = " ".join("%s:%d" % (x.split(":")[0], tid[int(x.split(":")[1])]) for x in parts[0].split()) if len(parts) == 2 else got
                ok = len(parts) == 2 and m == written and " ".join(x.split(":")[0] for x in parts[1].split()) == inorder
                exp = "%s ; %s" % (written, inorder)
            else:
                ok = got == exp or (exp.endswith(" *") and got.startswith(exp[:-1]))
            ctx.count("text-model-vs-impl:%s:%s" % (kind, "agree" if ok else "disagree"))
            if not ok and nmis < 6:
                nmis += 1
                broken.append(Broken("correspondence", "InpDriver " + kind, "model answers %r to %r, implementation gives %r (%s)" % (got, req, exp, desc)))
        return broken

    def search(self, ctx, broken):
        """a broken table proof / translator: run the directed models and a wider stream in all ten units"""
        wntr = vlib.import_wntr()
        logging.getLogger("wntr").setLevel(logging.CRITICAL)
        self.file_requests = []
        rows = getattr(self, "rows", None)
        if rows is None:
            try:
                rows, _, _ = read_io_tables(wntr)
            except Exception:
                rows = []
        prec = Precision(wntr, rows)
        workdir = os.path.join(WORK, "search-%d" % os.getpid())
        os.makedirs(workdir, exist_ok=True)
        out = []
        try:
            with warnings.catch_warnings():
                warnings.simplefilter("ignore")
                specs = directed_specs() + [("wide%d" % i, G.gen_spec(ctx.rng, size=2, inp_only=True, share_curves=True, control_attrs=True, clock_boundaries=True, option_thresholds=True)) for i in range(6 if ctx.quick else 25)]
                for label, sp in specs:
                    wn = G.realise(wntr, sp)
                    for u in UNITS:
                        out += self.roundtrip(wntr, prec, label, sp, wn, u, 2.2, workdir)
        finally:
            try:
                for f in os.listdir(workdir):
                    os.remove(os.path.join(workdir, f))
                os.rmdir(workdir)
            except OSError:
                pass
        return out

    def replay(self, ctx, path):
        wntr = vlib.import_wntr()
        logging.getLogger("wntr").setLevel(logging.CRITICAL)
        r = json.load(open(path if os.path.isabs(path) else os.path.join(vlib.VERIF, path)))
        rp = r.get("replay", {})
        print(json.dumps({k: v for k, v in r.items() if k != "replay"}, indent=1)[:2000])
        rows, fns_, _ = read_io_tables(wntr)
        try:
            CLAMP["required_pressure"] = derive_required_pressure_clamp(fns_)
        except BrokenTie:
            pass
        self.file_requests = []
        workdir = os.path.join(WORK, "replay-%d" % os.getpid())
        os.makedirs(workdir, exist_ok=True)
        try:
            with warnings.catch_warnings():
                warnings.simplefilter("ignore")
                wn = G.realise(wntr, rp["spec"])
                fs = self.roundtrip(wntr, Precision(wntr, rows), rp.get("case"), rp["spec"], wn, rp["units"], rp["version"], workdir)
        finally:
            try:
                os.rmdir(workdir)
            except OSError:
                pass
        hit = [f for f in fs if f.key == r.get("key")]
        print("replay: %s" % ("REPRODUCED " + hit[0].what if hit else "not reproduced on the current tree"))
        return 1 if hit else 0


def _section_of(text, line):
    sec = "?"
    for l in text.splitlines():
        if l.startswith("["):
            sec = l.strip("[] ")
        if l == line:
            return sec
    return sec


def _exc_class(e):
    return re.sub(r"[^A-Za-z]+", "-", str(e))[:30].strip("-")


if __name__ == "__main__":
    vlib.run_check(C12)
