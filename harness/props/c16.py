"""C16 -- runs terminate with well-formed results and never hide a failed step.

Lean side: `Model/RunLoop.lean` (the outer loop of `WNTRSimulator.run_sim` over an arbitrary world of controls and solvers),
`Props/C16.lean` (termination with an explicit bound, the reported index, failure stops + flags, failure prefix, trial overflow).

Tie (C), checked on every run: the real `run_sim` is executed with in-process instrumentation (nothing under /repo is edited):
  * `wntr.sim.core._solver_helper` is substituted by a counting wrapper that can fail call k
      - fake:     returns (SolverStatus.error, 'Reached maximum number of iterations: 0', 0) without touching the model
      - maxiter:  runs the real NewtonSolver with MAXITER=1          (real iteration-limit path)
      - singular: scipy's spsolve raises MatrixRankWarning           (real `except MatrixRankWarning` path)
      - nan:      spsolve returns NaNs (what happens when the user silenced warnings)  (real line-search-failed path)
  * the trial limit is reached through a pair of post-solve controls that flip a pipe for ever from a given time
  * `_compute_next_timestep_and_run_presolve_controls_and_rules`, `ControlChangeTracker.changes_made('graph')` and
    `hydraulics.save_results` are wrapped to observe (clock before/after, changes flag, row saved after solver call n)
The observed streams (presolve clock values, solver outcomes, post-solve flags) are fed to the Lean model through
`Drivers/RunLoopDriver.lean`; final status, reported times, row identities and the number of solver calls must agree, the model
must consume exactly the observed streams, and the presolve contract `prev < t' <= cur` must hold on every observed call.

Property oracle on the REAL implementation (what the statement says, nothing more): see `judge`.
"""
import copy
import json
import math
import os
import sys
import warnings

sys.path.insert(0, os.path.dirname(os.path.dirname(os.path.abspath(__file__))))
import vlib
from vlib import Broken, Failure, Check
import gen_networks

DRIVER = "Drivers/RunLoopDriver.lean"
NEWTON_DRIVER = "Drivers/NewtonDriver.lean"
FAULT_KINDS = ["fake", "maxiter", "singular", "nan"]
NODE_KEYS = ["head", "demand", "pressure", "leak_demand"]
LINK_KEYS = ["flowrate", "velocity", "status", "setting"]


NEWTON_DEFAULTS = {"MAXITER": 3000, "TOL": 1e-6, "BT_RHO": 0.5, "BT_MAXITER": 100, "BACKTRACKING": True, "BT_START_ITER": 0,
                   "TIME_LIMIT": 3600}  # refreshed by the translator from NewtonSolver.__init__
ZERO_SAFE = [True]  # since fix 14495b3c NewtonSolver.solve binds outer_iter / iter_bt before the loops (zero limits are generated)
SCIPY_NONLIN = ["diagbroyden", "broyden1", "newton_krylov", "anderson"]
LOW_KINDS = ["sp-valueerror", "sp-fpe", "sp-shape", "sp-noconv"]
PREFIX_DEV = [0.0]  # largest relative deviation seen between a failing run's rows and its reference run's rows


class Runaway(Exception):
    """raised by the instrumentation when run_sim makes more solver calls than the proved bound allows"""


# ----------------------------------------------------------------------------- specs: networks + controls + options


def add_controls(rng, spec, trial_flip=False):
    """extend a gen_networks spec with JSON-able controls (time controls off the grid -> partial steps, clock-time controls,
    tank-level controls, rules, and optionally the for-ever-flipping post-solve pair)"""
    o = spec["options"]
    hyd, dur = o["hydraulic_timestep"], o["duration"]
    links = spec["links"]
    pipes = [l["name"] for l in links if l["type"] == "pipe" and not l.get("check_valve")]
    pumps = [l["name"] for l in links if l["type"] == "pump"]
    valves = [l for l in links if l["type"] == "valve"]
    tanks = [n["name"] for n in spec["nodes"] if n["type"] == "tank"]
    ctl = []

    def offgrid():
        k = rng.randint(0, max(0, dur // hyd - 1))
        return k * hyd + rng.choice([hyd // 3, hyd // 2, 1, hyd - 1, 7, hyd // 4 + 13])

    def target():
        r = rng.random()
        if pumps and r < 0.35:
            return (rng.choice(pumps), "status", rng.choice([0, 1]))
        if valves and r < 0.5:
            v = rng.choice(valves)
            return (v["name"], "setting", round(v["setting"] * rng.uniform(0.5, 1.5), 4))
        if pipes:
            return (rng.choice(pipes), "status", rng.choice([0, 1, 1]))
        if pumps:
            return (rng.choice(pumps), "status", rng.choice([0, 1]))
        return None

    n = rng.choice([0, 1, 1, 2, 3])
    for _ in range(n):
        t = target()
        if t is None:
            break
        r = rng.random()
        if r < 0.45:
            ctl.append({"kind": "simtime", "time": offgrid() if rng.random() < 0.8 else hyd * rng.randint(0, 3), "target": t})
        elif r < 0.6:
            ctl.append({"kind": "clock", "time": (offgrid() % 86400), "target": t})
        elif r < 0.8 and tanks:
            tk = rng.choice(tanks)
            nd = [x for x in spec["nodes"] if x["name"] == tk][0]
            lvl = round(nd["init_level"] + rng.uniform(-1.0, 1.0), 3)
            ctl.append({"kind": "tank", "tank": tk, "rel": rng.choice([">=", "<="]), "level": lvl, "target": t})
        else:
            ctl.append({"kind": "rule", "time": offgrid(), "target": t, "else": rng.random() < 0.3})
    if pipes and rng.random() < 0.35:
        # the clamp of the presolve pass on full AND short steps: an ordinary time control closes a pipe at an off-grid instant (the next
        # step is the short remainder), a user-defined condition re-opens it and reports an arbitrary backtrack
        p = rng.choice(pipes)
        t_close = offgrid() if rng.random() < 0.75 else hyd * rng.randint(1, max(1, dur // hyd))
        ctl.append({"kind": "simtime", "time": t_close, "target": (p, "status", 0)})
        ctl.append({"kind": "arbback", "time": max(0, t_close - rng.choice([0, 1, hyd // 4, hyd // 2, hyd])), "target": (p, "status", 1),
                    "mode": rng.choice(ARB_MODES), "k": rng.choice([1, 7, hyd // 2, hyd, 3 * hyd])})
    if trial_flip and pipes:
        ctl.append({"kind": "flip", "pipe": rng.choice(pipes), "from": hyd * rng.randint(0, max(0, dur // hyd))})
    spec = copy.deepcopy(spec)
    spec["c16_controls"] = ctl
    spec["c16_rule_timestep"] = rng.choice([hyd, max(1, hyd // 6), max(1, hyd // 4), 360])
    return spec


def random_spec(rng, quick, trial_flip=False, odd_options=False):
    force = {"n_nodes": rng.choice([2, 3, 4, 5, 6, 8] if quick else [2, 3, 4, 5, 6, 8, 10, 12])}
    if rng.random() < 0.25:
        spec = gen_networks.scenario_network(rng, rng.choice(gen_networks.SCENARIOS))
    else:
        spec = gen_networks.random_network(rng, quick=True, force=force)
    o = spec["options"]
    hyd = o["hydraulic_timestep"]
    o["duration"] = hyd * rng.randint(1, 4 if quick else 6)
    o["trials"] = rng.choice([0, 1, 2, 3]) if trial_flip else rng.choice([200, 200, 40, 5])
    unbalanced = rng.choice(["STOP", "CONTINUE"]) if trial_flip else rng.choice([None, None, "CONTINUE"])
    if odd_options:
        r = rng.random()
        if r < 0.25:
            o["report_timestep"] = hyd + hyd // 2  # not a multiple: run_sim reduces it (warning)
        elif r < 0.45:
            o["report_timestep"] = hyd // 2  # smaller than hyd: run_sim reduces the hydraulic step
            o["duration"] = hyd * rng.randint(1, 2)
        elif r < 0.6:
            o["duration"] = 0
        elif r < 0.8:
            o["duration"] = hyd * rng.randint(1, 3) + rng.choice([1, hyd // 2, hyd - 1])
        else:
            o["report_timestep"] = 3 * hyd
    spec = add_controls(rng, spec, trial_flip=trial_flip)
    if unbalanced is not None:
        spec["c16_unbalanced"] = unbalanced  # [OPTIONS] UNBALANCED: WNTRSimulator has no "continue after a failed status iteration"
    if rng.random() < 0.25:  # FALSY option values: a key that is present wins (MAXITER=0 => the first solve fails => the run stops and says so)
        spec["c16_solver_options"] = rng.choice([{"MAXITER": 0}, {"BT_MAXITER": 0}, {"TIME_LIMIT": 0}, {"BACKTRACKING": False, "MAXITER": 150},
                                                 {"MAXITER": 0, "BACKTRACKING": False}, {"BT_START_ITER": 0, "BT_MAXITER": 0}])
        if rng.random() < 0.5:
            spec["c16_backup_options"] = rng.choice([{"MAXITER": 0}, {"TIME_LIMIT": 0}, {"BT_MAXITER": 0}, {"BACKTRACKING": False, "MAXITER": 40}])
    elif rng.random() < 0.3:  # NewtonSolver options off their defaults (limits >= 1: 0 dies with UnboundLocalError, Props/C16Newton)
        so = {}
        if rng.random() < 0.5:
            so["MAXITER"] = rng.choice([2, 4, 10, 50] + ([0] if ZERO_SAFE[0] else []))
        if rng.random() < 0.4:
            so["BACKTRACKING"] = False
        if rng.random() < 0.4:
            so["BT_START_ITER"] = rng.choice([1, 2, 3])
        if rng.random() < 0.4:
            so["BT_MAXITER"] = rng.choice([1, 2, 5] + ([0] if ZERO_SAFE[0] else []))
        if rng.random() < 0.3:
            so["BT_RHO"] = rng.choice([0.3, 0.8])
        if rng.random() < 0.3:
            so["TOL"] = rng.choice([1e-8, 1e-4])
        if so:
            spec["c16_solver_options"] = so
    r = rng.random()
    if r < 0.35:  # report_start > 0: on the hydraulic grid, off it, exactly the duration, beyond the duration (empty tables)
        d = o["duration"]
        spec["c16_report_start"] = rng.choice([hyd, hyd * rng.randint(1, 3), hyd // 2, hyd + 7, d, d + hyd, d + 1, 2 * d + 5])
    if not odd_options and not trial_flip and rng.random() < 0.2:
        # the same simulator object for two run_sim calls, time options edited in between
        h1 = rng.choice([hyd // 2, hyd * 2, hyd])
        spec["c16_reuse"] = {"mode": rng.choice(["fresh", "continue"]), "hyd": h1, "report": rng.choice([h1, 2 * h1, "ALL"]),
                             "duration": h1 * rng.randint(1, 2)}
        if spec["c16_reuse"]["mode"] == "continue":
            o["duration"] = max(o["duration"], spec["c16_reuse"]["duration"] + 2 * hyd)
    elif not odd_options and o["duration"] >= hyd and rng.random() < 0.3:
        # a continued run; `c16_restart == duration` = the model was already simulated to the end (run_sim must be a no-op)
        spec["c16_restart"] = hyd * rng.randint(1, o["duration"] // hyd) if rng.random() < 0.8 else o["duration"]
    return spec


ARB_MODES = ["zero", "step-1", "step", "step+k", "hyd-1", "hyd", "negative", "huge"]


def _arbback_condition(wntr):
    """a user-defined presolve condition (subclass of SimTimeCondition, so `Control` files it under presolve) that is due since `threshold`
    while `link` has status `when_status` and reports an ARBITRARY backtrack through the documented `ControlCondition.backtrack` hook:
    0, step-1, step, step+k, hydraulic_timestep-1, hydraulic_timestep, -k, 10**6 (step = tentative time - previous accepted time)"""
    from wntr.network.controls import SimTimeCondition

    class ArbBack(SimTimeCondition):
        def __init__(self, model, threshold, link, when_status, mode, k):
            super().__init__(model, ">=", threshold)
            self._link, self._when, self._mode, self._k = link, when_status, mode, k

        def requires(self):
            r = super().requires()
            r.add(self._link)
            return r

        def evaluate(self):
            self._backtrack = 0
            now, prev = self._model.sim_time, self._model._prev_sim_time
            if now >= self._threshold and int(self._link.status) == self._when:
                step = int(now - prev)
                hyd = int(self._model.options.time.hydraulic_timestep)
                self._backtrack = {"zero": 0, "step-1": step - 1, "step": step, "step+k": step + self._k, "hyd-1": hyd - 1, "hyd": hyd,
                                   "negative": -self._k, "huge": 10 ** 6}[self._mode]
                return True
            return False

    return ArbBack


def build(wntr, spec):
    """fresh model from the spec (deterministic)"""
    from wntr.network.controls import (Control, Rule, ControlAction, SimTimeCondition, TimeOfDayCondition,
                                       TankLevelCondition, ValueCondition, AndCondition)

    wn = gen_networks.build_wn(wntr, spec)
    if "c16_report_start" in spec:
        wn.options.time.report_start = spec["c16_report_start"]
    if "c16_rule_timestep" in spec:
        wn.options.time.rule_timestep = spec["c16_rule_timestep"]
    if "c16_unbalanced" in spec:
        wn.options.hydraulic.unbalanced = spec["c16_unbalanced"]
        if spec["c16_unbalanced"] == "CONTINUE":
            wn.options.hydraulic.unbalanced_value = 10
    for i, c in enumerate(spec.get("c16_controls", [])):
        if c["kind"] == "flip":
            p = wn.get_link(c["pipe"])
            after = SimTimeCondition(wn, ">=", c["from"])
            wn.add_control("flipA", Control(AndCondition(after, ValueCondition(p, "status", "=", 1)), ControlAction(p, "status", 0)))
            wn.add_control("flipB", Control(AndCondition(SimTimeCondition(wn, ">=", c["from"]), ValueCondition(p, "status", "=", 0)),
                                            ControlAction(p, "status", 1)))
            continue
        ln, attr, val = c["target"]
        act = ControlAction(wn.get_link(ln), attr, val)
        if c["kind"] == "arbback":
            wn.add_control("c%d" % i, Control(_arbback_condition(wntr)(wn, c["time"], wn.get_link(ln), 1 - val, c["mode"], c.get("k", 1)), act))
            continue
        if c["kind"] == "simtime":
            wn.add_control("c%d" % i, Control(SimTimeCondition(wn, "=", c["time"]), act))
        elif c["kind"] == "clock":
            wn.add_control("c%d" % i, Control(TimeOfDayCondition(wn, "=", c["time"]), act))
        elif c["kind"] == "tank":
            wn.add_control("c%d" % i, Control(TankLevelCondition(wn.get_node(c["tank"]), "level", c["rel"], c["level"]), act))
        elif c["kind"] == "rule":
            els = [ControlAction(wn.get_link(ln), attr, (1 - val) if attr == "status" else val * 0.9)] if c.get("else") else None
            wn.add_control("c%d" % i, Rule(SimTimeCondition(wn, ">=", c["time"]), [act], els))
    wn.reset_initial_values()
    return wn


# ----------------------------------------------------------------------------- instrumented run of the REAL run_sim


import contextlib


@contextlib.contextmanager
def _quiet_fds():
    """SuperLU prints 'dgstrf info N' from C when it is handed a NaN matrix: keep that off the check's output"""
    sys.stdout.flush()
    sys.stderr.flush()
    saved = (os.dup(1), os.dup(2))
    null = os.open(os.devnull, os.O_WRONLY)
    try:
        os.dup2(null, 1)
        os.dup2(null, 2)
        yield
    finally:
        sys.stdout.flush()
        sys.stderr.flush()
        os.dup2(saved[0], 1)
        os.dup2(saved[1], 2)
        os.close(saved[0])
        os.close(saved[1])
        os.close(null)


def outcome_letter(status, msg):
    if int(status) == 1:
        return "c"
    m = str(msg)
    if m.startswith("Reached maximum number of iterations"):
        return "i"
    if m.startswith("Jacobian is singular"):
        return "s"
    if m.startswith("Line search failed"):
        return "l"
    if m.startswith("Time limit"):
        return "t"
    return "o"


def _leg1_failed(wn, spec, e, backup, conv_err):
    """the unobserved first leg of a continued / re-used run raised: an observation that only carries the exception"""
    return {"outs": [], "pres": [], "posts": [], "rows": [], "save_times": [], "kinds_hit": [], "newton": [], "warnings": [],
            "exc": (type(e).__name__, str(e)), "leg1": True, "t0": (0, -1), "hyd": wn.options.time.hydraulic_timestep,
            "report": wn.options.time.report_timestep, "duration": wn.options.time.duration, "report_start": wn.options.time.report_start,
            "trials": wn.options.hydraulic.trials, "backup": backup, "conv_err": bool(conv_err),
            "node_names": list(wn.node_name_list), "link_names": list(wn.link_name_list)}


def observe_run(spec, plan=None, backup=None, conv_err=False, max_calls=None, keep_tables=True, solver=None, solver_options=None):
    """run the real `WNTRSimulator.run_sim` on a fresh model with fault plan {call number: kind}.
    backup: None | 'newton' | 'fsolve'; solver: None (NewtonSolver) | 'fsolve'.  Returns the observation dict."""
    wntr = vlib.import_wntr()
    import numpy as np
    import scipy.optimize
    import scipy.sparse.linalg as spla
    import wntr.sim.core as core
    import wntr.sim.hydraulics as hyd
    import wntr.sim.solvers as solvers
    from wntr.network.controls import ControlChangeTracker
    from wntr.sim.solvers import NewtonSolver, SolverStatus

    plan = {int(k): v for k, v in (plan or {}).items()}
    wn = build(wntr, spec)
    sim = None
    if spec.get("c16_reuse") is not None:
        # ONE simulator object, two run_sim calls, the time options edited through the setters in between:
        # leg 1 (unobserved) with other hydraulic / report steps, then either reset_initial_values() (a fresh run) or a continuation
        ru = spec["c16_reuse"]
        full = (wn.options.time.hydraulic_timestep, wn.options.time.report_timestep, wn.options.time.duration)
        wn.options.time.hydraulic_timestep, wn.options.time.report_timestep, wn.options.time.duration = ru["hyd"], ru["report"], ru["duration"]
        sim = wntr.sim.WNTRSimulator(wn)
        with warnings.catch_warnings(), _quiet_fds():
            warnings.simplefilter("ignore")
            try:
                sim.run_sim()
            except Exception as e:  # run_sim(convergence_error=False) must not raise: judged like an observed run
                return _leg1_failed(wn, spec, e, backup, conv_err)
        wn.options.time.hydraulic_timestep, wn.options.time.report_timestep, wn.options.time.duration = full
        if ru["mode"] == "fresh":
            wn.reset_initial_values()
    elif spec.get("c16_restart") is not None:
        # a continued simulation: an unobserved first leg up to `c16_restart`, then the observed run to the full duration
        full = wn.options.time.duration
        wn.options.time.duration = spec["c16_restart"]
        with warnings.catch_warnings(), _quiet_fds():
            warnings.simplefilter("ignore")
            try:
                wntr.sim.WNTRSimulator(wn).run_sim()
            except Exception as e:
                return _leg1_failed(wn, spec, e, backup, conv_err)
        wn.options.time.duration = full
    if sim is None:
        sim = wntr.sim.WNTRSimulator(wn)
    obs = {"outs": [], "pres": [], "posts": [], "rows": [], "save_times": [], "kinds_hit": [],
           "t0": (wn.sim_time, wn._prev_sim_time)}
    orig_helper = core._solver_helper
    orig_spsolve = spla.spsolve
    orig_solve = NewtonSolver.solve
    obs["newton"] = []

    def solve_wrapper(self_solver, model, ostream=None):
        """record what happens inside the real NewtonSolver.solve: the residual norm of every evaluate_residuals() call and
        whether each spsolve call succeeded; afterwards re-evaluate the residual of the state the model is left in"""
        # the options the caller ASKED for (present key wins, falsy or not; defaults as read off __init__ by the translator) are what
        # the Lean model is run with; the attributes the solver object really carries are compared with them by the oracle
        asked = dict(NEWTON_DEFAULTS)
        asked.update({k: v for k, v in (self_solver._options or {}).items() if k in NEWTON_DEFAULTS})
        rec = {"norms": [], "lin": [], "opts": {"maxiter": int(asked["MAXITER"]), "tol": float(asked["TOL"]), "rho": float(asked["BT_RHO"]),
                                                 "bt_maxiter": int(asked["BT_MAXITER"]), "bt": bool(asked["BACKTRACKING"]),
                                                 "bt_start_iter": int(asked["BT_START_ITER"]), "time_limit": asked["TIME_LIMIT"]},
               "effective": {"maxiter": self_solver.maxiter, "tol": float(self_solver.tol), "rho": float(self_solver.rho),
                             "bt_maxiter": self_solver.bt_maxiter, "bt": bool(self_solver.bt), "bt_start_iter": self_solver.bt_start_iter,
                             "time_limit": self_solver.time_limit},
               "asked_keys": sorted(k for k in (self_solver._options or {}) if k in NEWTON_DEFAULTS),
               "empty": len(model.get_x()) == 0}
        real_eval = model.evaluate_residuals
        inner_spsolve = spla.spsolve  # the real one, or the fault-injecting one

        def ev(x=None):
            r = real_eval(x)
            rec["norms"].append(float(np.max(np.abs(r))) if len(r) else None)
            return r

        def sp_rec(*a, **k):
            try:
                d = inner_spsolve(*a, **k)
            except spla.MatrixRankWarning:
                rec["lin"].append(False)
                raise
            rec["lin"].append(True)
            return d

        model.evaluate_residuals = ev
        spla.spsolve = sp_rec
        try:
            res = orig_solve(self_solver, model, ostream)
        except Exception as e:  # UnboundLocalError with MAXITER = 0 / BT_MAXITER = 0
            rec["exc"] = type(e).__name__
            raise
        finally:
            del model.evaluate_residuals
            spla.spsolve = inner_spsolve
            obs["newton"].append(rec)
        rec["ret"] = (int(res[0]), str(res[1]), res[2])
        if not rec["empty"]:
            r = real_eval()
            rec["final_norm"] = float(np.max(np.abs(r))) if len(r) else 0.0
        return res

    orig_changes = ControlChangeTracker.changes_made
    orig_save = hyd.save_results
    orig_presolve = sim._compute_next_timestep_and_run_presolve_controls_and_rules

    def helper(model, solver, solver_options):
        n = len(obs["outs"])
        if max_calls is not None and n >= max_calls:
            raise Runaway("more than %d solver calls" % max_calls)
        kind = plan.get(n)
        if kind == "fake":
            model.set_structure()
            res = (SolverStatus.error, "Reached maximum number of iterations: 0", 0)
        elif kind == "maxiter" and solver is NewtonSolver:
            o = dict(solver_options)
            o["MAXITER"] = 1
            res = orig_helper(model, solver, o)
        elif kind in ("singular", "nan") and solver is NewtonSolver:
            def bad(J, r, *a, **k):
                if kind == "singular":
                    # what scipy does for an exactly singular matrix under wntr.sim.solvers' "error" filter
                    raise spla.MatrixRankWarning("Matrix is exactly singular")
                return np.full(len(r), np.nan)

            spla.spsolve = bad
            try:
                res = orig_helper(model, solver, solver_options)
            finally:
                spla.spsolve = orig_spsolve
        elif kind in LOW_KINDS and solver is not NewtonSolver:
            # the REAL _solver_helper runs; the scipy callable it calls is replaced for this one call
            name = solver.__name__

            def faulty(F, x0, *a, **k):
                if name == "fsolve" and kind == "sp-noconv":
                    return (x0, {}, 5, "The iteration is not making good progress")
                if name == "fsolve" and kind == "sp-shape":
                    return (np.zeros(len(x0) + 3), {}, 1, "The solution converged.")
                if kind == "sp-valueerror":
                    raise ValueError("array must not contain infs or NaNs")
                if kind == "sp-fpe":
                    raise FloatingPointError("overflow encountered in the nonlinear solver")
                if kind == "sp-shape":
                    return np.zeros(len(x0) + 3)
                try:
                    from scipy.optimize import NoConvergence
                except ImportError:
                    from scipy.optimize._nonlin import NoConvergence
                raise NoConvergence("injected")

            faulty.__name__ = name
            real = getattr(scipy.optimize, name)
            setattr(scipy.optimize, name, faulty)
            try:
                res = orig_helper(model, faulty, solver_options)
            finally:
                setattr(scipy.optimize, name, real)
        elif kind is not None:
            model.set_structure()
            res = (SolverStatus.error, "injected failure", 0)
        else:
            res = orig_helper(model, solver, solver_options)
        obs["outs"].append(outcome_letter(res[0], res[1]))
        if kind is not None:
            obs["kinds_hit"].append(kind)
        return res

    def presolve(first_step):
        cur, prev = wn.sim_time, wn._prev_sim_time
        orig_presolve(first_step)
        obs["pres"].append((cur, prev, bool(first_step), wn.sim_time))

    def changes_made(self, ref_point):
        r = orig_changes(self, ref_point)
        if ref_point == "graph":
            obs["posts"].append(bool(r))
        return r

    def save_results(wn_, node_res, link_res):
        obs["rows"].append(len(obs["outs"]))
        obs["save_times"].append(wn_.sim_time)
        return orig_save(wn_, node_res, link_res)

    kw = {"convergence_error": conv_err}
    if solver == "fsolve":
        kw["solver"] = scipy.optimize.fsolve
    elif solver in SCIPY_NONLIN:
        kw["solver"] = getattr(scipy.optimize, solver)
        kw["solver_options"] = {"maxiter": 60}
    if backup == "newton":
        kw["backup_solver"] = NewtonSolver
        kw["backup_solver_options"] = dict(spec.get("c16_backup_options") or {"MAXITER": 500})
    elif backup == "fsolve":
        kw["backup_solver"] = scipy.optimize.fsolve
    elif backup in SCIPY_NONLIN:
        kw["backup_solver"] = getattr(scipy.optimize, backup)
        kw["backup_solver_options"] = {"maxiter": 60}
    solver_options = solver_options or spec.get("c16_solver_options")
    if solver_options and solver is None:  # NewtonSolver option names; the scipy solvers take other keywords (set above)
        kw["solver_options"] = dict(solver_options)
    core._solver_helper = helper
    NewtonSolver.solve = solve_wrapper
    ControlChangeTracker.changes_made = changes_made
    hyd.save_results = save_results
    sim._compute_next_timestep_and_run_presolve_controls_and_rules = presolve
    res = None
    exc = None
    with warnings.catch_warnings(record=True) as ws, _quiet_fds():
        warnings.simplefilter("always")
        try:
            res = sim.run_sim(**kw)
        except Runaway as e:
            exc = ("Runaway", str(e))
        except Exception as e:  # noqa
            exc = (type(e).__name__, str(e))
        finally:
            core._solver_helper = orig_helper
            NewtonSolver.solve = orig_solve
            ControlChangeTracker.changes_made = orig_changes
            hyd.save_results = orig_save
            spla.spsolve = orig_spsolve
    obs["warnings"] = [str(w.message) for w in ws]
    obs["exc"] = exc
    # the steps the run must use are a function of the CURRENT options only (`_setup_sim_options`: report < hyd -> hyd := report;
    # report not a multiple -> report floored to one); what the simulator object carries is compared with that by the oracle
    oh, orep = wn.options.time.hydraulic_timestep, wn.options.time.report_timestep
    if not isinstance(orep, str):
        if orep < oh:
            oh = orep
        elif orep % oh != 0:
            orep = orep - orep % oh
    obs["hyd"], obs["report"] = oh, orep
    obs["sim_steps"] = (sim._hydraulic_timestep, sim._report_timestep)
    obs["duration"] = wn.options.time.duration
    obs["report_start"] = wn.options.time.report_start
    obs["trials"] = wn.options.hydraulic.trials
    obs["backup"] = backup
    obs["conv_err"] = bool(conv_err)
    obs["node_names"] = list(wn.node_name_list)
    obs["link_names"] = list(wn.link_name_list)
    if res is not None:
        obs["error_code"] = None if res.error_code is None else int(res.error_code)
        obs["time"] = list(res.time)
        if keep_tables:
            obs["node"] = {k: res.node[k] for k in res.node}
            obs["link"] = {k: res.link[k] for k in res.link}
    return obs


def status_of(obs):
    """map what the caller of run_sim saw to the model's Halt names (None = something the model has no name for)"""
    if obs["exc"] is not None:
        t, m = obs["exc"]
        if t == "RuntimeError" and "did not converge" in m:
            return "raiseNoConv"
        if t == "RuntimeError" and "Exceeded maximum number of trials" in m:
            return "raiseTrials"
        if t == "RuntimeError" and "already solved" in m:
            return "raiseAlreadySolved"
        return None
    w = obs["warnings"]
    if obs["error_code"] == 0:
        if any("did not converge" in x for x in w):
            return "flagNoConv"
        if any("Exceeded maximum number of trials" in x for x in w):
            return "flagTrials"
        return "flagSilent"
    return "finished"


def expected_status(obs):
    """what the STATEMENT requires, from the observed solver outcomes / post-solve flags alone (independent of the model):
    the last step 'could not be solved' iff its final solver call failed un-rescued, or it used up its trials"""
    outs = obs["outs"]
    bk = obs["backup"] is not None
    # walk the calls: a failed primary with a backup is followed by a backup call
    i = 0
    failed = False
    while i < len(outs):
        if outs[i] != "c":
            if bk and i + 1 < len(outs):
                if outs[i + 1] != "c":
                    failed = True
                i += 2
                continue
            failed = True
        i += 1
    if failed:
        return "raiseNoConv" if obs["conv_err"] else "flagNoConv"
    # trial overflow: the run ended right after a post-solve phase that changed something, with trial > max_trials
    t = 0
    over = False
    for ch in obs["posts"]:
        if ch:
            t += 1
            if t > obs["trials"]:
                over = True
        else:
            t = 0
    if over:
        return "raiseTrials" if obs["conv_err"] else "flagTrials"
    return "finished"


def model_line(obs, cap=10 ** 15):
    rep = obs["report"]
    rep = 0 if isinstance(rep, str) else int(rep)
    pres = ",".join(str(int(p[3])) for p in obs["pres"]) or "-"
    t0, p0 = obs["t0"]
    return "run %d %d %d %d %d %d %d %d %d %d %s %s %s" % (
        int(obs["hyd"]), rep, int(obs["duration"]), int(obs["trials"]), 1 if obs["backup"] else 0, 1 if obs["conv_err"] else 0,
        int(t0), int(p0) if (t0 != 0 and p0 is not None) else 0, cap, int(obs["report_start"]), pres, "".join(obs["outs"]) or "-",
        "".join("1" if b else "0" for b in obs["posts"]) or "-")


def parse_model(line):
    parts = line.split()
    d = {"halt": parts[0]}
    for p in parts[1:]:
        k, v = p.split("=", 1)
        d[k] = v
    for k in ("times", "rows", "acc"):
        d[k] = [] if d[k] == "-" else ([int(x) for x in d[k].split(",")] if d[k] != "MISMATCH" else "MISMATCH")
    d["nsolve"] = int(d["nsolve"])
    return d


def integral_times(obs):
    return all(float(x) == int(x) for p in obs["pres"] for x in (p[0], p[1], p[3])) and float(obs["t0"][0]) == int(obs["t0"][0])


# ----------------------------------------------------------------------------- translator: run_sim -> Gen/RunLoopShape.lean

_WORLD_CALLS = {
    "wntr.sim.hydraulics.update_tank_heads(self._wn)": "updateTankHeads",
    "self._run_feasibility_controls()": "runFeasibilityControls",
    "self._update_internal_graph()": "updateInternalGraph",
    "(num_isolated_junctions, num_isolated_links) = self._get_isolated_junctions_and_links()": "getIsolated",
    "wntr.sim.hydraulics.update_model_for_controls(self._model, self._wn, self._model_updater, self._change_tracker)": "updateModelForControls",
    "wntr.sim.models.param.source_head_param(self._model, self._wn)": "sourceHeadParam",
    "wntr.sim.models.param.expected_demand_param(self._model, self._wn)": "expectedDemandParam",
    "wntr.sim.hydraulics.store_results_in_network(self._wn, self._model)": "storeResultsInNetwork",
}
_ACTS = {
    "trial = 0": "resetTrial",
    "self._compute_next_timestep_and_run_presolve_controls_and_rules(first_step)": "presolve",
    "(solver_status, mesg, iter_count) = _solver_helper(self._model, self._solver, self._solver_options)": "solvePrimary",
    "(solver_status, mesg, iter_count) = _solver_helper(self._model, self._backup_solver, self._backup_solver_options)": "solveBackup",
    "self._run_postsolve_controls()": "runPostsolve",
    "resolve = True": "(.setResolve true)",
    "resolve = False": "(.setResolve false)",
    "trial += 1": "incTrial",
    "results.error_code = wntr.sim.results.ResultsStatus.error": "setError",
    "wntr.sim.hydraulics.save_results(self._wn, node_res, link_res)": "save",
    "results.time.append(int(self._wn.sim_time))": "appendTime",
    "wntr.sim.hydraulics.update_network_previous_values(self._wn)": "updatePrev",
    "first_step = False": "clearFirst",
    "report_start = self._wn.options.time.report_start": "readReportStart",
}
_ADVANCE = ["self._wn.sim_time += self._hydraulic_timestep",
            "overstep = float(self._wn.sim_time) % self._hydraulic_timestep",
            "self._wn.sim_time -= overstep"]
_CONDS = {
    "not resolve": "notResolve",
    "not first_step": "notFirst",
    "not first_step and not resolve": "notFirstAndNotResolve",
    "solver_status == 0 and self._backup_solver is not None": "failedAndBackup",
    "solver_status == 0": "failed",
    "self._convergence_error": "convErrAttr",
    "convergence_error": "convErrParam",
    "self._change_tracker.changes_made(ref_point='graph')": "changed",
    "trial > max_trials": "trialGtMax",
    "isinstance(self._report_timestep, (float, int))": "reportNumeric",
    "self._report_timestep.upper() == 'ALL'": "reportAll",
    "self._wn.sim_time >= report_start and (self._wn.sim_time - report_start) % self._report_timestep == 0": "onGrid",
    "len(results.time) > 0 and int(self._wn.sim_time) == results.time[-1]": "alreadySolved",
    "int(self._wn.sim_time) != self._wn.sim_time": "nonIntegral",
    "self._wn.sim_time > self._wn.options.time.duration": "pastDuration",
}
_RAISES = [("did not converge", "noConv"), ("Exceeded maximum number of trials", "trials"),
           ("already solved", "alreadySolved"), ("smaller than 1 second", "subSecond")]


def _canon(src, mode):
    import ast

    return ast.dump(ast.parse(src, mode=mode).body if mode == "eval" else ast.parse(src).body[0])


def shape_from_source(path):
    """read `WNTRSimulator.run_sim` with `ast` and return (fields dict, Lean text of the body); BrokenTie on anything unknown"""
    import ast

    tree = ast.parse(open(path).read())
    fn = None
    for node in ast.walk(tree):
        if isinstance(node, ast.ClassDef) and node.name == "WNTRSimulator":
            for b in node.body:
                if isinstance(b, ast.FunctionDef) and b.name == "run_sim":
                    fn = b
    if fn is None:
        raise vlib.BrokenTie("WNTRSimulator.run_sim not found in %s" % path)
    world = {_canon(k, "exec"): v for k, v in _WORLD_CALLS.items()}
    acts = {_canon(k, "exec"): v for k, v in _ACTS.items()}
    conds = {_canon(k, "eval"): v for k, v in _CONDS.items()}
    adv = [_canon(k, "exec") for k in _ADVANCE]

    def ignorable(st):
        if isinstance(st, ast.Expr) and isinstance(st.value, ast.Constant) and isinstance(st.value.value, str):
            return True  # a docstring-like string statement
        if isinstance(st, ast.Expr) and isinstance(st.value, ast.Call):
            f = ast.unparse(st.value.func)
            if f.startswith("logger.") or f == "diagnostics.run":
                return True
        if isinstance(st, ast.If) and ast.unparse(st.test).startswith("logger.getEffectiveLevel()"):
            return all(ignorable(x) or isinstance(x, ast.For) and all(ignorable(y) for y in x.body) for x in st.body) and not st.orelse
        return False

    def tr_block(stmts, indent):
        out = []
        i = 0
        while i < len(stmts):
            st = stmts[i]
            if ignorable(st):
                i += 1
                continue
            if [ast.dump(x) for x in stmts[i:i + 3]] == adv:
                out.append(".act .advance")
                i += 3
                continue
            out.append(tr_stmt(st, indent))
            i += 1
        if not out:
            return ".skip"
        if len(out) == 1:
            return out[0]
        pad = "  " * (indent + 1)
        return "block [\n" + ",\n".join(pad + o for o in out) + "]"

    def paren(t):
        return t if t.startswith(".") and " " not in t else "(" + t + ")"

    def tr_stmt(st, indent):
        d = ast.dump(st)
        if d in world:
            return ".act (.world .%s)" % world[d]
        if d in acts:
            return ".act %s" % (acts[d] if acts[d].startswith("(") else "." + acts[d])
        if isinstance(st, ast.Break):
            return ".brk"
        if isinstance(st, ast.Continue):
            return ".cont"
        if isinstance(st, ast.Raise):
            src = ast.unparse(st)
            if not src.startswith("raise RuntimeError("):
                raise vlib.BrokenTie("run_sim loop raises something else than RuntimeError: " + src[:120])
            for needle, name in _RAISES:
                if needle in src:
                    return ".raise .%s" % name
            raise vlib.BrokenTie("unknown RuntimeError in the run_sim loop: " + src[:120])
        if isinstance(st, ast.Expr) and isinstance(st.value, ast.Call) and ast.unparse(st.value.func) == "warnings.warn":
            src = ast.unparse(st)
            if "did not converge" in src:
                return ".act .warnNoConv"
            if "Exceeded maximum number of trials" in src:
                return ".act .warnTrials"
            raise vlib.BrokenTie("unknown warning in the run_sim loop: " + src[:120])
        if isinstance(st, ast.If):
            c = ast.dump(st.test)
            if c not in conds:
                raise vlib.BrokenTie("unknown condition in the run_sim loop: `%s` (line %d)" % (ast.unparse(st.test), st.lineno))
            return ".ite .%s %s %s" % (conds[c], paren(tr_block(st.body, indent + 1)), paren(tr_block(st.orelse, indent + 1)))
        raise vlib.BrokenTie("unrecognised statement in the run_sim loop (line %d): %s" % (st.lineno, ast.unparse(st)[:160]))

    loops = [(i, st) for i, st in enumerate(fn.body) if isinstance(st, ast.While)]
    if len(loops) != 1 or ast.unparse(loops[0][1].test) != "True" or loops[0][1].orelse:
        raise vlib.BrokenTie("run_sim no longer has exactly one `while True:` loop at its top level")
    li, loop = loops[0]
    pre, post = fn.body[:li], fn.body[li + 1:]
    fields = {"trialInit": None, "resolveInit": None, "earlyReturn": False, "returnsResults": False}
    guard = _canon("not first_step and self._wn.sim_time > self._wn.options.time.duration", "eval")
    first_a = _canon("if self._wn.sim_time == 0:\n    first_step = True\nelse:\n    first_step = False", "exec")
    seen_first = seen_prev = False
    for st in pre:
        src = ast.unparse(st)
        if isinstance(st, ast.Assign) and src.startswith("trial = "):
            fields["trialInit"] = int(ast.literal_eval(st.value))
        elif isinstance(st, ast.Assign) and src.startswith("resolve = "):
            fields["resolveInit"] = bool(ast.literal_eval(st.value))
        elif ast.dump(st) == first_a:
            seen_first = True
        elif isinstance(st, ast.If) and ast.unparse(st.test) == "first_step" and "self._wn._prev_sim_time = -1" in src:
            seen_prev = True
        elif isinstance(st, ast.If) and ast.dump(st.test) == guard:
            body = [ast.unparse(x) for x in st.body]
            if body == ["wntr.sim.hydraulics.get_results(self._wn, results, node_res, link_res)", "return results"] and not st.orelse:
                fields["earlyReturn"] = True
            else:
                raise vlib.BrokenTie("the early-return guard of run_sim does something else: " + "; ".join(body)[:200])
    if not (seen_first and seen_prev) or fields["trialInit"] is None or fields["resolveInit"] is None:
        raise vlib.BrokenTie("run_sim's initialisation of first_step / _prev_sim_time / trial / resolve is not recognised")
    if [ast.unparse(x) for x in post] == ["wntr.sim.hydraulics.get_results(self._wn, results, node_res, link_res)", "return results"]:
        fields["returnsResults"] = True
    return fields, tr_block(loop.body, 0)


def clamp_shape_from_source(path):
    """the clamp of `_compute_next_timestep_and_run_presolve_controls_and_rules`: which two quantities bound a backtrack"""
    import ast

    tree = ast.parse(open(path).read())
    fn = None
    for node in ast.walk(tree):
        if isinstance(node, ast.FunctionDef) and node.name == "_compute_next_timestep_and_run_presolve_controls_and_rules":
            fn = node
    if fn is None:
        raise vlib.BrokenTie("_compute_next_timestep_and_run_presolve_controls_and_rules not found")
    qty = {"self._wn.sim_time": "tentativeTime", "self._wn._prev_sim_time": "prevAcceptedTime",
           "self._hydraulic_timestep": "hydraulicStep", "self._wn.options.time.hydraulic_timestep": "hydraulicStep"}
    mb = [st for st in ast.walk(fn) if isinstance(st, ast.Assign) and ast.unparse(st.targets[0]) == "max_back"]
    use = [st for st in ast.walk(fn) if isinstance(st, ast.Assign) and "max_back" in ast.unparse(st.value)
           and ast.unparse(st.targets[0]) == "presolve_controls_to_run"]
    if len(mb) != 1 or len(use) != 1:
        raise vlib.BrokenTie("the presolve pass no longer has exactly one `max_back = ...` and one use of it")
    v = mb[0].value  # max(int(A - B) - 1, 0)
    ok = (isinstance(v, ast.Call) and ast.unparse(v.func) == "max" and len(v.args) == 2 and ast.unparse(v.args[1]) == "0")
    inner = v.args[0] if ok else None
    minus_one = False
    if ok and isinstance(inner, ast.BinOp) and isinstance(inner.op, ast.Sub) and ast.unparse(inner.right) == "1":
        minus_one, inner = True, inner.left
    if ok and isinstance(inner, ast.Call) and ast.unparse(inner.func) == "int" and len(inner.args) == 1:
        inner = inner.args[0]
    if not ok:
        raise vlib.BrokenTie("max_back is no longer `max(int(A - B) - 1, 0)`: " + ast.unparse(mb[0])[:120])
    if isinstance(inner, ast.BinOp) and isinstance(inner.op, ast.Sub):
        a, b = ast.unparse(inner.left), ast.unparse(inner.right)
    else:
        a, b = ast.unparse(inner), None
    if a not in qty or (b is not None and b not in qty):
        raise vlib.BrokenTie("unknown quantities in the clamp bound: " + ast.unparse(mb[0])[:120])
    lower_zero = ast.dump(use[0].value) == _canon("[(c, min(max(b, 0), max_back)) for c, b in presolve_controls_to_run]", "eval")
    if not lower_zero and ast.dump(use[0].value) != _canon("[(c, min(b, max_back)) for c, b in presolve_controls_to_run]", "eval"):
        raise vlib.BrokenTie("the clamp is no longer applied as min(max(b, 0), max_back): " + ast.unparse(use[0])[:140])
    return {"minuend": qty[a], "subtrahend": qty[b] if b else "zero", "lowerZero": lower_zero, "minusOne": minus_one}


def setup_reads_options_only(path):
    """`_setup_sim_options` must take the two timesteps from the CURRENT options on every call: the two assignments
    `self._report_timestep = self._wn.options.time.report_timestep`, `self._hydraulic_timestep = self._wn.options.time.hydraulic_timestep`
    are top-level statements of the method (not under a guard that reads simulator state, not in a helper called conditionally)"""
    import ast

    tree = ast.parse(open(path).read())
    fn = None
    for node in ast.walk(tree):
        if isinstance(node, ast.FunctionDef) and node.name == "_setup_sim_options":
            fn = node
    if fn is None:
        raise vlib.BrokenTie("_setup_sim_options not found")
    top = [ast.dump(st) for st in fn.body]
    want = [_canon("self._report_timestep = self._wn.options.time.report_timestep", "exec"),
            _canon("self._hydraulic_timestep = self._wn.options.time.hydraulic_timestep", "exec")]
    return all(w in top for w in want)


def gen_shape_lean(fields, body, clamp, steps_from_options=True):
    b = lambda x: "true" if x else "false"
    return "\n".join([
        "-- GENERATED by harness/props/c16.py from wntr/sim/core.py (Python ast of WNTRSimulator.run_sim). Do not edit.",
        "import WntrModel.Model.RunLoop",
        "namespace Wntr.RunLoop.Gen",
        "open Wntr.RunLoop",
        "",
        "/-- the body of `while True:` in `run_sim`, statement by statement (logging and diagnostics dropped) -/",
        "def body : Stmt := " + body,
        "",
        "def shape : Shape :=",
        "  { trialInit := %d, resolveInit := %s, earlyReturn := %s, returnsResults := %s, body := body }"
        % (fields["trialInit"], b(fields["resolveInit"]), b(fields["earlyReturn"]), b(fields["returnsResults"])),
        "",
        "/-- the clamp of the presolve pass: `max_back = max(int(minuend - subtrahend) - 1, 0)`, `min(max(b, 0), max_back)` -/",
        "def clampShape : ClampShape :=",
        "  { minuend := .%s, subtrahend := .%s, lowerZero := %s, minusOne := %s }"
        % (clamp["minuend"], clamp["subtrahend"], b(clamp["lowerZero"]), b(clamp["minusOne"])),
        "",
        "/-- `_setup_sim_options` assigns `_report_timestep` / `_hydraulic_timestep` from `wn.options.time` unconditionally, on every call -/",
        "def stepsFromOptionsEveryCall : Bool := %s" % b(steps_from_options),
        "",
        "end Wntr.RunLoop.Gen",
        "",
    ])


# ----------------------------------------------------------------------------- translator: NewtonSolver.solve -> Gen/NewtonShape.lean

_N_ACTS = {
    "x = model.get_x()": "getX",
    "use_r_ = False": "(.setUseR false)",
    "use_r_ = True": "(.setUseR true)",
    "J = model.evaluate_jacobian(x=None)": "evalJacobian",
    "d = -sp.linalg.spsolve(J, r, permc_spec='COLAMD', use_umfpack=False)": "linSolve",
    "alpha = 1.0": "alphaInit",
    "x_ = x + alpha * d": "trial",
    "model.load_var_values_from_x(x_)": "loadTrial",
    "x = x_": "accept",
    "alpha = alpha * self.rho": "shrink",
    "x += d": "plainStep",
    "model.load_var_values_from_x(x)": "loadX",
    "outer_iter = 0": "initOuterIter",
    "iter_bt = -1": "initIterBt",
}
_N_PAIRS = {
    ("r = r_", "r_norm = new_norm"): "useStored",
    ("r = model.evaluate_residuals()", "r_norm = np.max(abs(r))"): "evalResidual",
    ("r_ = model.evaluate_residuals()", "new_norm = np.max(abs(r_))"): "evalTrial",
}
_N_CONDS = {
    "len(x) == 0": "emptyX",
    "time.time() - t0 >= self.time_limit": "timeUp",
    "use_r_": "useR",
    "r_norm < self.tol": "normLtTol",
    "self.bt and outer_iter >= self.bt_start_iter": "btEnabled",
    "new_norm < (1.0 - 0.0001 * alpha) * r_norm": "decrease",
    "iter_bt + 1 >= self.bt_maxiter": "lsExhausted",
}
_N_MSGS = [("No variables or constraints", "noVars"), ("Solved Successfully", "solved"), ("Time limit exceeded", "timeLimit"),
           ("Jacobian is singular", "singular"), ("Line search failed", "lineSearch"), ("Reached maximum number of iterations", "maxIter")]
_N_DEFAULTS = {"MAXITER": "maxiter", "TOL": "tol", "BT_RHO": "rho", "BT_MAXITER": "btMaxiter", "BACKTRACKING": "bt", "BT_START_ITER": "btStartIter"}


def newton_shape_from_source(path):
    """Python ast of NewtonSolver.solve / __init__ -> (defaults dict, Lean text of the skeleton)"""
    import ast

    tree = ast.parse(open(path).read())
    cls = [n for n in tree.body if isinstance(n, ast.ClassDef) and n.name == "NewtonSolver"]
    if not cls:
        raise vlib.BrokenTie("class NewtonSolver not found in %s" % path)
    fns = {b.name: b for b in cls[0].body if isinstance(b, ast.FunctionDef)}
    if "solve" not in fns or "__init__" not in fns:
        raise vlib.BrokenTie("NewtonSolver.solve / __init__ not found")
    acts = {_canon(k, "exec"): v for k, v in _N_ACTS.items()}
    pairs = {(_canon(a, "exec"), _canon(b, "exec")): v for (a, b), v in _N_PAIRS.items()}
    conds = {_canon(k, "eval"): v for k, v in _N_CONDS.items()}

    def ignorable(st):
        src = ast.unparse(st)
        if src == "t0 = time.time()":
            return True
        if isinstance(st, ast.Expr) and isinstance(st.value, ast.Call) and ast.unparse(st.value.func).startswith("logger."):
            return True
        if isinstance(st, ast.Expr) and isinstance(st.value, ast.Constant) and isinstance(st.value.value, str):
            return True
        if isinstance(st, ast.If) and ast.unparse(st.test) == "self.log_progress or ostream is not None":
            return True  # progress logging only (checked: assigns nothing but `msg`)
        return False

    def paren(t):
        return t if t.startswith(".") and " " not in t else "(" + t + ")"

    def tr_block(stmts, indent):
        out = []
        i = 0
        while i < len(stmts):
            st = stmts[i]
            if ignorable(st):
                if isinstance(st, ast.If):
                    for x in ast.walk(st):
                        if isinstance(x, (ast.Assign, ast.AugAssign)) and ast.unparse(x.targets[0] if isinstance(x, ast.Assign) else x.target) != "msg":
                            raise vlib.BrokenTie("the logging block of NewtonSolver.solve assigns " + ast.unparse(x)[:80])
                        if isinstance(x, (ast.Return, ast.Break, ast.Continue, ast.Raise)):
                            raise vlib.BrokenTie("the logging block of NewtonSolver.solve changes the control flow")
                i += 1
                continue
            if i + 1 < len(stmts) and (ast.dump(st), ast.dump(stmts[i + 1])) in pairs:
                out.append(".act .%s" % pairs[(ast.dump(st), ast.dump(stmts[i + 1]))])
                i += 2
                continue
            out.append(tr_stmt(st, indent))
            i += 1
        if not out:
            return ".skip"
        if len(out) == 1:
            return out[0]
        pad = "  " * (indent + 1)
        return "nblock [\n" + ",\n".join(pad + o for o in out) + "]"

    def tr_return(st):
        v = st.value
        if not (isinstance(v, ast.Tuple) and len(v.elts) == 3):
            raise vlib.BrokenTie("NewtonSolver.solve returns something else than a triple: " + ast.unparse(st)[:120])
        status = ast.unparse(v.elts[0])
        if status not in ("SolverStatus.converged", "SolverStatus.error"):
            raise vlib.BrokenTie("unknown status in " + ast.unparse(st)[:120])
        text = ast.unparse(v.elts[1])
        msg = [name for needle, name in _N_MSGS if needle in text]
        if len(msg) != 1:
            raise vlib.BrokenTie("unknown message in " + ast.unparse(st)[:120])
        third = ast.unparse(v.elts[2])
        if third != ("0" if msg[0] == "noVars" else "outer_iter"):
            raise vlib.BrokenTie("unexpected iteration count in " + ast.unparse(st)[:120])
        return ".ret .%s .%s" % (status.split(".")[1], msg[0])

    def tr_stmt(st, indent):
        d = ast.dump(st)
        if d in acts:
            return ".act %s" % (acts[d] if acts[d].startswith("(") else "." + acts[d])
        if isinstance(st, ast.Return):
            return tr_return(st)
        if isinstance(st, ast.Break):
            return ".brk"
        if isinstance(st, ast.If):
            c = ast.dump(st.test)
            if c not in conds:
                raise vlib.BrokenTie("unknown condition in NewtonSolver.solve: `%s` (line %d)" % (ast.unparse(st.test), st.lineno))
            return ".ite .%s %s %s" % (conds[c], paren(tr_block(st.body, indent + 1)), paren(tr_block(st.orelse, indent + 1)))
        if isinstance(st, ast.For) and not st.orelse:
            head = "for %s in %s" % (ast.unparse(st.target), ast.unparse(st.iter))
            rng = {"for outer_iter in range(self.maxiter)": "maxiter", "for iter_bt in range(self.bt_maxiter)": "btMaxiter"}.get(head)
            if rng is None:
                raise vlib.BrokenTie("unknown loop in NewtonSolver.solve: " + head)
            return ".forRange .%s %s" % (rng, paren(tr_block(st.body, indent + 1)))
        if isinstance(st, ast.Try) and len(st.handlers) == 1 and not st.orelse and not st.finalbody \
                and ast.unparse(st.handlers[0].type) == "sp.linalg.MatrixRankWarning":
            return ".tryLin %s %s" % (paren(tr_block(st.body, indent + 1)), paren(tr_block(st.handlers[0].body, indent + 1)))
        raise vlib.BrokenTie("unrecognised statement in NewtonSolver.solve (line %d): %s" % (st.lineno, ast.unparse(st)[:160]))

    body = tr_block(fns["solve"].body, 0)
    # the option-reading skeleton of __init__: one block per option,
    #   if "KEY" not in self._options: self.attr = <default>   else: self.attr = self._options["KEY"]
    # ("a key that is present wins, even when its value is falsy")
    defaults, reads = {}, []
    for st in fns["__init__"].body:
        if not isinstance(st, ast.If):
            continue
        t = st.test
        if ast.unparse(t) == "options is None":
            continue
        ok = (isinstance(t, ast.Compare) and len(t.ops) == 1 and isinstance(t.ops[0], ast.NotIn) and isinstance(t.left, ast.Constant)
              and ast.unparse(t.comparators[0]) == "self._options" and len(st.body) == 1 and len(st.orelse) == 1
              and isinstance(st.body[0], ast.Assign) and isinstance(st.orelse[0], ast.Assign))
        if not ok:
            raise vlib.BrokenTie("NewtonSolver.__init__: an option is no longer read by `if KEY not in self._options: default else: self._options[KEY]`: "
                                 + ast.unparse(st)[:120])
        key = t.left.value
        a1, a2 = ast.unparse(st.body[0].targets[0]), ast.unparse(st.orelse[0].targets[0])
        if a1 != a2 or not a1.startswith("self.") or ast.dump(st.orelse[0].value) != _canon('self._options["%s"]' % key, "eval"):
            raise vlib.BrokenTie("NewtonSolver.__init__: unexpected option block for %s: %s" % (key, ast.unparse(st)[:160]))
        reads.append((key, a1[len("self."):]))
        if key in _N_DEFAULTS:
            defaults[_N_DEFAULTS[key]] = ast.literal_eval(st.body[0].value)
        elif key == "TIME_LIMIT":
            defaults["timeLimit"] = ast.literal_eval(st.body[0].value)
    if set(defaults) != set(_N_DEFAULTS.values()) | {"timeLimit"}:
        raise vlib.BrokenTie("NewtonSolver.__init__ defaults not recognised: %s" % sorted(defaults))
    defaults["_reads"] = reads
    NEWTON_DEFAULTS.clear()
    NEWTON_DEFAULTS.update({"MAXITER": defaults["maxiter"], "TOL": defaults["tol"], "BT_RHO": defaults["rho"], "BT_MAXITER": defaults["btMaxiter"],
                            "BACKTRACKING": defaults["bt"], "BT_START_ITER": defaults["btStartIter"], "TIME_LIMIT": defaults["timeLimit"]})
    return defaults, body


def helper_shape_from_source(path):
    """Python ast of `_solver_helper` (wntr/sim/core.py): its branches and WHICH exceptions of the scipy solvers are caught"""
    import ast

    tree = ast.parse(open(path).read())
    fn = [n for n in tree.body if isinstance(n, ast.FunctionDef) and n.name == "_solver_helper"]
    if not fn:
        raise vlib.BrokenTie("_solver_helper not found in %s" % path)
    body = [st for st in fn[0].body if not (isinstance(st, ast.Expr) and (isinstance(st.value, ast.Constant) or
                                            (isinstance(st.value, ast.Call) and ast.unparse(st.value.func).startswith("logger."))))]
    srcs = [ast.unparse(st) for st in body]
    if len(body) != 3 or srcs[0] != "model.set_structure()" or srcs[2] != "return sol" or not isinstance(body[1], ast.If):
        raise vlib.BrokenTie("_solver_helper is no longer `set_structure(); if/elif chain; return sol`: %s" % [x[:40] for x in srcs])
    br = body[1]
    sh = {}

    def same(stmts, srcs):
        return [ast.dump(x) for x in stmts] == [_canon(t, "exec") for t in srcs]

    # branch 1
    sh["newtonFirst"] = (ast.unparse(br.test) == "solver is NewtonSolver" and
                         same(br.body, ["_solver = NewtonSolver(solver_options)", "sol = _solver.solve(model)"]))
    if len(br.orelse) != 1 or not isinstance(br.orelse[0], ast.If):
        raise vlib.BrokenTie("_solver_helper: second branch missing")
    b2 = br.orelse[0]
    want2 = ["x, infodict, ier, mesg = solver(model.evaluate_residuals, model.get_x(), **solver_options)",
             "if ier != 1:\n    sol = (SolverStatus.error, mesg, None)\nelse:\n    model.load_var_values_from_x(x)\n    sol = (SolverStatus.converged, mesg, None)"]
    b2body, sh["fsolveCatch"] = b2.body, "none"
    if len(b2body) == 1 and isinstance(b2body[0], ast.Try) and len(b2body[0].handlers) == 1 and not b2body[0].orelse and not b2body[0].finalbody:
        h2 = b2body[0].handlers[0]
        hb2 = [ast.unparse(x) for x in h2.body]
        if len(hb2) != 1 or not hb2[0].startswith("sol = (SolverStatus.error, "):
            raise vlib.BrokenTie("_solver_helper: the except handler of the fsolve branch does not set SolverStatus.error: %s" % hb2)
        if h2.type is None:
            sh["fsolveCatch"] = "(some .all)"
        else:
            ts2 = h2.type.elts if isinstance(h2.type, ast.Tuple) else [h2.type]
            cls2 = [ast.unparse(x).split(".")[-1] for x in ts2]
            sh["fsolveCatch"] = "(some .all)" if ("Exception" in cls2 or "BaseException" in cls2) else \
                "(some (.only [%s]))" % ", ".join('"%s"' % c for c in cls2)
        b2body = b2body[0].body
    sh["fsolveByIer"] = ast.unparse(b2.test) == "solver is scipy.optimize.fsolve" and same(b2body, want2)
    if len(b2.orelse) != 1 or not isinstance(b2.orelse[0], ast.If):
        raise vlib.BrokenTie("_solver_helper: third branch missing")
    b3 = b2.orelse[0]
    t = b3.test
    if not (isinstance(t, ast.Compare) and ast.unparse(t.left) == "solver" and isinstance(t.ops[0], ast.In) and isinstance(t.comparators[0], ast.Set)):
        raise vlib.BrokenTie("_solver_helper: third branch is not `solver in {...}`")
    names = []
    for e in t.comparators[0].elts:
        u = ast.unparse(e)
        if not u.startswith("scipy.optimize."):
            raise vlib.BrokenTie("_solver_helper: unknown solver " + u)
        names.append(u[len("scipy.optimize."):])
    sh["scipySolvers"] = names
    if len(b3.body) != 1 or not isinstance(b3.body[0], ast.Try):
        raise vlib.BrokenTie("_solver_helper: the scipy branch is not a single try statement")
    tr = b3.body[0]
    want_try = ["x = solver(model.evaluate_residuals, model.get_x(), **solver_options)", "model.load_var_values_from_x(x)",
                "sol = (SolverStatus.converged, '', None)"]
    if not same(tr.body, want_try) or tr.orelse or tr.finalbody or len(tr.handlers) != 1:
        raise vlib.BrokenTie("_solver_helper: unexpected body of the try around the scipy solvers")
    h = tr.handlers[0]
    hb = [ast.unparse(x) for x in h.body if not (isinstance(x, ast.Expr) and isinstance(x.value, ast.Constant))]
    if len(hb) != 1 or not hb[0].startswith("sol = (SolverStatus.error, "):
        raise vlib.BrokenTie("_solver_helper: the except handler does not set SolverStatus.error: %s" % hb)
    if h.type is None:
        sh["scipyCatch"] = ".all"
    else:
        ts = h.type.elts if isinstance(h.type, ast.Tuple) else [h.type]
        cls = [ast.unparse(x).split(".")[-1] for x in ts]
        sh["scipyCatch"] = ".all" if ("Exception" in cls or "BaseException" in cls) else "(.only [%s])" % ", ".join('"%s"' % c for c in cls)
    sh["elseRaises"] = same(b3.orelse, ["raise ValueError('Solver not recognized.')"])
    return sh


def gen_newton_lean(defaults, body, hshape):
    from fractions import Fraction

    return "\n".join([
        "-- GENERATED by harness/props/c16.py from wntr/sim/solvers.py (Python ast of NewtonSolver). Do not edit.",
        "import WntrModel.Model.Newton",
        "namespace Wntr.Newton.Gen",
        "open Wntr.Newton",
        "",
        "/-- `NewtonSolver.solve`, statement by statement (timing bookkeeping and progress logging dropped) -/",
        "def solveShape : NStmt := " + body,
        "",
        "/-- the defaults of `NewtonSolver.__init__` (doubles as exact rationals); `c1` = the literal 0.0001 of the decrease test -/",
        "def defaults : Opts :=",
        "  { maxiter := %d, tol := %s, rho := %s, btMaxiter := %d, bt := %s, btStartIter := %d, c1 := %s }"
        % (defaults["maxiter"], vlib.lean_rat(Fraction(float(defaults["tol"]))), vlib.lean_rat(Fraction(float(defaults["rho"]))),
           defaults["btMaxiter"], "true" if defaults["bt"] else "false", defaults["btStartIter"], vlib.lean_rat(Fraction(0.0001))),
        "",
        "/-- how `NewtonSolver.__init__` reads each option: (key, attribute); every block has the form",
        "`if KEY not in self._options: self.attr = default else: self.attr = self._options[KEY]` (a present key wins, falsy or not) -/",
        "def optionReads : List OptRead := [" + ", ".join('{ key := "%s", attr := "%s", presentKeyWins := true }' % ka for ka in defaults["_reads"]) + "]",
        "",
        "/-- the branches of `_solver_helper` (wntr/sim/core.py) and the `except` clause around the scipy nonlinear solvers -/",
        "def helperShape : HelperShape :=",
        "  { newtonFirst := %s, fsolveByIer := %s, fsolveCatch := %s, scipySolvers := [%s], scipyCatch := %s, elseRaises := %s }"
        % ("true" if hshape["newtonFirst"] else "false", "true" if hshape["fsolveByIer"] else "false", hshape["fsolveCatch"],
           ", ".join('"%s"' % n for n in hshape["scipySolvers"]), hshape["scipyCatch"], "true" if hshape["elseRaises"] else "false"),
        "",
        "end Wntr.Newton.Gen",
        "",
    ])


# ----------------------------------------------------------------------------- the property oracle on the implementation


def judge(case, obs, ref):
    """-> list of (key, what).  `ref` is the observation of the reference run (same spec, faults from the failing step on
    removed, convergence_error=False) or None."""
    import numpy as np

    out = []
    tag = "%s-%s-%s" % (case.get("kind", "clean"), "backup" if obs["backup"] else "nobackup", "raise" if obs["conv_err"] else "flag")
    exp = expected_status(obs)
    got = status_of(obs)
    if obs["exc"] is not None and obs["exc"][0] == "Runaway":
        return [("no-termination", "run_sim made more solver calls than the proved bound allows: " + obs["exc"][1])]
    if got is None:
        if obs["exc"][0] == "TypeError" and "NoneType.__format__" in obs["exc"][1]:
            return [("scipy-solver-converged-typeerror",
                     "run_sim raised TypeError (%s) after a scipy solver converged (its iteration count is None); solver outcomes %s, backup %s"
                     % (obs["exc"][1], "".join(obs["outs"]), obs["backup"]))]
        if obs["exc"][0] == "UnboundLocalError" and ("outer_iter" in obs["exc"][1] or "iter_bt" in obs["exc"][1]):
            return [("newton-zero-limit-unboundlocal",
                     "run_sim raised UnboundLocalError (%s): NewtonSolver.solve with MAXITER = 0 / BT_MAXITER = 0" % obs["exc"][1])]
        if (case.get("solver") == "fsolve" or obs["backup"] == "fsolve") and case.get("kind", "").startswith("sp-") \
                and obs["exc"][0] in ("ValueError", "FloatingPointError"):
            return [("fsolve-exception-escapes",
                     "an exception raised inside scipy.optimize.fsolve (or by load_var_values_from_x on its result) escapes from run_sim: %s: %s"
                     % obs["exc"])]
        if obs["exc"][0] == "ValueError" and "number of constraints and variables" in obs["exc"][1]:
            return [("model-structure-constraints-vs-variables",
                     "run_sim raised ValueError (%s) at a solve instead of reporting a step that cannot be solved" % obs["exc"][1])]
        return [("unexpected-exception-%s" % obs["exc"][0], "run_sim raised %s: %s" % obs["exc"])]
    if got == "raiseAlreadySolved" and exp == "finished" and any(not (p[1] < p[3]) for p in obs["pres"] if not p[2]) \
            and any(c.get("kind") == "tank" for c in case["spec"].get("c16_controls", [])):
        return [("tank-backtrack-whole-step",
                 "a TankLevelCondition reported a backtrack >= the step (presolve moved the clock from %s back to %s <= prev %s) and run_sim "
                 "raised 'Simulation already solved this timestep' although no step failed"
                 % next((p[0], p[3], p[1]) for p in obs["pres"] if not p[2] and not (p[1] < p[3])))]
    if obs.get("sim_steps") is not None and obs["exc"] is None and tuple(obs["sim_steps"]) != (obs["hyd"], obs["report"]):
        out.append(("steps-not-from-current-options",
                    "run_sim used hydraulic/report steps %s although the model's current options give %s (a simulator object that was used before)"
                    % (obs["sim_steps"], (obs["hyd"], obs["report"]))))
    # a "solver failure" whose message is a Python calling error is not a verdict of the solver: the step was never attempted
    texts = list(obs["warnings"]) + ([obs["exc"][1]] if obs["exc"] else [])
    for tx in texts:
        if "did not converge" in tx and any(n in tx for n in ("values to unpack", "unexpected keyword argument", "positional argument",
                                                               "has no attribute", "is not callable", "is not subscriptable")):
            out.append(("solver-call-programming-error",
                        "the reported solver failure is a Python calling error inside _solver_helper, not a verdict of the solver: %s" % tx[:200]))
            break
    if got != exp:
        if exp == "finished":
            out.append(("clean-run-%s" % got, "no step failed but run_sim ended with %s (%s)" % (got, tag)))
        else:
            out.append(("failure-not-reported-%s" % tag,
                        "a step could not be solved (expected %s) but run_sim ended with %s; solver outcomes %s, post-solve flags %s"
                        % (exp, got, "".join(obs["outs"]), "".join("1" if b else "0" for b in obs["posts"]))))
    if obs["exc"] is not None:
        return out
    # well-formed tables
    times = obs["time"]
    rep = obs["report"]
    # accepted steps = one per presolve call, except the step in which the run stopped on a failure
    acc = [p[3] for p in obs["pres"]]
    if exp != "finished" and acc:
        acc = acc[:-1]
    if isinstance(rep, str):
        want = [int(t) for t in acc]
    else:
        rs = obs["report_start"]  # the report grid is report_start + k * report_timestep, k >= 0
        want = [int(t) for t in acc if t >= rs and (t - rs) % rep == 0]
    if any(b <= a for a, b in zip(times, times[1:])):
        out.append(("index-not-increasing", "results.time is not strictly increasing: %s" % times))
    elif times != want:
        out.append(("index-off-grid", "reported times %s, solved steps on the report grid %s (report_timestep %s, report_start %s)" % (times, want, rep, obs["report_start"])))
    if "node" in obs:
        for fam, keys, names in (("node", NODE_KEYS, obs["node_names"]), ("link", LINK_KEYS, obs["link_names"])):
            tabs = obs[fam]
            if sorted(tabs.keys()) != sorted(keys):
                out.append(("tables-missing", "%s tables %s" % (fam, sorted(tabs.keys()))))
            for k, df in tabs.items():
                if list(df.index) != list(times):
                    out.append(("index-not-shared", "%s[%s] index %s differs from results.time %s" % (fam, k, list(df.index), times)))
                    break
                cols = list(df.columns)
                if sorted(cols) != sorted(names) or len(set(cols)) != len(cols):
                    out.append(("columns", "%s[%s] columns are not exactly the %s names" % (fam, k, fam)))
                    break
                vals = np.asarray(df.values, dtype=float)
                if vals.size and not np.isfinite(vals).all():
                    bad = [(int(times[i]), cols[j]) for i, j in zip(*np.where(~np.isfinite(vals)))][:3]
                    out.append(("nonfinite-%s" % k, "%s[%s] contains non-finite numbers at %s" % (fam, k, bad)))
                    break
    # prefix: rows reported before the failure are those of the run without it
    if exp != "finished" and ref is not None and ref.get("time") is not None and "node" in obs and "node" in ref:
        n = len(times)
        if ref["time"][:n] != times:
            out.append(("prefix-times", "times reported before the failure %s are not a prefix of the reference run's %s" % (times, ref["time"])))
        else:
            for fam in ("node", "link"):
                for k, df in obs[fam].items():
                    a = np.asarray(df.values, dtype=float)
                    b = np.asarray(ref[fam][k].loc[:, list(df.columns)].values[:n], dtype=float)
                    # two runs of the SAME model differ by ~1e-14 (summation order inside the AML model is not reproducible
                    # from run to run), so "the same" is judged at the solver's own stopping bound; status is compared exactly
                    if a.shape != b.shape:
                        out.append(("prefix-values", "%s[%s] has %s rows before the failure, the reference run %s" % (fam, k, a.shape, b.shape)))
                        break
                    # "the same" = equal up to the noise of two converged Newton solves: residuals below TOL = 1e-6 (m3/s on the mass balances,
                    # m on the head-loss rows) bound flows to ~1e-6 m3/s, velocities to that divided by the pipe area (d >= 0.1 m: x 127),
                    # heads to the head-loss sensitivity; so: 1e-5 of the column's scale + an absolute floor per quantity.
                    # times, shapes and statuses are compared exactly.
                    floor = {"flowrate": 1e-5, "demand": 1e-5, "leak_demand": 1e-5, "velocity": 2e-3, "head": 1e-3, "pressure": 1e-3,
                             "setting": 1e-9, "status": 0.0}.get(k, 1e-5)
                    rtol = 1e-5
                    if case.get("solver") not in (None, "newton") and k != "status":
                        # the scipy solvers stop at their own, looser tolerance (newton_krylov f_tol ~ 6e-6 on the residual) and two runs of the
                        # same model differ by up to ~1e-4 relative in the flows: no value reference exists; index, shape and statuses are still exact
                        dev, bad_vals = 0.0, False
                    elif a.size:
                        scale = np.max(np.abs(b), axis=0, keepdims=True) if b.ndim == 2 else np.abs(b)
                        excess = np.abs(a - b) - (rtol * scale + floor)
                        dev = float(np.max(np.abs(a - b) / (1.0 + np.abs(b))))
                        bad_vals = bool(np.any(excess > 0)) or not np.isfinite(a - b).all()
                    else:
                        dev, bad_vals = 0.0, False
                    PREFIX_DEV[0] = max(PREFIX_DEV[0], dev)
                    if (k == "status" and not np.array_equal(a, b)) or bad_vals:
                        out.append(("prefix-values", "%s[%s] rows reported before the failure differ from the reference run (max rel. deviation %.3g)" % (fam, k, dev)))
                        break
    return out


# ----------------------------------------------------------------------------- NewtonSolver.solve: oracle, model line, float replay

_NEWTON_MSGS = [("No variables or constraints", "noVars"), ("Solved Successfully", "solved"), ("Time limit exceeded", "timeLimit"),
                ("Jacobian is singular", "singular"), ("Line search failed", "lineSearch"), ("Reached maximum number of iterations", "maxIter")]


def newton_msg(text):
    for needle, name in _NEWTON_MSGS:
        if text.startswith(needle):
            return name
    return None


def newton_line(rec):
    from fractions import Fraction

    o = rec["opts"]
    norms = ",".join("nan" if (v is None or v != v or v in (float("inf"), float("-inf"))) else vlib.frac_str(v) for v in rec["norms"]) or "-"
    lin = "".join("1" if b else "0" for b in rec["lin"]) or "-"
    return "newton %d %s %s %d %d %d %s %d %s %s %s" % (
        o["maxiter"], vlib.frac_str(o["tol"]), vlib.frac_str(o["rho"]), o["bt_maxiter"], 1 if o["bt"] else 0, o["bt_start_iter"],
        vlib.frac_str(0.0001), 1 if rec["empty"] else 0, "0" if o.get("time_limit", 1) == 0 else "-", norms, lin)


def newton_float_replay(rec):
    """the same algorithm in double arithmetic on the observed norms (used only to tell a rounding-borderline decision from a
    real disagreement when the exact-rational model and the code differ)"""
    o = rec["opts"]
    norms, lin = rec["norms"], rec["lin"]
    if rec["empty"]:
        return ("converged", "noVars", 0, 0)
    ne = 0
    use_r = False
    new_norm = None

    def get(i):
        v = norms[i] if i < len(norms) else None
        return float("nan") if v is None else v

    k = -1
    for k in range(o["maxiter"]):
        if o.get("time_limit", 1) == 0:
            return ("error", "timeLimit", k, ne)
        if use_r:
            r_norm = new_norm
        else:
            r_norm = get(ne)
            ne += 1
        if r_norm < o["tol"]:
            return ("converged", "solved", k, ne)
        if k < len(lin) and not lin[k]:
            return ("error", "singular", k, ne)
        alpha = 1.0
        if o["bt"] and k >= o["bt_start_iter"]:
            use_r = True
            it = None
            for it in range(o["bt_maxiter"]):
                new_norm = get(ne)
                ne += 1
                if new_norm < (1.0 - 0.0001 * alpha) * r_norm:
                    break
                alpha = alpha * o["rho"]
            if it is None:
                if ZERO_SAFE[0]:
                    return ("error", "lineSearch", k, ne)
                return ("crash", "-", 0, ne)
            if it + 1 >= o["bt_maxiter"]:
                return ("error", "lineSearch", k, ne)
    if k < 0:
        return ("error", "maxIter", 0, ne) if ZERO_SAFE[0] else ("crash", "-", 0, ne)
    return ("error", "maxIter", k, ne)


def judge_newton(rec):
    """statement-level oracle on one real NewtonSolver.solve call -> list of (key, what)"""
    out = []
    bad = [k for k in rec["opts"] if rec["effective"].get(k) != rec["opts"][k]]
    if bad:
        out.append(("newton-option-not-honoured",
                    "NewtonSolver was given options %s but runs with %s (asked %s)" % (
                        rec["asked_keys"], {k: rec["effective"][k] for k in bad}, {k: rec["opts"][k] for k in bad})))
    if "ret" not in rec:
        return out  # an exception inside solve surfaces through run_sim and is judged there
    st, text, it = rec["ret"]
    msg = newton_msg(text)
    if st == 1:
        if not rec["empty"] and not (rec.get("final_norm", float("nan")) < rec["opts"]["tol"]):
            out.append(("newton-converged-large-residual",
                        "NewtonSolver.solve returned converged but max|r| re-evaluated on the model is %r (TOL %r)" % (rec.get("final_norm"), rec["opts"]["tol"])))
        if msg not in ("solved", "noVars"):
            out.append(("newton-converged-odd-message", "converged with message %r" % text))
    elif st == 0:
        if msg not in ("timeLimit", "singular", "lineSearch", "maxIter"):
            out.append(("newton-unreported-failure", "status error without a known message: %r" % text))
    else:
        out.append(("newton-unreported-failure", "status %r is neither converged nor error" % st))
    return out


# ----------------------------------------------------------------------------- EpanetSimulator: a run that did solve must not say it failed


def epanet_run(spec, report_start, conv_err):
    """EpanetSimulator.run_sim on a fresh model -> (status, n_rows, detail); status in clean | flagged | raised | other"""
    wntr = vlib.import_wntr()
    wn = gen_networks.build_wn(wntr, spec)
    wn.options.time.report_start = report_start
    d = os.path.join(vlib.BUILD, "c16_epanet")
    os.makedirs(d, exist_ok=True)
    prefix = os.path.join(d, "run%d" % os.getpid())
    with warnings.catch_warnings(record=True) as ws, _quiet_fds():
        warnings.simplefilter("always")
        try:
            r = wntr.sim.EpanetSimulator(wn).run_sim(file_prefix=prefix, convergence_error=conv_err)
        except RuntimeError as e:
            return ("raised" if "did not converge" in str(e) else "other"), 0, str(e)[:200]
        except Exception as e:  # noqa
            return "other", 0, "%s: %s" % (type(e).__name__, str(e)[:200])
        finally:
            for ext in (".inp", ".rpt", ".bin", ".hyd"):
                try:
                    os.remove(prefix + ext)
                except OSError:
                    pass
    msgs = [str(w.message) for w in ws if "did not converge" in str(w.message)]
    n = len(r.node["head"].index)
    if r.error_code is not None or msgs:
        return "flagged", n, "error_code=%s warnings=%s index=%s" % (r.error_code, msgs[:1], list(r.node["head"].index)[-2:])
    return "clean", n, ""


def epanet_oracle(ctx, specs_starts):
    """same hydraulics, only the report window differs: when the run with report_start = 0 is clean, the run with
    report_start > 0 must be clean as well (no 'did not converge' warning / error_code / RuntimeError)"""
    out = []
    for spec, rs in specs_starts:
        base, nb, _ = epanet_run(spec, 0, False)
        if base != "clean":
            ctx.count("epanet:baseline_" + base)
            continue
        for ce in (False, True):
            st, n, detail = epanet_run(spec, rs, ce)
            o = spec["options"]
            ctx.case(("epanet", json.dumps(gen_networks.spec_signature(spec), default=str), rs, ce), nontrivial=rs > 0)
            ctx.count("epanet:" + st)
            if st in ("flagged", "raised"):
                out.append(Failure("epanet-complete-run-flagged",
                                   "EpanetSimulator reports a failed step on a run that solved every step (report_start=%s, duration=%s, "
                                   "report_timestep=%s, convergence_error=%s): %s" % (rs, o["duration"], o["report_timestep"], ce, detail),
                                   {"engine": "epanet", "spec": spec, "report_start": rs, "conv_err": ce, "observed": detail}))
    return out


# ----------------------------------------------------------------------------- the check


class C16(Check):
    pid = "C16"
    level = "proof"
    prop_modules = ["WntrModel.Props.C16", "WntrModel.Props.C16Newton"]
    manifest = dict(
        category="proof",
        text="Lean theorems about the loop program that a Python-ast translator regenerates from run_sim on every run "
        "(Gen/RunLoopShape: ordered statements, each branch with its raise / error flag / break / continue, trial reset and increment, "
        "report-grid test, end test, early return): generated_shape_is_ref (decide) + stepS_ref/runSimS_ref (the interpreter on that "
        "program IS the model) carry every theorem to the generated program. For every world of controls/solvers (arbitrary functions "
        "of a hidden state) and every failing call: termination within (max(duration,t0)-prev0)*(max(trials,0)+1)+1 passes, fuelled = "
        "unbounded semantics (run_terminates, runs_deterministic); results.time strictly increasing = accepted steps filtered by the "
        "report grid, one node/link row per reported time, 'already solved' unreachable (times_strictly_increasing_on_grid); a failed "
        "solver phase / trial overflow leaves the loop in that pass with RuntimeError or error flag according to convergence_error and "
        "reports nothing (failure_stops_and_flags, trial_overflow_stops_and_flags, never_hidden); reported rows are a prefix of the run "
        "whose solver agrees on the earlier calls (failure_prefix); a completed run continued is a no-op with empty tables "
        "(continued_completed_noop); tables have exactly one column per element for every edit history (one_column_per_element, on the "
        "C14 registry invariant). The driver executes the interpretation of the generated program on the observed streams of every "
        "fault-injected run. NewtonSolver.solve (Model/Newton, Props/C16Newton): converged => the residual norm at the state the model is "
        "left in is a number < TOL (newton_converged_implies_small_residual, newton_x_is_model_state), <= MAXITER*(BT_MAXITER+1) residual "
        "evaluations (newton_terminates), every other exit is status error with one of four messages unless MAXITER/BT_MAXITER = 0 "
        "(newton_failure_is_reported, newton_crash_only_with_zero_limits), _solver_helper passes that on faithfully (helper_newton_faithful, "
        "run_sim_accepts_only_small_residuals); the solve skeleton is regenerated from solvers.py (generated_newton_shape_is_ref) and every "
        "real solve call of the run is replayed through NewtonDriver and its residual re-evaluated.",
        design_ref="DESIGN.md §5 C16",
        note="modelled, not verified: the inside of _compute_next_timestep_and_run_presolve_controls_and_rules (an oracle with the contract "
        "prev < t' <= cur; DISCHARGED for time conditions and rules by plugging the C04 scheduler model into the loop "
        "(sched_world_contract, run_terminates_time_conditions); for tank-level conditions checked on every observed call; "
        "contract_needed shows run_sim relies on it), NewtonSolver/scipy (status class only), the world calls inside the loop (feasibility controls, graph / model "
        "updates, store_results_in_network: positions recorded in the generated program, effect inside the oracles), pandas; oracle only: "
        "finite numbers and prefix VALUES (1e-6 relative, WNTR runs are not bit-reproducible) on the real tables; Newton: the model "
        "compares in exact rationals, the code in doubles (borderline comparisons are counted, not judged); the tie between the Newton "
        "reference skeleton and the Lean function `solve` is by transliteration + replay, not by an interpreter as for run_sim",
        technique="Lean 4 proof over a loop program regenerated from the source by an ast translator + fault-injection differential run (substituted _solver_helper, spsolve) "
        "against the Lean driver + statement oracle on the real tables",
    )
    rule = (
        "cases = (network spec with controls, fault plan {solver call k: kind}, backup solver, convergence_error); for every spec the clean "
        "run is observed, then call k is failed for EVERY k below the clean run's number of solver calls (quick: every k, kinds/backup/"
        "convergence_error sampled; thorough: all combinations), plus trial-limit specs (for-ever flipping post-solve pair, trials 0..3) and "
        "odd option sets. distinct = distinct (spec signature, plan, backup, conv_err); non-trivial = the run made >= 2 solver calls and "
        "(a fault was hit, or a partial step / re-solve occurred)"
    )
    trusted_base = [
        "harness/props/c16.py instrumentation (wrapping _solver_helper, spsolve, changes_made, save_results, the presolve method) reports what it observes",
        "the presolve contract prev < t' <= cur is an assumption of the termination / index theorems; it is checked on every observed call",
        "numpy / pandas containers; scipy.sparse.linalg.spsolve; NewtonSolver internals (only the status class is modelled)",
    ]
    assumptions = [
        "times are integral seconds (checked on every observed clock value)",
        "hydraulic_timestep >= 1 (TimeOptions clamps it); report_timestep is a positive integer or 'ALL'",
    ]

    def translate(self, ctx):
        fields, body = shape_from_source(os.path.join(vlib.REPO, "wntr", "sim", "core.py"))
        ctx.cov["shape_statements"] = body.count(".act") + body.count(".ite") + body.count(".raise") + body.count(".brk") + body.count(".cont")
        clamp = clamp_shape_from_source(os.path.join(vlib.REPO, "wntr", "sim", "core.py"))
        vlib.write_if_changed(os.path.join(vlib.GEN, "RunLoopShape.lean"),
                              gen_shape_lean(fields, body, clamp, setup_reads_options_only(os.path.join(vlib.REPO, "wntr", "sim", "core.py"))))
        defaults, nbody = newton_shape_from_source(os.path.join(vlib.REPO, "wntr", "sim", "solvers.py"))
        hshape = helper_shape_from_source(os.path.join(vlib.REPO, "wntr", "sim", "core.py"))
        vlib.write_if_changed(os.path.join(vlib.GEN, "NewtonShape.lean"), gen_newton_lean(defaults, nbody, hshape))

    # -- one group of cases for a spec ------------------------------------------------------
    def cases_for(self, ctx, spec, exhaustive):
        """returns (clean_obs, list of case dicts)"""
        rng = ctx.rng
        clean = observe_run(spec, None, None, False, max_calls=self.bound(spec))
        n = len(clean["outs"])
        cases = [{"spec": spec, "plan": {}, "backup": None, "conv_err": False, "kind": "clean"}]
        if rng.random() < 0.5:
            cases.append({"spec": spec, "plan": {}, "backup": "newton", "conv_err": True, "kind": "clean"})
        if rng.random() < 0.3:  # a scipy solver as the primary solver (documented: "NewtonSolver or Scipy solver")
            cases.append({"spec": spec, "plan": ({rng.randrange(max(n, 1)): "fake"} if rng.random() < 0.5 else {}), "backup": None,
                          "conv_err": rng.random() < 0.5, "kind": "fsolve-primary", "solver": "fsolve"})
        if len(spec["nodes"]) <= 5 and rng.random() < (0.5 if ctx.quick else 0.8):
            # the REAL _solver_helper with scipy nonlinear solvers, as primary and as backup, with faults one level lower
            name = rng.choice(SCIPY_NONLIN + ["fsolve"])
            k = rng.randrange(max(n, 1))
            low = rng.choice(LOW_KINDS)
            cases.append({"spec": spec, "plan": {k: low}, "backup": None, "conv_err": rng.random() < 0.5, "kind": low + "-primary", "solver": name})
            cases.append({"spec": spec, "plan": {k: "fake", k + 1: low}, "backup": name, "conv_err": rng.random() < 0.5, "kind": low + "-backup"})
            cases.append({"spec": spec, "plan": {}, "backup": None, "conv_err": False, "kind": "scipy-primary", "solver": rng.choice(SCIPY_NONLIN)})
            cases.append({"spec": spec, "plan": {k: "maxiter"}, "backup": rng.choice(SCIPY_NONLIN), "conv_err": rng.random() < 0.5, "kind": "scipy-backup"})
        ks = list(range(n))
        if ctx.quick and n > 60:
            ks = sorted(rng.sample(ks, 3))  # a run with hundreds of solves (status iteration that keeps flipping): keep the quick tier quick
        elif not exhaustive and len(ks) > 8:
            ks = sorted(rng.sample(ks, 8))
        for k in ks:
            if exhaustive:
                combos = [(kind, bk, ce) for kind in FAULT_KINDS for bk in (None, "newton") for ce in (False, True)]
                combos.append((rng.choice(FAULT_KINDS), "fsolve", rng.random() < 0.5))
            else:
                combos = [(rng.choice(FAULT_KINDS), rng.choice([None, None, "newton", "newton", "fsolve"]), rng.random() < 0.5)]
                if rng.random() < 0.3:
                    combos.append((rng.choice(FAULT_KINDS), "newton", rng.random() < 0.5))
            for kind, bk, ce in combos:
                plan = {k: kind}
                if bk is not None and rng.random() < 0.6:
                    plan[k + 1] = rng.choice(FAULT_KINDS)  # the backup call fails too
                cases.append({"spec": spec, "plan": plan, "backup": bk, "conv_err": ce, "kind": kind})
        return clean, cases

    def bound(self, spec):
        """cap on the number of solver calls of one run: the proved pass bound (Props/C16 `fuel_fresh`) x 2 calls per pass,
        but never more than 20000 (a practical guard: the generated runs have <= 6 hydraulic steps)"""
        o = spec["options"]
        return min(20000, 2 * ((int(o["duration"]) + 1) * (max(int(o.get("trials", 200)), 0) + 1) + 1))

    def run_cases(self, ctx, groups):
        """groups: list of (clean_obs, cases).  Observes every case, asks the Lean model, judges.  -> failures, broken"""
        failures, broken = [], []
        lines, metas = [], []
        nlines, nrecs = [], []
        for clean, cases in groups:
            refs = {}
            for case in cases:
                spec = case["spec"]
                obs = observe_run(spec, case["plan"], case["backup"], case["conv_err"], max_calls=self.bound(spec),
                                  solver=case.get("solver"))
                exp = expected_status(obs)
                ref = None
                if exp != "finished":
                    # reference = same plan without the faults of the failing step (solve' agrees on the earlier calls)
                    last_first = len(obs["outs"]) - 1
                    if obs["backup"] is not None and last_first >= 1 and obs["outs"][last_first - 1] != "c" and exp.endswith("NoConv"):
                        last_first -= 1
                    if exp.endswith("Trials"):
                        keep = dict(case["plan"])
                    else:
                        keep = {k: v for k, v in case["plan"].items() if int(k) < last_first}
                    clean_ok = all(x == "c" for x in clean["outs"])  # else a backup solver changes what the fault-free run does
                    rk = json.dumps([sorted(keep.items()), case["backup"] if (keep or not clean_ok) else None, case.get("solver")])
                    if not keep and not case.get("solver") and (clean_ok or case["backup"] is None):
                        ref = clean
                    else:
                        if rk not in refs:
                            refs[rk] = observe_run(spec, keep, case["backup"], False, max_calls=self.bound(spec), solver=case.get("solver"))
                        ref = refs[rk]
                    if exp.endswith("Trials"):
                        ref = None  # the reference run of a trial overflow is the same run: nothing to compare
                    elif ref is not None and ref["outs"][:max(last_first, 0)] != obs["outs"][:max(last_first, 0)]:
                        # the real scipy solvers (anderson, ...) do not converge reproducibly from run to run on ill-conditioned
                        # steps: a reference whose solver did not answer alike on the earlier calls is no reference (statement:
                        # "a solve' that agrees on the first k-1 calls")
                        ctx.count("reference_run_not_reproducible")
                        ref = None
                verdicts = judge(case, obs, ref)
                sig = (json.dumps(gen_networks.spec_signature(spec), default=str), json.dumps(spec.get("c16_controls", []), sort_keys=True),
                       json.dumps(sorted(case["plan"].items())), case["backup"], case["conv_err"],
                       spec.get("c16_report_start"), spec.get("c16_restart"), json.dumps(spec.get("c16_reuse"), sort_keys=True))
                partial = any(p[3] != p[0] for p in obs["pres"])
                resolves = any(obs["posts"])
                nontriv = len(obs["outs"]) >= 2 and (bool(obs["kinds_hit"]) or partial or resolves)
                ctx.case(sig, nontrivial=nontriv)
                ctx.count("status:" + str(status_of(obs)))
                for kd in obs["kinds_hit"]:
                    ctx.count("fault:" + kd)
                for o in obs["outs"]:
                    ctx.count("outcome:" + o)
                ctx.count("backup:" + str(case["backup"]))
                ctx.count("solver:" + str(case.get("solver") or "newton"))
                ctx.count("conv_err:" + str(case["conv_err"]))
                for c in spec.get("c16_controls", []):
                    if c["kind"] == "arbback":
                        ctx.count("arbitrary_backtrack:" + c["mode"])
                        if any((p[0] - p[1]) < obs["hyd"] and not p[2] for p in obs["pres"]):
                            ctx.count("arbitrary_backtrack_with_short_step")
                if partial:
                    ctx.count("runs_with_partial_step")
                if resolves:
                    ctx.count("runs_with_resolve")
                if spec.get("c16_reuse") is not None:
                    ctx.count("same_simulator_two_runs:" + spec["c16_reuse"]["mode"])
                if spec.get("c16_restart") is not None:
                    ctx.count("continued_runs")
                    if obs["t0"][0] > obs["duration"]:
                        ctx.count("continued_completed_noop")
                    elif obs["kinds_hit"]:
                        ctx.count("continued_with_fault_hit")
                if obs["report_start"] > 0:
                    ctx.count("report_start:" + ("beyond_duration" if obs["report_start"] > obs["duration"] else
                                                 "on_hyd_grid" if obs["report_start"] % obs["hyd"] == 0 else "off_hyd_grid"))
                if isinstance(obs["report"], str):
                    ctx.count("report:ALL")
                elif obs["report"] != obs["hyd"]:
                    ctx.count("report:coarser")
                replay = {"spec": spec, "plan": case["plan"], "backup": case["backup"], "conv_err": case["conv_err"], "kind": case["kind"],
                          "solver": case.get("solver"),
                          "observed": {"status": status_of(obs), "expected": exp, "outs": "".join(obs["outs"]),
                                       "posts": "".join("1" if b else "0" for b in obs["posts"]),
                                       "pres": [list(map(float, p[:2])) + [p[2], float(p[3])] for p in obs["pres"]],
                                       "time": obs.get("time"), "exc": obs["exc"], "warnings": obs["warnings"][:4]}}
                for key, what in verdicts:
                    failures.append(Failure(key, what, replay))
                replay["_judged"] = [k for k, _ in verdicts]
                for rec in obs["newton"]:
                    ctx.count("newton_solve_calls")
                    for key, what in judge_newton(rec):
                        failures.append(Failure(key, what, dict(replay, newton={"opts": rec["opts"], "ret": rec.get("ret"), "norms": rec["norms"][:50]})))
                    if "ret" in rec and len(rec["norms"]) > (600 if ctx.quick else 40000):
                        ctx.count("newton_long_traces_not_replayed")  # thousands of exact rationals per line: oracle only
                    elif "ret" in rec and len(nlines) < (4000 if ctx.quick else 20000):
                        nlines.append(newton_line(rec))
                        nrecs.append((rec, replay))
                if len(ctx.samples) < 4 and (obs["kinds_hit"] or partial) and ctx.rng.random() < 0.2:
                    ctx.sample({"controls": spec.get("c16_controls"), "options": spec["options"], "plan": case["plan"],
                                "backup": case["backup"], "conv_err": case["conv_err"], "observed": replay["observed"]})
                if obs.get("leg1"):
                    ctx.count("first_leg_raised")
                    continue
                if obs["exc"] is not None and (obs["exc"][0] == "Runaway" or status_of(obs) is None):
                    continue  # an exception the model has no name for is already a Failure above; nothing to compare
                if not integral_times(obs):
                    broken.append(Broken("correspondence", "integral clock", "non-integral clock value observed: %s" % obs["pres"][:6]))
                    continue
                lines.append(model_line(obs))
                metas.append((case, obs, replay))
        if lines:
            out = vlib.lean_run(DRIVER, "\n".join(lines) + "\n")
            if len(out) != len(lines):
                raise vlib.Infra("driver returned %d lines for %d requests" % (len(out), len(lines)))
            for line, ans, (case, obs, replay) in zip(lines, out, metas):
                if ans.startswith("bad-op"):
                    raise vlib.Infra("driver rejected: " + line)
                m = parse_model(ans)
                got = status_of(obs)
                diffs = []
                if m["halt"] != got:
                    diffs.append("status model=%s code=%s" % (m["halt"], got))
                if obs["exc"] is None:
                    real_times = [int(t) for t in obs["time"]]
                else:  # raised: results.time is lost with the frame; one entry per save_results call, the last one missing
                    real_times = [int(t) for t in obs["save_times"]]  # when 'already solved' was raised after the save
                    if got == "raiseAlreadySolved":
                        real_times = real_times[:-1]
                if m["times"] != real_times:
                    diffs.append("times model=%s code=%s" % (m["times"], real_times))
                if m["rows"] != obs["rows"]:
                    diffs.append("rows model=%s code=%s" % (m["rows"], obs["rows"]))
                if m["nsolve"] != len(obs["outs"]):
                    diffs.append("solver calls model=%d code=%d" % (m["nsolve"], len(obs["outs"])))
                if m["left"] != "0,0,0" or m["starved"] != "0":
                    diffs.append("streams not consumed exactly: left=%s starved=%s" % (m["left"], m["starved"]))
                if m["fuel"] != "ok":
                    diffs.append("fuel capped")
                if m.get("interp") != "same":
                    diffs.append("the interpretation of the generated loop program differs from the hand-written step")
                if diffs:
                    ctx.count("model_disagreements")
                    broken.append(Broken("correspondence", "RunLoopDriver vs run_sim", "; ".join(diffs) + "\n" + line + "\n" + ans))
                if m["contract"] != "ok" and "tank-backtrack-whole-step" in replay.get("_judged", []):
                    ctx.count("contract_breach_explained_by_failure")  # the breach IS the concrete failure reported for this run
                elif m["contract"] != "ok":
                    ctx.count("contract_breach")
                    broken.append(Broken("correspondence", "presolve contract", "a presolve call left (prev, cur]: %s\n%s\n%s"
                                         % (m["contract"], line, json.dumps(replay["observed"]["pres"]))))
                else:
                    ctx.count("contract_checked_calls", len(obs["pres"]))
        if nlines:
            out = vlib.lean_run(NEWTON_DRIVER, "\n".join(nlines) + "\n")
            if len(out) != len(nlines):
                raise vlib.Infra("Newton driver returned %d lines for %d requests" % (len(out), len(nlines)))
            for line, ans, (rec, replay) in zip(nlines, out, nrecs):
                if ans.startswith("bad-op"):
                    raise vlib.Infra("Newton driver rejected: " + line[:300])
                parts = ans.split()
                st, text, it = rec["ret"]
                real = ("converged" if st == 1 else "error", newton_msg(text), it, len(rec["norms"]))
                model = (parts[0], parts[1], int(parts[2]), int(parts[3].split("=")[1]))
                ctx.count("newton:" + real[0] + ":" + str(real[1]))
                if len(rec["norms"]) >= 3:
                    ctx.case(("newton", tuple(rec["norms"][:6]), json.dumps(rec["opts"], sort_keys=True)), nontrivial=True)
                if model != real:
                    if newton_float_replay(rec) == real:
                        ctx.count("newton_rounding_borderline")  # exact rationals and doubles decide a borderline comparison differently
                        continue
                    ctx.count("newton_model_disagreements")
                    broken.append(Broken("correspondence", "NewtonDriver vs NewtonSolver.solve",
                                         "model=%s code=%s\n%s" % (model, real, line[:600])))
                elif parts[6] != "interp=same":
                    broken.append(Broken("correspondence", "NewtonDriver interpreter", "the interpretation of the generated solve program differs "
                                         "from the hand-written solve\n" + ans + "\n" + line[:600]))
                elif parts[0] == "converged" and parts[5] == "small=no":
                    broken.append(Broken("correspondence", "NewtonDriver small residual", ans + "\n" + line[:600]))
        return failures, broken

    def correspondence(self, ctx):
        rng = ctx.rng
        groups = []
        # corpus first
        for fn, item in vlib.corpus_items("C16"):
            if item.get("engine") == "epanet":
                continue
            spec = item["spec"]
            clean = observe_run(spec, None, None, False, max_calls=self.bound(spec))
            case = {"spec": spec, "plan": item.get("plan", {}), "backup": item.get("backup"), "conv_err": item.get("conv_err", False),
                    "kind": item.get("kind", "corpus"), "solver": item.get("solver")}
            groups.append((clean, [case]))
            ctx.count("corpus")
        nspec = 15 if ctx.quick else 100
        for i in range(nspec):
            spec = random_spec(rng, ctx.quick)
            groups.append(self.cases_for(ctx, spec, exhaustive=(not ctx.quick and i % 4 == 0)))
        for i in range(6 if ctx.quick else 30):
            spec = random_spec(rng, ctx.quick, trial_flip=True)
            clean = observe_run(spec, None, None, False, max_calls=self.bound(spec))
            cases = [{"spec": spec, "plan": {}, "backup": bk, "conv_err": ce, "kind": "trial"}
                     for bk, ce in ((None, False), (None, True), ("newton", False))]
            groups.append((clean, cases))
        for i in range(5 if ctx.quick else 25):
            spec = random_spec(rng, ctx.quick, odd_options=True)
            groups.append(self.cases_for(ctx, spec, exhaustive=False))
        fs, bs = self.run_cases(ctx, groups)
        ctx.cov["prefix_max_rel_deviation"] = PREFIX_DEV[0]
        # EpanetSimulator with a report window that does not start at 0
        es = []
        for fn, item in vlib.corpus_items("C16"):
            if item.get("engine") == "epanet":
                es.append((item["spec"], item["report_start"]))
        for i in range(3 if ctx.quick else 12):
            spec = gen_networks.random_network(rng, quick=True, force={"n_nodes": rng.choice([2, 3, 4, 6])})
            o = spec["options"]
            o["report_timestep"] = o["hydraulic_timestep"] * rng.choice([1, 1, 2]) if isinstance(o["report_timestep"], str) else o["report_timestep"]
            hyd, rep = o["hydraulic_timestep"], o["report_timestep"]
            es.append((spec, rng.choice([hyd // 2, rep // 2, rep, hyd + 7, rep + hyd // 3, o["duration"] - 1])))
        fs += epanet_oracle(ctx, es)
        return fs, bs

    def search(self, ctx, broken):
        """wider failing-input search with the same oracle (more specs, every k, all kinds)"""
        rng = ctx.rng
        groups = []
        for i in range(12 if ctx.quick else 30):
            spec = random_spec(rng, True, trial_flip=(i % 4 == 3), odd_options=(i % 5 == 4))
            groups.append(self.cases_for(ctx, spec, exhaustive=(i % 3 == 0)))
        fs, _ = self.run_cases(ctx, groups)
        return fs

    def replay(self, ctx, path):
        r = json.load(open(path if os.path.isabs(path) else os.path.join(vlib.VERIF, path)))
        rp = r.get("replay", r)
        if rp.get("engine") == "epanet":
            fs = epanet_oracle(ctx, [(rp["spec"], rp["report_start"])])
            for f in fs:
                print("  oracle: %s: %s" % (f.key, f.what[:300]))
            print("replay: %s" % ("REPRODUCED " + fs[0].what[:300] if fs else "not reproduced on the current tree"))
            return 1 if fs else 0
        spec = rp["spec"]
        clean = observe_run(spec, None, None, False, max_calls=self.bound(spec))
        case = {"spec": spec, "plan": rp.get("plan", {}), "backup": rp.get("backup"), "conv_err": rp.get("conv_err", False),
                "kind": rp.get("kind", "replay"), "solver": rp.get("solver")}
        fs, bs = self.run_cases(ctx, [(clean, [case])])
        want = r.get("key")
        hit = [f for f in fs if want is None or f.key == want]
        for f in fs:
            print("  oracle: %s: %s" % (f.key, f.what[:300]))
        for b in bs:
            print("  broken: %s %s: %s" % (b.kind, b.name, b.detail[:300]))
        print("replay: %s" % ("REPRODUCED " + hit[0].what[:300] if hit else "not reproduced on the current tree"))
        return 1 if hit else 0


if __name__ == "__main__":
    vlib.run_check(C16)
