"""C04 -- time-based controls and rules act exactly at their configured instants.

Model: lean/WntrModel/Model/Time.lean (M4: SimTimeCondition / TimeOfDayCondition / clock strings) and
Model/Sched.lean (M5: the presolve scheduler of run_sim, rule grid, priorities, partial steps).
Theorems: Lemmas/Time.lean + Props/C04.lean.  Tie: correspondence (hand-written model vs the real
`evaluate()` methods and the real WNTRSimulator on random schedules) + an independent instants oracle.
"""
import json
import os
import sys

sys.path.insert(0, os.path.dirname(os.path.dirname(os.path.abspath(__file__))))
import vlib
from vlib import Broken, Failure, Check
import schedgen


class _StubTime:
    pass


class _StubModel:
    """just enough of WaterNetworkModel for the time conditions"""

    def __init__(self, sim_time, prev, start_clock):
        self.sim_time = sim_time
        self._prev_sim_time = prev
        self.options = _StubTime()
        self.options.time = _StubTime()
        self.options.time.start_clocktime = start_clock

    @property
    def _shifted_time(self):
        return self.sim_time + self.options.time.start_clocktime

    @property
    def _prev_shifted_time(self):
        return self._prev_sim_time + self.options.time.start_clocktime


def spec_timeline(sched, times):
    """Independent statement of the property for SIMPLE time controls with `=` conditions only:
    value of target k at accepted time t = action of the control whose latest instant <= t is the latest;
    ties at the same instant: highest priority, then later registration. Returns {t: {k: v}} and the
    set of effective instants (where some value changes) up to the duration."""
    hyd, _ = schedgen.eff_steps(sched)
    sc = sched["start_clock"]
    dur = sched["duration"]
    events = []  # (instant, prio, regidx, key, value)
    for idx, ctl in enumerate(sched["controls"]):
        c = ctl["cond"]
        k, v = ctl["then"][0]
        if c[0] == "sim":
            _, rel, thr, rep = c
            ins = []
            if rep:
                t = thr
                while t <= dur + hyd:
                    ins.append(t)
                    t += rep
            else:
                ins = [thr]
        else:
            _, rel, thr, rep, fd = c
            if not rep and thr < sc and fd < 1:
                fd = 1
            ins = []
            if rep:
                d = fd
                while thr + 86400 * d - sc <= dur + hyd:
                    ins.append(thr + 86400 * d - sc)
                    d += 1
            else:
                ins = [thr + 86400 * fd - sc]
        for t in ins:
            # the first step never backtracks: an instant before the start (t < 0) is never seen;
            # instant 0 is seen by the first step (prev = -1)
            if t >= 0:
                events.append((t, ctl["prio"], idx, k, v))
    events.sort()
    return events


class C04(Check):
    pid = "C04"
    level = "proof"
    prop_modules = ["WntrModel.Props.C04"]
    manifest = dict(
        category="proof",
        text="Lean theorems over hand-written models of the time conditions (M4) and the pre-solve scheduler of run_sim (M5): "
        "`=` conditions fire exactly when an instant lies in (prev, cur] and backtrack onto it (one-shot, repeating, daily clock time, "
        "first_day, start_clocktime), range conditions are true exactly on their interval, every reported backtrack is inside the step, "
        "clock strings round-trip, the scheduler lands on the earliest due instant, equal-instant controls are applied in ascending "
        "priority so the highest wins, rules are evaluated only on positive multiples of the rule step. The models are tied to the code by "
        "differential runs of the real evaluate() methods and of the real WNTRSimulator on random schedules, plus an independent "
        "instants oracle on the simulator's own timeline.",
        design_ref="DESIGN.md §5 C04",
        note="trusted: Lean kernel, axioms {propext, Classical.choice, Quot.sound}; the correspondence harness; times are integer seconds "
        "(the code computes in floats on integral values); the hydraulic solve is irrelevant to this property and is not modelled Controls configured as INP TEXT (AT TIME / AT CLOCKTIME in every documented spelling: decimal hours, h:mm, h:mm:ss, 24-hour without marker, AM / PM, the noon and midnight hours) are read by the real INP reader and must act at the instant an independent reading of the text names (simulation oracle, keys inp-control-text-*).",
        technique="Lean 4 proof over hand-written scheduler/time-condition model + differential run against WNTRSimulator + instants oracle",
    )
    rule = (
        "cases: (a) single condition evaluations (relation, threshold, repeat/first_day, start_clocktime, prev, cur) real evaluate() vs Lean; "
        "(b) whole schedules (1-6 time/clock controls and rules, thresholds on/off the hydraulic and rule grids, priorities, random steps, "
        "duration, start_clocktime) real WNTRSimulator timeline vs Lean Sched.runSim; distinct = distinct generated case; "
        "non-trivial = condition evaluates near its threshold (a) / schedule in which at least one control changes a value (b)"
    )
    trusted_base = [
        "correspondence harness harness/props/c04.py + harness/schedgen.py (schedule generator, wntr model builder, driver protocol)",
        "hand-written Lean models Model/Time.lean, Model/Sched.lean (tied by the differential runs of this check)",
    ]
    assumptions = [
        "times and thresholds are integral seconds",
        "on the generated network every hydraulic solve converges and no post-solve control changes a status (plain pipes, one reservoir)",
    ]

    # ------------------------------------------------------------------ translator
    def translate(self, ctx):
        """Gen/TimeConds.lean (bodies of the two evaluate() methods) and Gen/PresolveShape.lean (statement tree of the pre-solve
        scheduler) regenerated from the current source; Props/C04 proves they ARE the hand-written models"""
        import c04_translate

        c04_translate.write_all()

    # ------------------------------------------------------------------ level (a): conditions
    def _cond_cases(self, ctx, n):
        rng = ctx.rng
        cases = []
        for _ in range(n):
            kind = rng.choice(["sim", "tod"])
            rel = rng.choice(["gt", "ge", "lt", "le", "eq"])
            hyd = rng.choice([60, 900, 3600, 7200, 100000])
            cur = rng.choice([0, rng.randint(0, 4 * 86400)])
            prev = -1 if cur == 0 else max(-1, cur - rng.choice([1, hyd, rng.randint(1, hyd)]))
            if kind == "sim":
                rep = rng.choice([0, 0, 86400, 43200, 3600 * 6, 5000])
                thr = rng.choice([cur, prev, cur - rng.randint(0, 100), cur + rng.randint(0, 100), rng.randint(0, 2 * 86400),
                                  (cur % rep) if rep else cur, 0])
                thr = max(0, thr)
                cases.append(("sim", rel, thr, rep, 0, prev, cur, 0))
            else:
                sc = rng.choice([0, 0, rng.randint(0, 86399), 3600 * rng.randint(0, 23)])
                rep = rng.choice([1, 1, 1, 0])
                fd = rng.choice([0, 0, 1, 2])
                tod = (cur + sc) % 86400
                thr = rng.choice([tod, (tod + rng.randint(-100, 100)) % 86400, rng.randint(0, 86399), 0, 43200, (prev + sc) % 86400])
                cases.append(("tod", rel, thr, rep, fd, prev, cur, sc))
        return cases

    def _run_conditions(self, ctx, failures, broken):
        wntr = vlib.import_wntr()
        from wntr.network.controls import SimTimeCondition, TimeOfDayCondition

        n = 1500 if ctx.quick else 15000
        cases = self._cond_cases(ctx, n)
        lines = []
        impl = []
        for (kind, rel, thr, rep, fd, prev, cur, sc) in cases:
            m = _StubModel(cur, prev, sc)
            if kind == "sim":
                tk, rk = ctx.rng.choice(schedgen.THR_KINDS), ctx.rng.choice(schedgen.REP_KINDS)
                ctx.count("cond-arg-types:thr=%s" % tk)
                if rep:
                    ctx.count("cond-arg-types:repeat=%s" % rk)
                c = SimTimeCondition(m, schedgen.REL_PY[rel], schedgen.typed_threshold(thr, tk), repeat=schedgen.typed_repeat(rep, rk))
                lines.append("eval sim %s %d %d %d %d" % (rel, thr, rep, prev, cur))
            else:
                tk = ctx.rng.choice(schedgen.THR_KINDS)
                ctx.count("cond-arg-types:tod-thr=%s" % tk)
                c = TimeOfDayCondition(m, schedgen.REL_PY[rel], schedgen.typed_threshold(thr, tk), repeat=bool(rep), first_day=fd)
                lines.append("eval tod %s %d %d %d %d %d %d" % (rel, thr, rep, c._first_day, prev, cur, sc))
            v = bool(c.evaluate())
            b = c.backtrack
            impl.append("%s %s" % ("T" if v else "F", "none" if b is None else str(int(b))))
        # clock strings
        clock_cases = [ctx.rng.randint(0, 86399) for _ in range(300)] + [0, 43200, 45000, 1800, 86399, 3600 * 12 - 1, 3600 * 13]
        from wntr.network.controls import ControlCondition

        for s in clock_cases:
            txt = ControlCondition._sec_to_clock(s)
            lines.append("clock fmt %d" % s)
            h, mm, ss = txt.split()[0].split(":")
            impl.append("%d %d %d %s" % (int(h), int(mm), int(ss), txt.split()[1]))
            back = ControlCondition._parse_value(txt)
            lines.append("clock parse %d %d %d %d" % (int(h), int(mm), int(ss), 2 if txt.split()[1] == "PM" else 1))
            impl.append(str(int(back)))
            # the property itself on the implementation: parse(format(s)) == s
            ctx.case(("clock", s), True)
            if int(back) != s:
                failures.append(Failure("clock-string-roundtrip", "_parse_value(_sec_to_clock(%d)) = %r ('%s')" % (s, back, txt),
                                        {"seconds": s, "text": txt, "parsed": back}))
        out = vlib.lean_run("Drivers/SchedDriver.lean", "\n".join(lines) + "\n")
        if len(out) != len(lines):
            raise vlib.Infra("SchedDriver returned %d lines for %d requests" % (len(out), len(lines)))
        nd = 0
        for i, (req, a, b) in enumerate(zip(lines, impl, out)):
            if i < len(cases):
                c = cases[i]
                near = abs(c[6] - c[2]) <= 7200 or c[0] == "tod"
                ctx.case(("cond",) + c, near)
                ctx.count("cond:%s:%s" % (c[0], c[1]))
                ctx.count("cond-result:" + a.split()[0])
            if a != b:
                nd += 1
                if nd <= 5:
                    broken.append(Broken("correspondence", "Time.lean vs controls.py evaluate()", "request `%s`: implementation %s, model %s" % (req, a, b)))
        ctx.cov["condition_evaluations"] = len(cases)
        ctx.cov["condition_disagreements"] = nd
        # the condition-level property oracle on the implementation (independent of the Lean model):
        failures += self._cond_oracle(ctx, cases, impl)

    def _cond_oracle(self, ctx, cases, impl):
        """`=` fires iff an instant lies in (prev, cur], backtrack = cur - latest instant; backtrack always in [0, cur-prev)"""
        out = []
        for c, res in zip(cases, impl):
            kind, rel, thr, rep, fd, prev, cur, sc = c
            v, b = res.split()
            v = v == "T"
            if b != "none" and not (0 <= int(b) < cur - prev):
                out.append(Failure("backtrack-outside-step-%s-%s" % (kind, rel), "backtrack %s outside [0, cur-prev) for %r" % (b, c), {"case": c, "observed": res}))
                continue
            if rel != "eq":
                continue
            if kind == "sim":
                if rep:
                    ks = [thr + k * rep for k in range(0, (max(cur, 0) // rep) + 2)]
                else:
                    ks = [thr]
                inst = [t for t in ks if prev < t <= cur]
            else:
                p, q = prev + sc, cur + sc
                if not rep:
                    fd_eff = 1 if (thr < sc and fd < 1) else fd
                    ks = [thr + 86400 * fd_eff]
                else:
                    ks = [thr + 86400 * d for d in range(fd, q // 86400 + 2)]
                inst = [t for t in ks if p < t <= q]
                cur_s = q
            exp_v = len(inst) > 0
            if v != exp_v:
                out.append(Failure("eq-condition-instant-%s" % kind, "`=` %s condition: %r fired=%s but instants in (prev,cur] = %s" % (kind, c, v, inst), {"case": c, "observed": res, "instants": inst}))
            elif v:
                latest = max(inst)
                exp_b = (cur if kind == "sim" else cur + sc) - latest
                if int(b) != exp_b:
                    out.append(Failure("eq-condition-backtrack-%s" % kind, "`=` %s condition %r backtrack %s, expected %d" % (kind, c, b, exp_b), {"case": c, "observed": res, "expected_backtrack": exp_b}))
        return out

    # ------------------------------------------------------------------ level (b): schedules
    def _run_schedules(self, ctx, failures, broken, scheds, tag):
        wntr = vlib.import_wntr()
        lines = []
        metas = []
        for s in scheds:
            L = schedgen.driver_lines(schedgen.fix_tod_first_day(s))
            lines += L
            metas.append(len(L))
        out = vlib.lean_run("Drivers/SchedDriver.lean", "\n".join(lines) + "\n")
        # split driver output per schedule: each schedule ends with one `end` line
        per = []
        cur = []
        for l in out:
            cur.append(l)
            if l.startswith("end "):
                per.append(cur)
                cur = []
        if len(per) != len(scheds):
            raise vlib.Infra("SchedDriver returned %d runs for %d schedules" % (len(per), len(scheds)))
        nd = 0
        for s, o in zip(scheds, per):
            try:
                model_run = schedgen.parse_driver_runs([l for l in o if l.startswith(("row ", "end ")) or l == "bad-op"], 1)[0]
                model_rows, model_rule_times = model_run[0], model_run[2]
            except ValueError as e:
                raise vlib.Infra("driver output unparsable for %s: %s" % (json.dumps(s), e))
            wn = schedgen.build_wn(wntr, s)
            try:
                impl_rows, _ = schedgen.run_impl(wntr, wn)
                err = None
            except Exception as e:  # the simulator itself failed
                impl_rows, err = [], "%s: %s" % (type(e).__name__, e)
            changes = len(set(json.dumps(r[1], sort_keys=True) for r in impl_rows)) > 1
            ctx.case((tag, json.dumps(s, sort_keys=True)), changes)
            ctx.count("schedules:" + tag)
            for c in s["controls"]:
                ctx.count("ctl:%s:%s" % (c["kind"], c["cond"][0]))
            if err:
                failures.append(Failure("run_sim-raises-on-time-schedule", "run_sim raised on a time-control schedule: " + err, {"schedule": s, "error": err}))
                continue
            has_rules = any(c["kind"] == "R" for c in s["controls"])
            relaxed = has_rules and not schedgen.rule_window_repaired(wntr)
            if impl_rows != model_rows and relaxed:
                # the model follows the repaired rule window; on an unrepaired tree rule schedules may differ: that is the
                # known finding rule-eq-premise-missed (reported by _rule_eq_oracle), not a broken tie
                ctx.count("rule-schedule-differs-on-unrepaired-tree")
            elif impl_rows != model_rows:
                nd += 1
                k = next((i for i in range(min(len(impl_rows), len(model_rows))) if impl_rows[i] != model_rows[i]), min(len(impl_rows), len(model_rows)))
                if nd <= 3:
                    broken.append(Broken("correspondence", "Sched.lean vs WNTRSimulator timeline",
                                         "schedule %s\nfirst difference at row %d: implementation %s, model %s"
                                         % (json.dumps(s), k, impl_rows[k] if k < len(impl_rows) else None, model_rows[k] if k < len(model_rows) else None)))
            impl_rule_times = schedgen.RULE_TIMES[0] if schedgen.RULE_TIMES else []
            if has_rules and impl_rule_times != model_rule_times and not (relaxed and impl_rows != model_rows):
                nd += 1
                if nd <= 3:
                    broken.append(Broken("correspondence", "Sched.lean rule-evaluation times vs WNTRSimulator",
                                         "schedule %s\nimplementation evaluates rules at %s...\nmodel at %s..." % (json.dumps(s), impl_rule_times[:12], model_rule_times[:12])))
            if has_rules:
                # the property on the implementation: rules are evaluated on positive multiples of the rule step, each once, in order
                bad = [t for t in impl_rule_times if t <= 0 or t % s["rule"] != 0]
                dup = any(b <= a for a, b in zip(impl_rule_times, impl_rule_times[1:]))
                if bad or dup:
                    failures.append(Failure("rules-evaluated-off-positive-grid", "rules evaluated at %s (rule step %d): not the positive multiples, each once" % ((bad or impl_rule_times)[:8], s["rule"]),
                                            {"schedule": s, "rule_eval_times": impl_rule_times[:50]}))
            ctx.sample({"schedule": s, "timeline_head": impl_rows[:6]}, cap=3)
            failures += self._timeline_oracle(ctx, s, impl_rows)
        ctx.cov["schedule_disagreements_" + tag] = nd

    def _timeline_oracle(self, ctx, s, rows):
        """the property on the implementation's own timeline (needs report 'ALL' and only simple `=` controls)"""
        out = []
        hyd, rep = schedgen.eff_steps(s)
        times = [t for t, _ in rows]
        # well-formedness shared with C16: strictly increasing, within the duration
        if any(b <= a for a, b in zip(times, times[1:])):
            out.append(Failure("timeline-not-increasing", "reported times not strictly increasing: %s" % times[:20], {"schedule": s, "times": times}))
        # judged: the keys written by simple `=` time controls, provided every simple control is an `=` control (period not
        # shorter than the hydraulic step) and no rule writes one of those keys (theorems no_instant_skipped_general /
        # _clock / event_value: rules may add solved times, they cannot move or hide the instants of these controls)
        pcs = [c for c in s["controls"] if c["kind"] == "P"]
        pkeys = set(c["then"][0][0] for c in pcs)
        rkeys = set(a[0] for c in s["controls"] if c["kind"] == "R" for a in c["then"] + c["else"])
        only_simple_eq = bool(pcs) and all(c["cond"][1] == "eq" and (c["cond"][0] == "tod" or c["cond"][3] == 0 or c["cond"][3] >= hyd) for c in pcs)
        if not only_simple_eq or rep != 0 or (pkeys & rkeys) or (hyd > 86400):
            return out
        ctx.count("timeline-oracle:" + ("with-rules" if rkeys else "controls-only"))
        s_all, s = s, dict(s, controls=pcs)
        rows = [(t, {k: v for k, v in obs.items() if k in pkeys}) for t, obs in rows]
        events = spec_timeline(s, times)
        dur = s["duration"]
        # expected values by replaying events in (instant, priority, registration) order
        vals = {i: s["init"].get(str(i), 1) for i in pkeys}
        ev_i = 0
        eff_instants = []
        exp_at = {}
        # group events by instant
        by_t = {}
        for e in events:
            by_t.setdefault(e[0], []).append(e)
        for t in sorted(by_t):
            if t > dur:
                break
            before = dict(vals)
            for (_, prio, idx, k, v) in sorted(by_t[t], key=lambda e: (e[1], e[2])):
                vals[k] = v
            if vals != before:
                eff_instants.append(t)
            exp_at[t] = dict(vals)
        # 1. every effective instant (<= duration) is one of the solved/reported times
        tset = set(times)
        last_time = times[-1] if times else -1
        for t in eff_instants:
            if t <= last_time and t not in tset:
                out.append(Failure("time-control-instant-skipped", "control instant %d s is not a solved time step (no partial step inserted)" % t,
                                   {"schedule": s_all, "instant": t, "times_near": [x for x in times if abs(x - t) <= 2 * hyd]}))
                return out
        # 2. at every reported time the targets hold the value of the latest-firing control (highest priority on ties)
        cur = {i: s["init"].get(str(i), 1) for i in pkeys}
        inst_sorted = sorted(t for t in exp_at)
        j = 0
        for t, obs in rows:
            while j < len(inst_sorted) and inst_sorted[j] <= t:
                cur = exp_at[inst_sorted[j]]
                j += 1
            if obs != cur:
                out.append(Failure("time-control-value-wrong", "at t=%d the targets are %s, the time controls require %s" % (t, obs, cur),
                                   {"schedule": s_all, "time": t, "observed": obs, "expected": cur}))
                return out
        return out

    def _rule_grid_oracle(self, ctx, failures):
        """rules act on positive multiples of the rule step, at the first one where the condition holds (range conditions)"""
        wntr = vlib.import_wntr()
        rng = ctx.rng
        n = 12 if ctx.quick else 80
        for _ in range(n):
            hyd = rng.choice([1800, 3600, 7200])
            rule = rng.choice([300, 360, 600, 900, 700])
            thr = rng.choice([0, 0, rng.randint(0, 6 * 3600), rule * rng.randint(0, 30)])
            rel = rng.choice(["ge", "gt"])
            s = {"hyd": hyd, "rule": rule, "report": 0, "duration": 8 * 3600, "start_clock": 0, "init": {"0": 1},
                 "controls": [{"id": 0, "kind": "R", "prio": 3, "cond": ("sim", rel, thr, 0), "then": [(0, 0)], "else": []}]}
            wn = schedgen.build_wn(wntr, s)
            rows, _ = schedgen.run_impl(wntr, wn)
            # first positive multiple of the rule step at which the condition holds
            k = 1
            while not ((k * rule >= thr) if rel == "ge" else (k * rule > thr)):
                k += 1
            t_act = k * rule
            ctx.case(("rulegrid", hyd, rule, thr, rel), True)
            first_closed = next((t for t, v in rows if v[0] == 0), None)
            if first_closed != t_act:
                failures.append(Failure("rule-acts-off-positive-rule-grid", "rule `IF SYSTEM TIME %s %d` (rule step %d) first acts at t=%s, expected %d (first positive multiple of the rule step where it holds)" % (rel, thr, rule, first_closed, t_act),
                                        {"schedule": s, "observed_first_closed": first_closed, "expected": t_act, "timeline": rows[:8]}))

    def _same_step_schedules(self, ctx, n):
        """designed: 2-4 `=` controls (sim time or clock time) whose DIFFERENT instants fall into one hydraulic step, with
        random, mostly distinct priorities (so that priority order and time order disagree), every action changing its
        target; report ALL -> judged by the timeline oracle: each instant is a solved time, values as specified"""
        rng = ctx.rng
        out = []
        for _ in range(n):
            hyd = rng.choice([900, 1800, 3600, 7200])
            k = rng.randint(0, 20)
            m = rng.randint(2, 4)
            offs = sorted(rng.sample(range(1, hyd), m))
            if rng.random() < 0.3:
                offs[-1] = hyd  # the last one on the hydraulic grid
            prios = rng.sample([0, 1, 2, 3, 4, 5], m)
            sc = rng.choice([0, 0, 3600 * rng.randint(0, 23), rng.randint(0, 86399)])
            init = {str(i): rng.randint(0, 1) for i in range(schedgen.NT)}
            ctls = []
            cur = dict(init)
            tgts = [rng.randrange(schedgen.NT) for _ in range(m)]
            for j, (o, p, tg) in enumerate(zip(offs, prios, tgts)):
                t = k * hyd + o
                v = 1 - cur[str(tg)]
                cur[str(tg)] = v
                if rng.random() < 0.7:
                    cond = ("sim", "eq", t, 0)
                else:
                    cond = ("tod", "eq", (t + sc) % 86400, 1, 0)
                ctls.append({"id": j, "kind": "P", "prio": p, "cond": cond, "then": [(tg, v)], "else": []})
            rng.shuffle(ctls)  # registration order independent of time order
            for j, c in enumerate(ctls):
                c["id"] = j
            out.append({"hyd": hyd, "rule": rng.choice([360, 600, hyd, 700]), "report": 0, "duration": (k + 3) * hyd, "start_clock": sc,
                        "controls": ctls, "init": init})
            ctx.count("same-step-designed")
        return out

    def _tie_schedules(self, ctx, n):
        """designed: 2-3 time controls with the SAME instant, the SAME target and the SAME priority writing alternating values,
        registration order shuffled: the code applies equal-priority controls of one instant in registration order (two stable
        sorts), so the last registered decides (the model's `winner`: ties go to the later registration)"""
        rng = ctx.rng
        out = []
        for _ in range(n):
            hyd = rng.choice([1800, 3600])
            t = rng.choice([hyd * rng.randint(0, 6), rng.randint(0, 6 * hyd)])
            key = rng.randrange(schedgen.NT)
            prio = rng.choice([3, 3, 1, 5])
            m = rng.randint(2, 3)
            init = {str(i): rng.randint(0, 1) for i in range(schedgen.NT)}
            vals = [(j + rng.randint(0, 1)) % 2 for j in range(m)]
            vals[-1] = 1 - init[str(key)]                     # the deciding control changes the target
            ctls = [{"id": j, "kind": "P", "prio": prio, "cond": ("sim", "eq", t, 0), "then": [(key, vals[j])], "else": []} for j in range(m)]
            out.append({"hyd": hyd, "rule": rng.choice([600, hyd]), "report": 0, "duration": 8 * hyd, "start_clock": 0, "controls": ctls, "init": init})
            ctx.count("tie-designed")
        return out

    def _mixed_schedules(self, ctx, n):
        """designed: repeating sim-time controls (period >= hydraulic step), daily clock controls and one-shot controls on
        keys 0-1, together with rules (range and `=` premises, then/else) on keys 2-3; rule steps chosen so that control
        instants often coincide with rule timesteps; the `=` controls are judged by the timeline oracle, everything by the
        model correspondence"""
        rng = ctx.rng
        out = []
        for _ in range(n):
            hyd = rng.choice([1800, 3600, 7200])
            rule = rng.choice([300, 600, 900, 1800, hyd])
            sc = rng.choice([0, 0, 3600 * rng.randint(1, 23), rng.randint(1, 86399)])
            dur = rng.choice([86400 + 4 * hyd, 2 * 86400, 30 * hyd])
            init = {str(i): rng.randint(0, 1) for i in range(schedgen.NT)}
            ctls = []
            for j in range(rng.randint(2, 4)):
                key = rng.randint(0, 1)
                kind = rng.choice(["rep", "rep", "tod", "once"])
                t0 = rng.choice([rule * rng.randint(0, 40), hyd * rng.randint(0, 10), rng.randint(0, 20000)])
                if kind == "rep":
                    cond = ("sim", "eq", t0, rng.choice([hyd, 2 * hyd, 6 * 3600, 43200, 86400]))
                elif kind == "tod":
                    cond = ("tod", "eq", (t0 + sc) % 86400, 1, rng.choice([0, 0, 1]))
                else:
                    cond = ("sim", "eq", t0, 0)
                ctls.append({"id": len(ctls), "kind": "P", "prio": rng.choice([3, 3, 1, 5]), "cond": cond, "then": [(key, rng.randint(0, 1))], "else": []})
            for j in range(rng.randint(1, 3)):
                key = rng.randint(2, 3)
                t0 = rng.choice([rule * rng.randint(0, 40), rng.randint(0, 30000)])
                cond = rng.choice([("sim", "ge", t0, 0), ("sim", "eq", t0, 0), ("tod", "gt", (t0 + sc) % 86400, 1, 0),
                                   ("and", ("sim", "ge", t0, 0), ("sim", "lt", t0 + rng.randint(1, 20000), 0))])
                els = [(key, rng.randint(0, 1))] if rng.random() < 0.4 else []
                ctls.append({"id": len(ctls), "kind": "R", "prio": rng.choice([3, 1, 5]), "cond": cond, "then": [(key, rng.randint(0, 1))], "else": els})
            out.append({"hyd": hyd, "rule": rule, "report": 0, "duration": dur, "start_clock": sc, "controls": ctls, "init": init})
            ctx.count("mixed-designed")
        return out

    def _start_schedules(self, ctx, n):
        """designed: what happens around the START of the simulation with a non-zero start_clocktime: daily (and one-shot)
        clock `=` controls whose time of day lies within one hydraulic step BEFORE start_clocktime (first instant on the
        next day -- nothing is crossed by starting), exactly ON it (instant t=0, served by the first step) or shortly after
        it; sim-time `=` controls at t=0 and t=1; every action changes its target; report ALL; some runs longer than a day
        so that the next-day occurrence is judged too"""
        rng = ctx.rng
        out = []
        for i in range(n):
            hyd = rng.choice([900, 1800, 3600, 7200])
            sc = rng.choice([3600 * rng.randint(1, 23), rng.randint(1, 86399), 6 * 3600])
            init = {str(k): rng.randint(0, 1) for k in range(schedgen.NT)}
            ctls = []
            tgts = rng.sample(range(schedgen.NT), rng.randint(1, 3))
            for j, tg in enumerate(tgts):
                kind = rng.choice(["before", "before", "on", "after", "sim0", "sim1"])
                v = 1 - init[str(tg)]
                if kind == "before":
                    cond = ("tod", "eq", (sc - rng.choice([1, hyd - 1, rng.randint(1, hyd - 1), hyd // 2])) % 86400, rng.choice([1, 1, 0]), 0)
                elif kind == "on":
                    cond = ("tod", "eq", sc % 86400, 1, 0)
                elif kind == "after":
                    cond = ("tod", "eq", (sc + rng.randint(1, hyd)) % 86400, 1, 0)
                elif kind == "sim0":
                    cond = ("sim", "eq", 0, rng.choice([0, 0, 86400]))
                else:
                    cond = ("sim", "eq", 1, 0)
                ctls.append({"id": j, "kind": "P", "prio": rng.choice([3, 3, 1, 5]), "cond": cond, "then": [(tg, v)], "else": []})
                ctx.count("start-designed:" + kind)
            dur = rng.choice([3 * hyd, 5 * hyd, 86400 + 2 * hyd])
            out.append({"hyd": hyd, "rule": rng.choice([360, 600, hyd]), "report": 0, "duration": dur, "start_clock": sc, "controls": ctls, "init": init})
        return out

    def _leak_controls_corr(self, ctx, failures, broken):
        """C08 window (Props/C08Window.lean): (1) the controls the REAL Junction.add_leak / Tank.add_leak register (class,
        condition class, relation, threshold, repeat, action attribute / value, priority, control type, registration order)
        against the model's `Leak.ctls`; (2) the real simulator's accepted times and leak activity against `runSim` on the
        model's leak configuration, and against the window itself (on iff start <= t and not start <= end <= t)"""
        wntr = vlib.import_wntr()
        from wntr.network.controls import Control, SimTimeCondition, ControlAction, Comparison, _ControlType
        rng = ctx.rng
        n = 10 if ctx.quick else 80
        nd = 0
        for i in range(n):
            hyd = rng.choice([900, 1800, 3600])
            steps = rng.randint(3, 8)
            dur = steps * hyd
            s = {"hyd": hyd, "rule": rng.choice([360, 600, hyd]), "report": 0, "duration": dur, "start_clock": rng.choice([0, 3600 * 5]), "controls": [], "init": {}}
            wn = schedgen.build_wn(wntr, s)
            wn.add_tank("TK", elevation=40.0, init_level=3.0, min_level=0.0, max_level=50.0, diameter=30.0)
            wn.add_pipe("PTK", "J0", "TK", length=100, diameter=0.3)
            nodes = ["J0", "J1", "J2", "TK"]
            leaks = []
            for key, name in enumerate(rng.sample(nodes, rng.randint(1, 3))):
                st = rng.choice([0, rng.randint(0, dur), rng.randint(0, steps) * hyd])
                kind = rng.random()
                if kind < 0.2:
                    en = None
                elif kind < 0.45:
                    en = st + rng.randint(1, hyd - 1)          # whole window inside one hydraulic step (mostly)
                elif kind < 0.55:
                    en = max(0, st - rng.randint(1, hyd))      # end before start
                else:
                    en = st + rng.randint(1, dur)
                if en == st:
                    en = st + 1
                leaks.append((10 + key, name, st, en))
            lines = ["reset", "cfg %d %d 0 %d %d" % (hyd, s["rule"], dur, s["start_clock"])]
            for key, name, st, en in leaks:
                before = set(wn.control_name_list)
                wn.get_node(name).add_leak(wn, area=0.0008, start_time=st, end_time=en)
                new = [c for c in wn.control_name_list if c not in before]   # registration order
                real = []
                for cn in new:
                    c = wn.get_control(cn)
                    cond = c.condition
                    acts = c.actions()
                    tgt, attr = acts[0].target()
                    real.append((type(c) is Control, type(cond).__name__, cond._relation is Comparison.eq, int(cond._threshold), bool(cond._repeat),
                                 int(cond._first_time), len(acts), tgt is wn.get_node(name), attr, bool(acts[0]._value), int(c.priority),
                                 c.epanet_control_type is _ControlType.presolve))
                lines.append("leak %d %d %s" % (key, st, "none" if en is None else en))
                leaks[[l[0] for l in leaks].index(key)] = (key, name, st, en, real)
            lines.append("init " + " ".join("%d 0" % l[0] for l in leaks))
            lines.append("run")
            out = vlib.lean_run("Drivers/SchedDriver.lean", "\n".join(lines) + "\n")
            mctl = [l.split() for l in out if l.startswith("leakctl")]
            pos = 0
            for key, name, st, en, real in leaks:
                k = 2 if en is not None else 1
                model = []
                for f in mctl[pos:pos + k]:
                    # leakctl id prio sim Rel thr rep key value else n
                    model.append((True, "SimTimeCondition", f[4].endswith("eq"), int(f[5]), int(f[6]) != 0, 0, 1, int(f[7]) == key, "leak_status", int(f[8]) == 1, int(f[2]), f[3] == "sim" and int(f[10]) == 0))
                pos += k
                ctx.case(("leakctl", name, st, en), True)
                ctx.count("leak-controls:" + ("tank" if name == "TK" else "junction") + (":no-end" if en is None else ""))
                if real != model:
                    nd += 1
                    if nd <= 3:
                        broken.append(Broken("correspondence", "Sched.Leak.ctls vs the controls add_leak registers",
                                             "%s.add_leak(start_time=%s, end_time=%s): implementation %s, model %s" % (name, st, en, real, model)))
            # (2) timeline
            mrows = schedgen.parse_driver_runs([l for l in out if l.startswith(("row ", "end "))], 1)[0][0]
            sim = wntr.sim.WNTRSimulator(wn)
            res = sim.run_sim()
            ld = res.node["leak_demand"]
            times = [int(t) for t in ld.index]
            ctx.count("leak-timeline-runs")
            if times != [t for t, _ in mrows]:
                nd += 1
                if nd <= 3:
                    broken.append(Broken("correspondence", "Sched.runSim on the leak configuration vs WNTRSimulator accepted times",
                                         "leaks %s hyd %d: implementation %s, model %s" % ([(l[1], l[2], l[3]) for l in leaks], hyd, times[:14], [t for t, _ in mrows][:14])))
            for key, name, st, en, _ in leaks:
                for t in times:
                    on = st <= t and not (en is not None and st <= en <= t)
                    active = float(ld.loc[t, name]) > 1e-9
                    if active != on:
                        failures.append(Failure("leak-window-" + ("tank" if name == "TK" else "junction"),
                                                "%s.add_leak(start_time=%d, end_time=%s): at reported time %d the leak is %s, the window says %s"
                                                % (name, st, en, t, "active" if active else "inactive", "on" if on else "off"),
                                                {"hyd": hyd, "duration": dur, "leaks": [(l[1], l[2], l[3]) for l in leaks], "time": t, "times": times}))
                        break
                for inst in ([st] + ([en] if en is not None and st < en else [])):
                    if inst <= times[-1] and inst not in times:
                        failures.append(Failure("leak-instant-not-a-time-step", "%s.add_leak(start_time=%d, end_time=%s): the instant %d is not a solved time (times %s)"
                                                % (name, st, en, inst, times[:14]), {"hyd": hyd, "duration": dur, "leaks": [(l[1], l[2], l[3]) for l in leaks], "times": times}))
        ctx.cov["leak_control_disagreements"] = nd

    def _rule_eq_oracle(self, ctx, failures):
        """rules with an `=` time premise against the rule-grid specification: the rule acts at the first positive rule
        timestep r >= its instant c (r - rule_step < c <= r), and r is a solved time -- also when a simple control on another
        link makes the simulator solve between c and r, before c in the same rule interval, or not at all"""
        wntr = vlib.import_wntr()
        rng = ctx.rng
        n = 18 if ctx.quick else 120
        cases = [(3600, 1800, 13260, 13980, "sim", 0)]  # the directed case of the C03 owner (3:41 / 3:53, 30 min rule step)
        for i in range(n):
            hyd = rng.choice([1800, 3600, 7200])
            rule = rng.choice([300, 600, 900, 1800])
            k = rng.randint(1, 3 * hyd // rule + 4)
            c = rule * k - rng.randint(1, rule - 1)          # strictly inside the rule interval (r - rule, r)
            r = rule * k
            mode = i % 3
            at = None
            if mode == 0 and r - c >= 2:
                at = rng.randint(c + 1, r - 1)                # a solve between the instant and the rule timestep
            elif mode == 1 and c - (r - rule) >= 2:
                at = rng.randint(r - rule + 1, c - 1)         # a solve inside the interval but before the instant
            sc = rng.choice([0, 0, 3600 * rng.randint(1, 23)])
            cases.append((hyd, rule, c, at, rng.choice(["sim", "sim", "tod"]), sc))
        # premises at the start of the simulation (time 0 / clock time = start_clocktime: seen by the FIRST rule timestep),
        # exactly on a rule timestep, and on the first rule timestep itself
        for i in range(6 if ctx.quick else 30):
            hyd = rng.choice([1800, 3600])
            rule = rng.choice([300, 600, 900, 1800])
            sc = rng.choice([0, 3600 * rng.randint(1, 23), rng.randint(1, 86399)])
            k = rng.randint(1, 2 * hyd // rule + 2)
            for c in (0, rule * k, rule):
                at = rng.choice([None, rng.randint(1, rule - 1)]) if c == 0 else None
                cases.append((hyd, rule, c, at, rng.choice(["sim", "tod"]), sc))
        for hyd, rule, c, at, kind, sc in cases:
            r = max(rule, -(-c // rule) * rule)
            cond = ("sim", "eq", c, 0) if kind == "sim" else ("tod", "eq", (c + sc) % 86400, 1, 0)
            ctls = [{"id": 0, "kind": "R", "prio": 3, "cond": cond, "then": [(0, 1)], "else": []}]
            if at is not None:
                ctls.append({"id": 1, "kind": "P", "prio": 3, "cond": ("sim", "eq", at, 0), "then": [(1, 0)], "else": []})
            s = {"hyd": hyd, "rule": rule, "report": 0, "duration": (r // hyd + 2) * hyd, "start_clock": sc, "init": {"0": 0, "1": 1}, "controls": ctls}
            rows, _ = schedgen.run_impl(wntr, schedgen.build_wn(wntr, s))
            ctx.case(("ruleeq", hyd, rule, c, at, kind, sc), True)
            ctx.count("rule-eq:" + ("premise-at-start" if c == 0 else "premise-on-rule-timestep" if c % rule == 0 else "stop-after-instant" if at is not None and at > c else "stop-before-instant" if at is not None else "no-stop"))
            first_open = next((t for t, v in rows if v[0] == 1), None)
            if first_open != r:
                # a premise at the start of the simulation is a different input class (first rule timestep) than the
                # known finding (a solve between the instant and the rule timestep) when NO solve lies in between: it gets its own key
                failures.append(Failure("rule-eq-premise-at-start-missed" if (c == 0 and at is None) else "rule-eq-premise-missed",
                                        "rule `IF %s = %d` (rule step %d, hydraulic step %d%s): must act at the rule timestep %d, observed %s"
                                        % ("SYSTEM TIME" if kind == "sim" else "SYSTEM CLOCKTIME", c if kind == "sim" else (c + sc) % 86400, rule, hyd,
                                           ", simple control at %d" % at if at is not None else "", r, "never" if first_open is None else "at %d" % first_open),
                                        {"schedule": s, "expected_at": r, "observed_at": first_open, "timeline": [(t, v[0]) for t, v in rows][:14]}))

    def _rule_priority_oracle(self, ctx, failures):
        """two rules with the same time condition and opposite actions on one target: from the first positive rule
        timestep at which the condition holds the target has the value of the HIGHER priority rule (later registration
        on equal priorities) -- also when a time control's instant coincides with that rule timestep (the rules are
        then run from another branch of the scheduler) or lies just before / after it"""
        wntr = vlib.import_wntr()
        rng = ctx.rng
        n = 16 if ctx.quick else 100
        for i in range(n):
            hyd = rng.choice([1800, 3600, 7200])
            rule = rng.choice([300, 360, 600, 900])
            k = rng.randint(1, 20)
            thr = rule * k - rng.choice([0, 0, rng.randint(0, rule - 1)])
            # distinct priorities only: the statement fixes the outcome for different priorities; for EQUAL priorities the code
            # (and the model, `winner`) lets the later registered rule win while EPANET keeps the first -- outside C04
            p1, p2 = rng.sample([0, 1, 2, 3, 4, 5], 2)
            v1 = rng.randint(0, 1)
            order = rng.random() < 0.5
            r1 = {"id": 0, "kind": "R", "prio": p1, "cond": ("sim", "ge", thr, 0), "then": [(0, v1)], "else": []}
            r2 = {"id": 1, "kind": "R", "prio": p2, "cond": ("sim", "ge", thr, 0), "then": [(0, 1 - v1)], "else": []}
            rules = [r1, r2] if order else [r2, r1]
            for j, r in enumerate(rules):
                r["id"] = j
            mode = i % 3
            ctls = list(rules)
            t_act = rule * k
            if mode:  # a time control on another target: on the rule timestep (mode 1) or shortly before it (mode 2)
                at = t_act if mode == 1 else max(1, t_act - rng.randint(1, rule - 1))
                ctls.append({"id": 2, "kind": "P", "prio": 3, "cond": ("sim", "eq", at, 0), "then": [(1, 0)], "else": []})
            s = {"hyd": hyd, "rule": rule, "report": 0, "duration": max(4 * hyd, ((t_act // hyd) + 3) * hyd), "start_clock": 0,
                 "init": {"0": 1 - (rules[-1]["then"][0][1] if p1 == p2 else (r1 if p1 > p2 else r2)["then"][0][1]), "1": 1}, "controls": ctls}
            winner = rules[-1] if p1 == p2 else (r1 if p1 > p2 else r2)
            exp = winner["then"][0][1]
            wn = schedgen.build_wn(wntr, s)
            rows, _ = schedgen.run_impl(wntr, wn)
            ctx.case(("ruleprio", hyd, rule, thr, p1, p2, order, mode), True)
            ctx.count("rule-priority:mode%d" % mode)
            at_rows = [v for t, v in rows if t >= t_act]
            first = next(((t, v[0]) for t, v in rows if t >= t_act), None)
            if first is None or first[0] != t_act or any(v[0] != exp for v in at_rows):
                failures.append(Failure("rule-priority-not-respected",
                                        "rules `IF SYSTEM TIME >= %d` with priorities %d and %d writing opposite values (rule step %d%s): from t=%d the target must be %d, observed %s"
                                        % (thr, rules[0]["prio"], rules[1]["prio"], rule, ["", ", time control on that rule timestep", ", time control just before it"][mode], t_act, exp,
                                           [(t, v[0]) for t, v in rows if t >= t_act - hyd][:5]),
                                        {"schedule": s, "expected_from": t_act, "expected_value": exp, "timeline": [(t, v[0]) for t, v in rows][:12]}))

    def _inp_text_oracle(self, ctx, failures, n=None):
        """controls configured as INP TEXT: `LINK x status AT TIME t` / `AT CLOCKTIME c [AM|PM]` in every spelling the EPANET
        format allows (decimal hours, h:mm, h:mm:ss; 24-hour clock times without marker, 12-hour ones with AM / PM, the noon and
        midnight hours in both) must act at the instant the text names.  The expected instant comes from an independent reading
        of the text (EPANET users manual: 12 AM is midnight, 12 PM is noon, no marker = 24-hour clock); the observed one is the
        first reported row (report ALL) in which the real simulator shows the commanded status, on a model read by the real INP reader."""
        wntr = vlib.import_wntr()
        rng = ctx.rng
        n = n or (10 if ctx.quick else 80)

        def sim_form():
            sec = rng.choice([rng.randint(1, 29 * 3600), 900 * rng.randint(1, 4 * 29), 3600 * rng.randint(1, 29), 12 * 3600 + rng.randint(0, 3599)])
            f = rng.choice(["dec", "hm", "hms"])
            if f == "dec":
                sec -= sec % 900
                sec = max(sec, 900)
                return ("%g" % (sec / 3600.0)), sec
            if f == "hm":
                sec -= sec % 60
                sec = max(sec, 60)
                return "%d:%02d" % (sec // 3600, sec % 3600 // 60), sec
            return "%d:%02d:%02d" % (sec // 3600, sec % 3600 // 60, sec % 60), sec

        def clock_form():
            hh = rng.choice([0, 12, 12, rng.randint(1, 11), rng.randint(13, 23)])
            mm, ss = rng.randint(0, 59), rng.randint(0, 59)
            f = rng.choice(["24hm", "24hms", "24dec", "12hm", "12hms", "12h"])
            if f == "24hm":
                return "%d:%02d" % (hh, mm), hh * 3600 + mm * 60
            if f == "24hms":
                return "%02d:%02d:%02d" % (hh, mm, ss), hh * 3600 + mm * 60 + ss
            if f == "24dec":
                q = rng.randint(0, 3)
                return "%g" % (hh + q / 4.0), hh * 3600 + q * 900
            h12 = hh % 12 or 12           # 12-hour spelling of hh: 0 -> 12 AM, 12 -> 12 PM, 13 -> 1 PM
            ap = "AM" if hh < 12 else "PM"
            if f == "12hm":
                return "%d:%02d %s" % (h12, mm, ap), hh * 3600 + mm * 60
            if f == "12hms":
                return "%d:%02d:%02d %s" % (h12, mm, ss, ap), hh * 3600 + mm * 60 + ss
            return "%d %s" % (h12, ap), hh * 3600

        directed = [[("CLOCKTIME", "12:30", 45000), ("CLOCKTIME", "12:00:01", 43201), ("CLOCKTIME", "12:30 AM", 1800), ("CLOCKTIME", "12:15 PM", 44100)],
                    [("CLOCKTIME", "12", 43200), ("CLOCKTIME", "12.5", 45000), ("CLOCKTIME", "12 AM", 0), ("TIME", "12:30", 45000)]]
        for k in range(n):
            if k < len(directed):
                items = directed[k]
            else:
                items = []
                for i in range(schedgen.NT):
                    if rng.random() < 0.35:
                        t, sec = sim_form()
                        items.append(("TIME", t, sec))
                    else:
                        t, sec = clock_form()
                        items.append(("CLOCKTIME", t, sec))
            hyd = rng.choice([900, 1800, 3600, 7200])
            sc = rng.choice([0, 3600 * rng.randint(1, 23), rng.randint(1, 86399)])
            while any(kind == "CLOCKTIME" and (sec - sc) % 86400 == 0 for kind, _, sec in items):
                sc = rng.randint(1, 86399)
            init = {str(i): rng.randint(0, 1) for i in range(schedgen.NT)}
            s = {"hyd": hyd, "rule": 360, "report": hyd, "duration": 30 * 3600, "start_clock": sc, "init": init, "controls": []}
            wn0 = schedgen.build_wn(wntr, s)
            path = "c04_inp_text_%d.inp" % k
            wntr.network.write_inpfile(wn0, path)
            txt = open(path).read()
            lines = ["LINK T%d %s AT %s %s" % (i, "CLOSED" if init[str(i)] == 1 else "OPEN", kind, t) for i, (kind, t, _) in enumerate(items)]
            if txt.count("[CONTROLS]\n") != 1:
                raise vlib.Infra("C04 inp-text oracle: the written INP file has no single [CONTROLS] header")
            open(path, "w").write(txt.replace("[CONTROLS]\n", "[CONTROLS]\n" + "\n".join(lines) + "\n"))
            label = "; ".join(lines)
            try:
                wn = wntr.network.WaterNetworkModel(path)
                wn.options.time.report_timestep = "ALL"
                rows, _ = schedgen.run_impl(wntr, wn)
            except Exception as e:  # the documented spellings must be read and simulated
                failures.append(Failure("inp-control-text-refused", "INP controls in documented spellings are refused: %s -> %s: %s" % (label, type(e).__name__, str(e)[:200]),
                                        {"inp_controls": lines, "start_clock": sc, "hyd": hyd, "init": init}))
                continue
            finally:
                try:
                    os.remove(path)
                except OSError:
                    pass
            for i, (kind, t, sec) in enumerate(items):
                exp = sec if kind == "TIME" else (sec - sc) % 86400
                want = 0 if init[str(i)] == 1 else 1
                obs = next((tt for tt, v in rows if v[i] == want), None)
                form = "time" if kind == "TIME" else ("clock-" + ("marker" if t.endswith("M") else "24h") + ("-noon-hour" if t.startswith("12") else ""))
                ctx.case(("inp-text", kind, t, sc, hyd), True)
                ctx.count("inp-text:" + form)
                if obs != exp:
                    failures.append(Failure("inp-control-text-instant",
                                            "INP control `%s` (start clocktime %d s, hydraulic step %d): must act at sim time %d, observed %s"
                                            % (lines[i], sc, hyd, exp, "never" if obs is None else "at %d" % obs),
                                            {"inp_controls": lines, "control": lines[i], "start_clock": sc, "hyd": hyd, "init": init, "expected_at": exp, "observed_at": obs,
                                             "timeline": [(tt, v[i]) for tt, v in rows][:40]}))

    def correspondence(self, ctx):
        failures, broken = [], []
        # corpus first
        corpus = [j["schedule"] for _, j in vlib.corpus_items("C04") if "schedule" in j]
        if corpus:
            self._run_schedules(ctx, failures, broken, corpus, "corpus")
        self._run_conditions(ctx, failures, broken)
        n = 120 if ctx.quick else 1200
        rng = ctx.rng
        scheds = [schedgen.gen_schedule(rng, ctx.quick, rules=(i % 4 != 0), allow_weird=True) for i in range(n)]
        # a stream of pure `=` simple controls with report ALL for the timeline oracle
        for i in range(n // 3):
            s = schedgen.gen_schedule(rng, ctx.quick, rules=False, allow_weird=False)
            s["report"] = 0
            for c in s["controls"]:
                if c["cond"][1] != "eq":
                    c["cond"] = (c["cond"][0], "eq") + tuple(c["cond"][2:])
            scheds.append(s)
        scheds += self._same_step_schedules(ctx, 16 if ctx.quick else 120)
        scheds += self._start_schedules(ctx, 16 if ctx.quick else 120)
        scheds += self._mixed_schedules(ctx, 16 if ctx.quick else 120)
        scheds += self._tie_schedules(ctx, 12 if ctx.quick else 80)
        self._run_schedules(ctx, failures, broken, scheds, "random")
        self._rule_grid_oracle(ctx, failures)
        self._rule_priority_oracle(ctx, failures)
        self._rule_eq_oracle(ctx, failures)
        self._inp_text_oracle(ctx, failures)
        self._leak_controls_corr(ctx, failures, broken)
        return failures, broken

    def search(self, ctx, broken):
        # wider search with more schedules; the oracles are the same
        failures, b2 = [], []
        rng = ctx.rng
        scheds = [schedgen.gen_schedule(rng, True, rules=False, allow_weird=False) for _ in range(150)]
        for s in scheds:
            s["report"] = 0
            for c in s["controls"]:
                if c["cond"][1] != "eq":
                    c["cond"] = (c["cond"][0], "eq") + tuple(c["cond"][2:])
        scheds += self._same_step_schedules(ctx, 40)
        scheds += self._start_schedules(ctx, 40)
        scheds += self._mixed_schedules(ctx, 40)
        scheds += self._tie_schedules(ctx, 30)
        self._run_schedules(ctx, failures, b2, scheds, "search")
        self._rule_grid_oracle(ctx, failures)
        self._rule_priority_oracle(ctx, failures)
        self._rule_eq_oracle(ctx, failures)
        self._inp_text_oracle(ctx, failures, n=40)
        return failures

    def replay(self, ctx, path):
        r = json.load(open(path if os.path.isabs(path) else os.path.join(vlib.VERIF, path)))
        print(json.dumps(r, indent=1)[:4000])
        rp = r.get("replay", {})
        if "schedule" in rp:
            failures, broken = [], []
            self._run_schedules(ctx, failures, broken, [rp["schedule"]], "replay")
            hit = [f for f in failures if f.key == r.get("key")]
            print("replay: %s" % ("REPRODUCED " + hit[0].what if hit else "not reproduced on the current tree"))
            return 1 if hit else 0
        fs, bs = self.correspondence(ctx)
        hit = [f for f in fs if f.key == r.get("key")]
        print("replay: %s" % ("REPRODUCED " + hit[0].what if hit else "not reproduced on the current tree"))
        return 1 if hit else 0


if __name__ == "__main__":
    vlib.run_check(C04)
