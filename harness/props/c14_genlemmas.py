"""Generator of lean/WntrModel/Lemmas/RegistryStep*.lean (property C14): one theorem per (operation, invariant clause) of the
REPAIRED registry model.  The generated files are committed and are ordinary Lean sources; this script only exists so that the
~350 uniform statements need not be typed by hand.  Usage: python harness/props/c14_genlemmas.py [group ...]

Each theorem has the form
    theorem <op>R_<clause> <binders> <success facts> (h : Inv s) : Clause.<clause> (<op>R ...) := by
      have hX := h.X ...            -- the clauses of the invariant that the proof needs (SUPPORT table)
      clear h; unfold <op>R; [cases ...;] reg_norm; grind [table facts]
"""
import os
import sys

LEAN = os.path.join(os.path.dirname(os.path.dirname(os.path.dirname(os.path.abspath(__file__)))), "lean", "WntrModel", "Lemmas")

CLAUSES = ["typedNodeSound", "typedNodeComplete", "typedLinkSound", "typedLinkComplete", "typedCurveSound", "endsExist",
           "usageNodeSound", "usageNodeLinks", "usageNodeSources", "usagePatSound", "usagePatNodes", "usagePatLinks",
           "usagePatSources", "usageCurveSound", "usageCurveNodes", "usageCurveLinks"]

SETF = "fam_of_mem_linkSets, fam_curveSet, fam_nodeSet"
KINDF = "isLinkType_ltype, ltype_ne_source, ltype_pump, ltype_valve, isPump_iff, nodePatUser_some, isLinkType_iff, List.mem_of_mem_eraseIdx"
TABLE = {c: ("set_tables" if c.startswith("typed") else "kind_tables") for c in CLAUSES}
FACTS = {c: (SETF if c.startswith("typed") else KINDF) for c in CLAUSES}

HN_NODE = "(hn : AL.get? s.nodes n = none)"
HN_LINK = "(hn : AL.get? s.links n = none)"
HA = "(ha : ∃ ia, AL.get? s.nodes a = some ia)"
HB = "(hb : ∃ ib, AL.get? s.nodes b = some ib)"

# name -> (group, binders, state expression, success facts, tactic between `unfold` and `reg_norm`)
OPS = {
    "addJunction": ("AddNode", "(s : Reg) (n : Name) (p : Option Name)", "addJunctionR s n p", [HN_NODE], ""),
    "addTank": ("AddNode", "(s : Reg) (n : Name) (c : Option Name)", "addTankR s n c", [HN_NODE], ""),
    "addReservoir": ("AddNode", "(s : Reg) (n : Name) (p : Option Name)", "addReservoirR s n p", [HN_NODE], ""),
    "addDemand": ("Demand", "(s : Reg) (n : Name) (p : Option Name) (i : NodeInfo)", "addDemandR s n p i",
                  ["(hi : AL.get? s.nodes n = some i)", "(hk : i.kind = .junction)"], ""),
    "delDemand": ("Demand", "(s : Reg) (n : Name) (idx : Nat) (i : NodeInfo)", "delDemandR s n idx i",
                  ["(hi : AL.get? s.nodes n = some i)", "(hk : i.kind = .junction)"], ""),
    "addFire": ("Demand", "(s : Reg) (n p : Name) (i : NodeInfo)", "addFireR s n p i",
                ["(hi : AL.get? s.nodes n = some i)", "(hk : i.kind = .junction)"], ""),
    "insertDemand": ("Demand", "(s : Reg) (n : Name) (idx : Nat) (pat : Option Name) (i : NodeInfo)", "insertDemandR s n idx pat i",
                     ["(hi : AL.get? s.nodes n = some i)", "(hk : i.kind = .junction)"], ""),
    "clearDemands": ("Demand", "(s : Reg) (n : Name) (i : NodeInfo)", "clearDemandsR s n i",
                     ["(hi : AL.get? s.nodes n = some i)", "(hk : i.kind = .junction)"], ""),
    "renameSource": ("RemoveOther", "(s : Reg) (old new : Name) (si : SourceInfo)", "renameSourceR s old new si",
                     ["(hi : AL.get? s.sources old = some si)", "(hn : AL.get? s.sources new = none)", "(hne : new ≠ old)"], ""),
    "assignDemand": ("Demand", "(s : Reg) (n p : Name) (i : NodeInfo)", "assignDemandR s n p i",
                     ["(hi : AL.get? s.nodes n = some i)", "(hk : i.kind = .junction)"], ""),
    "removeFire": ("Demand", "(s : Reg) (n p : Name) (i : NodeInfo)", "removeFireR s n p i",
                   ["(hi : AL.get? s.nodes n = some i)", "(hk : i.kind = .junction)"], ""),
    "addPipe": ("AddLink", "(s : Reg) (n a b : Name)", "addPipeR s n a b", [HN_LINK, HA, HB], ""),
    "addPump": ("AddLink", "(s : Reg) (n a b : Name) (spec : PumpSpec) (pat : Option Name)", "addPumpR s n a b spec pat",
                [HN_LINK, HA, HB], "cases spec <;> simp only []"),
    "addValve": ("AddLink", "(s : Reg) (n a b : Name) (kind : LinkKind) (curve : Option Name)", "addValveR s n a b kind curve",
                 ["(hk : isValveKind kind = true)", HN_LINK, HA, HB], ""),
    "addPattern": ("AddOther", "(s : Reg) (n : Name)", "addPatternR s n", [], ""),
    "addCurve": ("AddOther", "(s : Reg) (n : Name) (t : Option CurveType)", "addCurveR s n t", [], "cases t <;> simp only []"),
    "addSource": ("AddOther", "(s : Reg) (n node : Name) (pat : Option Name)", "addSourceR s n node pat",
                  ["(hn : AL.get? s.sources n = none)"], ""),
    "delNode": ("Remove", "(s : Reg) (key : Name) (i : NodeInfo)", "delNodeR s key i",
                ["(hi : AL.get? s.nodes key = some i)", "(hu : ∀ u, u ∉ ulook (s.usage .node) key)"], ""),
    "delLink": ("Remove", "(s : Reg) (key : Name) (i : LinkInfo)", "delLinkR s key i", ["(hi : AL.get? s.links key = some i)"], ""),
    "removePattern": ("RemoveOther", "(s : Reg) (n : Name)", "removePatternR s n", ["(hu : ∀ u, u ∉ ulook (s.usage .pattern) n)"], ""),
    "removeCurve": ("RemoveOther", "(s : Reg) (n : Name)", "removeCurveR s n", ["(hu : ∀ u, u ∉ ulook (s.usage .curve) n)"], ""),
    "removeSource": ("RemoveOther", "(s : Reg) (n : Name) (si : SourceInfo)", "removeSourceR s n si",
                     ["(hi : AL.get? s.sources n = some si)"], ""),
    "setSourceNode": ("RemoveOther", "(s : Reg) (n node : Name) (si : SourceInfo)", "setSourceNodeR s n node si",
                      ["(hi : AL.get? s.sources n = some si)"], ""),
    "setEndNode": ("SetLink", "(s : Reg) (l n : Name) (isStart : Bool) (i : LinkInfo)", "setEndNodeR s l n isStart i",
                   ["(hi : AL.get? s.links l = some i)", "(hx : ∃ x, AL.get? s.nodes n = some x)"],
                   "cases isStart <;> simp only [Bool.false_eq_true, if_false, if_true]"),
    "setSpeedPattern": ("SetLink", "(s : Reg) (l : Name) (pat : Option Name) (i : LinkInfo)", "setSpeedPatternR s l pat i",
                        ["(hi : AL.get? s.links l = some i)", "(hp : isPump i.kind = true)"], ""),
    "setPumpCurve": ("SetLink", "(s : Reg) (l c : Name) (i : LinkInfo)", "setPumpCurveR s l c i",
                     ["(hi : AL.get? s.links l = some i)", "(hp : i.kind = .headPump)"], ""),
    "setHeadlossCurve": ("SetLink", "(s : Reg) (l c : Name) (i : LinkInfo)", "setHeadlossCurveR s l c i",
                         ["(hi : AL.get? s.links l = some i)", "(hp : i.kind = .gpv)"], ""),
    "setHeadPattern": ("SetNode", "(s : Reg) (n : Name) (pat : Option Name) (i : NodeInfo)", "setHeadPatternR s n pat i",
                       ["(hi : AL.get? s.nodes n = some i)", "(hp : i.kind = .reservoir)"], ""),
    "setVolCurve": ("SetNode", "(s : Reg) (n : Name) (curve : Option Name) (i : NodeInfo)", "setVolCurveR s n curve i",
                    ["(hi : AL.get? s.nodes n = some i)", "(hp : i.kind = .tank)"], ""),
}

# (op, clause) -> extra clauses of the invariant the proof needs besides the clause itself
SUPPORT = {
    ("delNode", "endsExist"): ["usageNodeLinks"],
}
# (op, clause) -> full replacement of the closing tactic (after reg_norm)
CUSTOM = {
    ("delDemand", "usagePatNodes"): "have he : ∀ d, d ∈ i.demands.eraseIdx idx → d ∈ i.demands := fun d h => List.mem_of_mem_eraseIdx h\n  have hd := droppedPat_spec i.demands idx\n  grind",
    ("insertDemand", "usagePatNodes"): "have ht : ∀ d, d ∈ i.demands.take idx → d ∈ i.demands := fun d h => List.mem_of_mem_take h\n  have hdr : ∀ d, d ∈ i.demands.drop idx → d ∈ i.demands := fun d h => List.mem_of_mem_drop h\n  grind",
}

try:
    from c14_support import SUPPORT as S2, CUSTOM as C2  # the tables live in a separate module so that they can grow
    SUPPORT.update(S2)
    CUSTOM.update(C2)
except ImportError:
    pass


def theorem(op, clause):
    group, binders, expr, facts, mid = OPS[op]
    sup = [clause] + [c for c in SUPPORT.get((op, clause), []) if c != clause]
    lines = ["theorem %sR_%s %s %s (h : Inv s) :" % (op, clause, binders, " ".join(facts)),
             "    Clause.%s (%s) := by" % (clause, expr)]
    for c in sup:
        lines.append("  have h_%s := h.%s" % (c, c))
    lines.append("  clear h")
    lines.append("  unfold %sR" % op)
    if mid:
        close = CUSTOM.get((op, clause), "reg_norm; have tb := %s; grind [%s]" % (TABLE[clause], FACTS[clause]))
        lines.append("  %s <;> (%s)" % (mid, close))
    else:
        lines.append("  reg_norm")
        lines.append("  have tb := %s" % TABLE[clause])
        lines.append("  " + CUSTOM.get((op, clause), "grind [%s]" % FACTS[clause]))
    return "\n".join(lines)


def assemble(op):
    group, binders, expr, facts, mid = OPS[op]
    args = " ".join(b.split(":")[0].strip("( ") for b in binders.replace(")", ") ").split(") ") if b.strip())
    # binder names in order
    names = []
    for part in binders.split("("):
        part = part.strip()
        if not part:
            continue
        names += part.split(":")[0].split()
    fnames = [f.strip("()").split(":")[0].strip() for f in facts]
    call = " ".join(names + fnames + ["h"])
    lines = ["/-- every clause but `nodup` after a successful `%s` -/" % op,
             "theorem %sR_clauses %s %s (h : Inv s) :" % (op, binders, " ".join(facts)),
             "    " + " ∧\n    ".join("Clause.%s (%s)" % (c, expr) for c in CLAUSES) + " :=",
             "  ⟨" + ",\n   ".join("%sR_%s %s" % (op, c, call) for c in CLAUSES) + "⟩"]
    return "\n".join(lines)


def gen(group):
    out = ["/- GENERATED by harness/props/c14_genlemmas.py (tables there); committed, edit the tables and regenerate.",
           "   Preservation of every clause of `Inv` by the successful branch of the repaired operations, group %s. -/" % group,
           "import WntrModel.Lemmas.RegistryOps", "", "namespace Wntr.Registry", "set_option linter.unusedSimpArgs false",
           "set_option linter.unusedVariables false", ""]
    for op, spec in OPS.items():
        if spec[0] != group:
            continue
        out.append("/-! ### %s -/" % op)
        for c in CLAUSES:
            out.append(theorem(op, c))
            out.append("")
        out.append(assemble(op))
        out.append("")
    out.append("end Wntr.Registry")
    path = os.path.join(LEAN, "RegistryStep%s.lean" % group)
    with open(path, "w") as f:
        f.write("\n".join(out) + "\n")
    return path


ALL_HEAD = """/-
Assembly: `InvR` (the invariant of the repaired code = `Inv` + no usage record keyed by a Pattern object + usage records are
sets) is preserved by the successful branch of every repaired operation.  GENERATED by harness/props/c14_genlemmas.py.
-/
import WntrModel.Lemmas.RegistryStepAddNode
import WntrModel.Lemmas.RegistryStepAddLink
import WntrModel.Lemmas.RegistryStepAddOther
import WntrModel.Lemmas.RegistryStepRemove
import WntrModel.Lemmas.RegistryStepRemoveOther
import WntrModel.Lemmas.RegistryStepSetLink
import WntrModel.Lemmas.RegistryStepSetNode
import WntrModel.Lemmas.RegistryStepDemand
import WntrModel.Lemmas.RegistryNodup

namespace Wntr.Registry
set_option linter.unusedVariables false

/-- the invariant of the REPAIRED code: all views agree, no usage record is keyed by a `Pattern` object (no code path of the
repaired code writes one), and every usage record lists a user once (they are `OrderedSet`s) -/
def InvR (s : Reg) : Prop := Inv s ∧ s.usage .patternObj = [] ∧ UsageNodup s

theorem usageObjSound_of_empty (s : Reg) (h : s.usage .patternObj = []) : Clause.usageObjSound s := by
  rw [Clause.usageObjSound_iff, h]; intro p u hu; simp at hu

/-- `Inv` looks at nothing but the registries, the usage maps and the typed sets (not at controls or the uid counter) -/
theorem inv_congr (s s' : Reg) (h1 : s'.nodes = s.nodes) (h2 : s'.links = s.links) (h3 : s'.patterns = s.patterns)
    (h4 : s'.curves = s.curves) (h5 : s'.sources = s.sources) (h6 : s'.usage = s.usage) (h7 : s'.typed = s.typed)
    (h : Inv s) : Inv s' := by
  obtain ⟨n, l, p, c, so, ct, us, ty, nu⟩ := s
  obtain ⟨n', l', p', c', so', ct', us', ty', nu'⟩ := s'
  simp only at h1 h2 h3 h4 h5 h6 h7
  subst h1 h2 h3 h4 h5 h6 h7
  exact ⟨h.nodup, h.typedNodeSound, h.typedNodeComplete, h.typedLinkSound, h.typedLinkComplete, h.typedCurveSound, h.endsExist,
    h.usageNodeSound, h.usageNodeLinks, h.usageNodeSources, h.usagePatSound, h.usagePatNodes, h.usagePatLinks, h.usagePatSources,
    h.usageCurveSound, h.usageCurveNodes, h.usageCurveLinks, h.usageObjSound⟩

theorem invR_congr (s s' : Reg) (h1 : s'.nodes = s.nodes) (h2 : s'.links = s.links) (h3 : s'.patterns = s.patterns)
    (h4 : s'.curves = s.curves) (h5 : s'.sources = s.sources) (h6 : s'.usage = s.usage) (h7 : s'.typed = s.typed)
    (h : InvR s) : InvR s' :=
  ⟨inv_congr s s' h1 h2 h3 h4 h5 h6 h7 h.1, by rw [h6]; exact h.2.1, by unfold UsageNodup; rw [h6]; exact h.2.2⟩

theorem invR_dropControls (s : Reg) (uid : Nat) (h : InvR s) : InvR (dropControls s uid) :=
  invR_congr s _ rfl rfl rfl rfl rfl rfl rfl h
"""


def gen_all():
    out = [ALL_HEAD]
    for op, (group, binders, expr, facts, mid) in OPS.items():
        names = []
        for part in binders.split("("):
            part = part.strip()
            if part:
                names += part.split(":")[0].split()
        fn_ = [f.strip("()").split(":")[0].strip() for f in facts]
        a = " ".join(names)
        if op == "addPattern":
            facts, call_cl = ["(hn : n ∉ s.patterns)"], a + " h.1"
            nodup = "%sR_nodup %s hn h.1.nodup" % (op, a)
        elif op in ("addFire", "assignDemand"):
            call_cl = " ".join([a] + fn_ + ["h.1"])
            facts = facts + ["(hp : p ∉ s.patterns)"]
            nodup = "%sR_nodup %s hp h.1.nodup" % (op, a)
        else:
            call_cl = " ".join([a] + fn_ + ["h.1"])
            nodup = "%sR_nodup %s h.1.nodup" % (op, a)
        cs = ["c%d" % i for i in range(len(CLAUSES))]
        out.append("theorem %sR_invR %s %s (h : InvR s) : InvR (%s) := by" % (op, binders, " ".join(facts), expr))
        out.append("  obtain ⟨%s⟩ := %sR_clauses %s" % (", ".join(cs), op, call_cl))
        out.append("  have hobj : (%s).usage .patternObj = [] := by rw [%sR_obj]; exact h.2.1" % (expr, op))
        out.append("  exact ⟨⟨%s, %s, usageObjSound_of_empty _ hobj⟩, hobj, %sR_usageNodup %s h.2.2⟩" % (nodup, ", ".join(cs), op, a))
        out.append("")
    out.append("end Wntr.Registry")
    path = os.path.join(LEAN, "RegistryStepAll.lean")
    with open(path, "w") as f:
        f.write("\n".join(out) + "\n")
    return path


if __name__ == "__main__":
    groups = sys.argv[1:] or sorted({v[0] for v in OPS.values()})
    for g in groups:
        print(gen(g) if g != "All" else gen_all())
    if not sys.argv[1:]:
        print(gen_all())
