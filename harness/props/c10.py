"""C10 -- pausing, (pickling) and restarting a simulation equals running it uninterrupted.

Model: lean/WntrModel/Model/Sched.lean (M5, the time-stepping driver of run_sim), theorems Props/C10.lean
(`run_split`, `continuation_after_pause`, `run_split_many`, the counterexample for an already completed run).
Tie: (a) correspondence of the model: random time-only schedules run PAUSED on the real WNTRSimulator (new simulator
object per part, optional pickle round trip) against Lean `runSim` continued through SchedDriver; (b) the property
oracle on the REAL implementation: random networks with tanks, pumps, time / clock / tank-level controls, rules, leaks
with windows, isolation episodes, paused at 1-3 points of the hydraulic grid, with and without pickle, compared with
the uninterrupted run.
"""
import copy
import json
import math
import os
import pickle
import sys

sys.path.insert(0, os.path.dirname(os.path.dirname(os.path.abspath(__file__))))
import vlib
from vlib import Broken, Failure, Check
import schedgen

RTOL = 1e-6
ATOL = 1e-7
SOLVER_TOL = 1e-9


# ----------------------------------------------------------------------------- network specs
def gen_network(rng, quick=True, force=None):
    """A replayable spec (plain dict).  Layout: reservoir R --(pump P or pipe)--> J0, a ring J0..Jn-1 with a chord,
    1-2 tanks hanging on ring nodes, a dead-end junction D behind pipe PD (isolation episodes), a low zone behind a
    PRV/PSV/FCV/TCV with setting / status controls, a second source behind a check-valve pipe, pump speed pattern and
    base_speed controls; features switched on randomly."""
    force = force or {}
    f = lambda k, p: force.get(k, rng.random() < p)
    n = rng.randint(3, 6)
    hyd = rng.choice([900, 1800, 3600, 3600])
    steps = rng.randint(6, 14 if quick else 30)
    duration = steps * hyd
    spec = {
        "n": n,
        "hyd": hyd,
        "duration": duration,
        "rule": rng.choice([360, 300, 600, hyd, 900]),
        "report": rng.choice(["ALL", hyd, hyd, 2 * hyd, hyd // 2, hyd // 3, hyd + hyd // 2]) if not force.get("report_all") else "ALL",
        "report_start": rng.choice([0, 0, hyd, 1800]),
        "quality_step": rng.choice([300, 360, hyd, 700]),
        "pattern_step": rng.choice([hyd, 3600, 7200]),
        "start_clock": rng.choice([0, 0, 3600 * rng.randint(0, 23), rng.randint(0, 86399)]),
        "pdd": f("pdd", 0.3),
        "pump": f("pump", 0.6),
        "res_head": round(rng.uniform(40, 60), 2),
        "elev": [round(rng.uniform(0, 8), 2) for _ in range(n)],
        "demand": [round(rng.uniform(0.001, 0.012), 5) for _ in range(n)],
        "pattern": [round(rng.uniform(0.3, 1.8), 3) for _ in range(rng.randint(2, 6))],
        "pipes_d": [rng.choice([0.2, 0.25, 0.3, 0.35]) for _ in range(n + 2)],
        "pipes_l": [round(rng.uniform(80, 600), 1) for _ in range(n + 2)],
        "tanks": [],
        "controls": [],
        "leaks": [],
        "isolation": None,
    }
    ntanks = force.get("tanks", rng.choice([0, 1, 1, 2]))
    for i in range(ntanks):
        spec["tanks"].append({
            "at": rng.randrange(n),
            "elev": round(rng.uniform(28, 36), 2),
            "init": round(rng.uniform(1.5, 4.5), 2),
            "min": round(rng.uniform(0.0, 1.0), 2),
            "max": round(rng.uniform(5.0, 7.0), 2),
            "diam": round(rng.uniform(4.0, 9.0), 1),
            "pipe_d": rng.choice([0.2, 0.25, 0.3]),
        })
    ctl = spec["controls"]
    # targets: ring pipes "L<i>" (closing one never isolates a ring node because of the chord), the pump "P"
    ring_targets = ["L%d" % i for i in range(1, n)]
    tgt = lambda: rng.choice(ring_targets)
    tval = lambda: rng.randint(1, steps - 1) * hyd + rng.choice([0, 0, rng.randint(1, hyd - 1)])
    if f("time_controls", 0.7):
        for _ in range(rng.randint(1, 3)):
            t0 = tval()
            L = tgt()
            ctl.append({"kind": "time", "link": L, "status": 0, "at": t0, "prio": 3})
            if rng.random() < 0.7:
                ctl.append({"kind": "time", "link": L, "status": 1, "at": min(duration, t0 + rng.randint(1, 4 * hyd)), "prio": 3})
    if f("clock_controls", 0.35):
        L = tgt()
        ctl.append({"kind": "clock", "link": L, "status": 0, "at": rng.choice([3600 * rng.randint(0, 23), rng.randint(0, 86399)]), "prio": 3})
        ctl.append({"kind": "clock", "link": L, "status": 1, "at": rng.choice([3600 * rng.randint(0, 23), rng.randint(0, 86399)]), "prio": 3})
    if spec["tanks"] and f("level_controls", 0.7):
        tk = rng.randrange(len(spec["tanks"]))
        t = spec["tanks"][tk]
        lo = round(t["init"] - rng.uniform(0.05, 0.8), 3)
        hi = round(t["init"] + rng.uniform(0.05, 0.8), 3)
        target = "P" if (spec["pump"] and rng.random() < 0.6) else tgt()
        # classic fill / draw pair
        ctl.append({"kind": "level", "link": target, "status": 1, "tank": tk, "rel": "<", "level": lo, "prio": 3})
        ctl.append({"kind": "level", "link": target, "status": 0, "tank": tk, "rel": ">", "level": hi, "prio": 3})
    if f("rules", 0.5):
        for _ in range(rng.randint(1, 2)):
            L = tgt()
            if spec["tanks"] and rng.random() < 0.5:
                tk = rng.randrange(len(spec["tanks"]))
                t = spec["tanks"][tk]
                ctl.append({"kind": "rule_level", "link": L, "tank": tk, "rel": rng.choice([">", "<"]),
                            "level": round(t["init"] + rng.uniform(-0.6, 0.6), 3), "then": 0, "else": rng.choice([None, 1]),
                            "prio": rng.choice([1, 3, 5])})
            else:
                ctl.append({"kind": "rule_time", "link": L, "rel": rng.choice([">=", ">"]), "at": tval(),
                            "and_before": rng.choice([None, tval()]), "then": 0, "else": rng.choice([None, 1]),
                            "prio": rng.choice([1, 3, 5])})
    if f("leaks", 0.4):
        for node in rng.sample(range(n), rng.randint(1, 2)):
            a = tval()
            spec["leaks"].append({"node": node, "area": round(rng.uniform(0.0005, 0.004), 5),
                                  "start": a, "end": rng.choice([None, a + rng.randint(1, 5 * hyd)])})
    if f("isolation", 0.35):
        a = rng.randint(1, steps - 2) * hyd + rng.choice([0, 0, rng.randint(1, hyd - 1)])
        spec["isolation"] = {"close": a, "open": min(duration, a + rng.randint(1, 4) * hyd + rng.choice([0, rng.randint(1, hyd - 1)]))}
    # a low zone Z0-Z1 behind a control valve V; its setting / status are changed by time controls
    spec["valve"] = None
    if f("valve", 0.45):
        vt = force.get("valve_type") or rng.choice(["PRV", "PRV", "PSV", "FCV", "TCV"])
        rset = {"PRV": lambda: round(rng.uniform(8, 30), 2), "PSV": lambda: round(rng.uniform(15, 40), 2),
                "FCV": lambda: round(rng.uniform(0.001, 0.012), 5), "TCV": lambda: round(rng.uniform(2, 400), 1)}[vt]
        ev = []
        for _ in range(rng.randint(1, 3)):
            if rng.random() < 0.75:
                ev.append({"at": tval(), "what": "setting", "value": rset()})
            else:
                ev.append({"at": tval(), "what": "status", "value": rng.choice([0, 1, 2])})  # Closed / Open / Active
        spec["valve"] = {"type": vt, "setting": rset(), "at": rng.randrange(n), "events": sorted(ev, key=lambda e: e["at"]),
                         "demand": [round(rng.uniform(0.001, 0.006), 5) for _ in range(2)], "elev": round(rng.uniform(-5, 2), 2)}
    # a second, weaker source behind a check-valve pipe, and check valves on the chord
    spec["cv"] = None
    if f("cv", 0.35):
        spec["cv"] = {"at": rng.randrange(n), "head": round(spec["res_head"] + rng.uniform(-12, 25), 2), "chord_cv": rng.random() < 0.5}
    # pump speed (speed pattern, time controls on base_speed): WNTRSimulator raises NotImplementedError("Pump speeds other
    # than 1.0 are not yet supported") for head pumps, so this is only generated when forced (never by the streams)
    spec["speed"] = None
    if spec["pump"] and force.get("speed"):
        spec["speed"] = {"pattern": rng.choice([None, [round(rng.uniform(0.8, 1.15), 3) for _ in range(rng.randint(2, 5))]]),
                         "events": [{"at": tval(), "value": round(rng.uniform(0.7, 1.2), 3)} for _ in range(rng.randint(1, 3))]}
    return spec


def event_times(spec):
    """instants at which a valve setting / valve status / pump speed control fires"""
    out = []
    if spec.get("valve"):
        out += [e["at"] for e in spec["valve"]["events"]]
    if spec.get("speed"):
        out += [e["at"] for e in spec["speed"]["events"]]
    return sorted(out)


def build_net(wntr, spec):
    from wntr.network.controls import (Control, Rule, ControlAction, SimTimeCondition, TimeOfDayCondition,
                                       ValueCondition, AndCondition)
    LS = wntr.network.LinkStatus
    wn = wntr.network.WaterNetworkModel()
    n = spec["n"]
    wn.add_pattern("pat", spec["pattern"])
    wn.add_reservoir("R", base_head=spec["res_head"])
    for i in range(n):
        wn.add_junction("J%d" % i, base_demand=spec["demand"][i], elevation=spec["elev"][i], demand_pattern="pat")
    if spec["pump"]:
        wn.add_curve("pc", "HEAD", [(0.0, 45.0), (0.03, 35.0), (0.06, 15.0)])
        wn.add_junction("S", base_demand=0.0, elevation=0.0)
        wn.add_pipe("L0", "R", "S", length=50.0, diameter=0.4, roughness=110)
        if spec.get("speed") and spec["speed"]["pattern"]:
            wn.add_pattern("spd", spec["speed"]["pattern"])
            wn.add_pump("P", "S", "J0", pump_type="HEAD", pump_parameter="pc", speed=1.0, pattern="spd")
        else:
            wn.add_pump("P", "S", "J0", pump_type="HEAD", pump_parameter="pc")
        wn.add_pipe("LB", "R", "J0", length=900.0, diameter=0.15, roughness=100)  # a by-pass keeps J0 fed when P is off
    else:
        wn.add_pipe("L0", "R", "J0", length=spec["pipes_l"][0], diameter=0.35, roughness=110)
    for i in range(1, n):
        wn.add_pipe("L%d" % i, "J%d" % (i - 1), "J%d" % i, length=spec["pipes_l"][i], diameter=spec["pipes_d"][i], roughness=100)
    wn.add_pipe("LC", "J%d" % (n - 1), "J0", length=spec["pipes_l"][n], diameter=spec["pipes_d"][n], roughness=100)
    cv = spec.get("cv")
    if n >= 4:
        wn.add_pipe("LX", "J1", "J%d" % (n - 1), length=spec["pipes_l"][n + 1], diameter=spec["pipes_d"][n + 1], roughness=100,
                    check_valve=bool(cv and cv["chord_cv"]))
    if cv:
        wn.add_reservoir("R2", base_head=cv["head"])
        wn.add_pipe("LCV", "R2", "J%d" % cv["at"], length=400.0, diameter=0.2, roughness=100, check_valve=True)
    vs = spec.get("valve")
    if vs:
        wn.add_junction("Z0", base_demand=vs["demand"][0], elevation=vs["elev"], demand_pattern="pat")
        wn.add_junction("Z1", base_demand=vs["demand"][1], elevation=vs["elev"] - 1.0, demand_pattern="pat")
        wn.add_valve("V", "J%d" % vs["at"], "Z0", diameter=0.25, valve_type=vs["type"], minor_loss=0.0, initial_setting=vs["setting"])
        wn.add_pipe("LZ", "Z0", "Z1", length=200.0, diameter=0.2, roughness=100)
    for k, t in enumerate(spec["tanks"]):
        wn.add_tank("T%d" % k, elevation=t["elev"], init_level=t["init"], min_level=t["min"], max_level=t["max"], diameter=t["diam"])
        wn.add_pipe("LT%d" % k, "J%d" % t["at"], "T%d" % k, length=60.0, diameter=t["pipe_d"], roughness=110)
    if spec["isolation"]:
        wn.add_junction("D", base_demand=0.003, elevation=2.0, demand_pattern="pat")
        wn.add_pipe("PD", "J%d" % (n - 1), "D", length=150.0, diameter=0.2, roughness=100)
        iv = spec.get("iso_valve")
        if iv:
            # a valve INSIDE the zone that PD cuts off (its _is_isolated flag is set while the zone is isolated)
            wn.add_junction("D2", base_demand=0.002, elevation=1.0, demand_pattern="pat")
            wn.add_valve("VD", "D", "D2", diameter=0.2, valve_type=iv["type"], minor_loss=0.0, initial_setting=iv["setting"])
            if iv["parallel"]:
                wn.add_pipe("PDP", "D", "D2", length=300.0, diameter=0.1, roughness=100)
    o = wn.options
    o.time.hydraulic_timestep = spec["hyd"]
    o.time.rule_timestep = spec["rule"]
    o.time.report_timestep = spec["report"]
    o.time.report_start = spec.get("report_start", 0)
    o.time.quality_timestep = spec.get("quality_step", 360)
    o.time.pattern_timestep = spec["pattern_step"]
    o.time.duration = spec["duration"]
    o.time.start_clocktime = spec["start_clock"]
    if spec["pdd"]:
        o.hydraulic.demand_model = "PDD"
        o.hydraulic.required_pressure = 20.0
        o.hydraulic.minimum_pressure = 0.0
    idx = 0
    for c in spec["controls"]:
        link = wn.get_link(c["link"])
        name = "c%d" % idx
        idx += 1
        if c["kind"] == "time":
            wn.add_control(name, Control(SimTimeCondition(wn, "=", c["at"]), ControlAction(link, "status", LS(c["status"])), priority=c["prio"]))
        elif c["kind"] == "clock":
            wn.add_control(name, Control(TimeOfDayCondition(wn, "=", c["at"], repeat=True), ControlAction(link, "status", LS(c["status"])), priority=c["prio"]))
        elif c["kind"] == "level":
            tank = wn.get_node("T%d" % c["tank"])
            wn.add_control(name, Control._conditional_control(tank, "level", c["rel"], c["level"], ControlAction(link, "status", LS(c["status"]))))
        elif c["kind"] == "rule_level":
            tank = wn.get_node("T%d" % c["tank"])
            cond = ValueCondition(tank, "level", c["rel"], c["level"])
            els = [ControlAction(link, "status", LS(c["else"]))] if c["else"] is not None else []
            wn.add_control(name, Rule(cond, [ControlAction(link, "status", LS(c["then"]))], els, priority=c["prio"]))
        elif c["kind"] == "rule_time":
            cond = SimTimeCondition(wn, c["rel"], c["at"])
            if c["and_before"] is not None:
                cond = AndCondition(cond, SimTimeCondition(wn, "<", c["and_before"]))
            els = [ControlAction(link, "status", LS(c["else"]))] if c["else"] is not None else []
            wn.add_control(name, Rule(cond, [ControlAction(link, "status", LS(c["then"]))], els, priority=c["prio"]))
    for lk in spec["leaks"]:
        wn.get_node("J%d" % lk["node"]).add_leak(wn, area=lk["area"], start_time=lk["start"], end_time=lk["end"])
    if vs:
        v = wn.get_link("V")
        for j, e in enumerate(vs["events"]):
            act = ControlAction(v, "setting", e["value"]) if e["what"] == "setting" else ControlAction(v, "status", LS(e["value"]))
            wn.add_control("valve_ev%d" % j, Control(SimTimeCondition(wn, "=", e["at"]), act))
    if spec.get("speed"):
        pmp = wn.get_link("P")
        for j, e in enumerate(spec["speed"]["events"]):
            wn.add_control("speed_ev%d" % j, Control(SimTimeCondition(wn, "=", e["at"]), ControlAction(pmp, "base_speed", e["value"])))
    if spec["isolation"]:
        pd_ = wn.get_link("PD")
        wn.add_control("iso_close", Control(SimTimeCondition(wn, "=", spec["isolation"]["close"]), ControlAction(pd_, "status", LS.Closed)))
        wn.add_control("iso_open", Control(SimTimeCondition(wn, "=", spec["isolation"]["open"]), ControlAction(pd_, "status", LS.Open)))
    return wn


NODE_KEYS = ["head", "demand", "pressure", "leak_demand"]
LINK_KEYS = ["flowrate", "status", "setting"]


def _frames(res):
    out = {}
    for k in NODE_KEYS:
        if k in res.node:
            out["node." + k] = res.node[k]
    for k in LINK_KEYS:
        if k in res.link:
            out["link." + k] = res.link[k]
    return out


def run_parts(wntr, wn, durations, do_pickle):
    """run `wn` in legs ending at `durations` (the last is the full duration), a NEW simulator object per leg;
    -> (list of per-leg frames dicts, final wn, error string|None)"""
    legs = []
    for d in durations:
        wn.options.time.duration = d
        sim = wntr.sim.WNTRSimulator(wn)
        try:
            res = sim.run_sim(solver_options={"TOL": SOLVER_TOL}, convergence_error=True)
        except Exception as e:
            return legs, wn, "%s: %s" % (type(e).__name__, e)
        legs.append(_frames(res))
        if do_pickle and d != durations[-1]:
            wn = pickle.loads(pickle.dumps(wn))
    return legs, wn, None


def compare(full, legs, pauses):
    """-> list of (key, message) problems; empty = the paused run equals the uninterrupted one"""
    import numpy as np
    import pandas as pd

    probs = []
    ft = [int(t) for t in full["node.head"].index]
    lt = [[int(t) for t in leg["node.head"].index] for leg in legs]
    cat = [t for l in lt for t in l]
    # never revisit earlier times / start after the pause
    for i in range(1, len(lt)):
        if lt[i] and lt[i][0] <= pauses[i - 1]:
            probs.append(("restart-revisits-earlier-time", "continuation %d starts at t=%d although the previous part ended at the pause t=%d" % (i, lt[i][0], pauses[i - 1])))
            return probs
    if cat != ft:
        extra = [t for t in cat if t not in ft][:5]
        missing = [t for t in ft if t not in cat][:5]
        key = "restart-times-differ"
        if extra and not missing and all(t > ft[-1] for t in extra):
            key = "restart-extra-step-beyond-duration"
        probs.append((key, "reported times differ: uninterrupted %s..., paused %s... (extra %s, missing %s)" % (ft[:12], cat[:12], extra, missing)))
        return probs
    for k in full:
        a = full[k]
        b = pd.concat([leg[k] for leg in legs], axis=0)
        if list(a.columns) != list(b.columns):
            probs.append(("restart-columns-differ", "%s columns differ" % k))
            continue
        av, bv = a.values.astype(float), b.values.astype(float)
        if k == "link.status":
            bad = np.argwhere(av != bv)
            tag = "status"
        else:
            with np.errstate(invalid="ignore"):
                bad = np.argwhere(~(np.abs(av - bv) <= ATOL + RTOL * np.maximum(np.abs(av), np.abs(bv))))
            tag = k.split(".")[1]
        if len(bad):
            r, c = bad[0]
            probs.append(("restart-%s-differs" % tag, "%s differs at t=%d for %s: uninterrupted %r, paused %r (%d cells differ; pauses %s)"
                          % (k, ft[r], a.columns[c], av[r, c], bv[r, c], len(bad), pauses)))
    return probs


def classify(spec, probs, pauses):
    """stable key naming the input class: which feature of the network is involved"""
    key, msg = probs[0]
    if spec.get("isolation"):
        iso = spec["isolation"]
        if any(iso["close"] <= p < iso["open"] for p in pauses):
            return key + "-isolated-at-pause", msg
    return key, msg


class C10(Check):
    pid = "C10"
    level = "proof"
    prop_modules = ["WntrModel.Props.C10"]
    manifest = dict(
        category="proof",
        text="Lean theorems over the hand-written model of run_sim's time-stepping driver (M5 Sched: pre-solve scheduler, rule grid, "
        "first_step detection, _rule_iter re-initialisation, report grid): for every configuration, start and pause time with at least "
        "one hydraulic step left, running to the pause and continuing with a new simulator from (sim_time, _prev_sim_time, element states) "
        "gives the same rows, clock and states as the uninterrupted run; the continuation's rows are strictly later than the pause; "
        "induction to any list of pauses; the statement without 'a step is left' is refuted by a witness. The model is tied to the code by "
        "running random time-control/rule schedules paused (new simulator per part, optional pickle) on the real WNTRSimulator against the "
        "Lean model, and the property itself is evaluated on the real simulator on random networks with tanks, pumps, time/clock/tank-level "
        "controls, rules, leaks and isolation episodes, paused at 1-3 grid points with and without pickle.",
        design_ref="DESIGN.md §5 C10",
        note="modelled (theorems): the time/clock-driven scheduling state of run_sim. NOT modelled in Lean, checked on the real code only: "
        "hydraulic state carried in the model (tank heads, link statuses, leak status, isolation flags, TankLevelCondition._last_value), the "
        "re-creation of the hydraulic model and internal controls, pickle. Numbers are compared at 1e-6 relative + 1e-7 absolute with the "
        "Newton tolerance set to 1e-9 (a continued run starts Newton from a rebuilt model, so results agree only up to the solver tolerance).",
        technique="Lean 4 proof over hand-written scheduler model + differential paused runs against WNTRSimulator + paused-vs-uninterrupted oracle",
    )
    rule = (
        "cases: (a) time-only schedules (schedgen) x random 1-3 pauses on the hydraulic grid x pickle yes/no: real paused WNTRSimulator timeline vs "
        "Lean runSim continued (rows, final sim_time/_prev_sim_time, rule evaluation times per leg); (b) random hydraulic networks x 1-3 pauses x pickle "
        "yes/no: concatenated results vs uninterrupted run; distinct = distinct generated (network|schedule, pauses, pickle); non-trivial = some status "
        "changes during the run (a) / the network has at least one control, rule, leak or tank (b)"
    )
    trusted_base = [
        "correspondence harness harness/props/c10.py + harness/schedgen.py",
        "hand-written Lean model Model/Sched.lean (tied by the differential runs of this check and of C04)",
        "pickle module; pandas concat",
    ]
    assumptions = [
        "at least one hydraulic step lies between a pause and the final duration (a run that is already complete is not 'continued')",
        "every hydraulic solve converges (runs that raise are counted and skipped, not judged)",
        "numeric results are compared at 1e-6 relative + 1e-7 absolute, Newton TOL 1e-9",
    ]

    # ------------------------------------------------------------------ translator: simulator-object state
    def translate(self, ctx):
        """Gen/RestartFields.lean: which attributes of the WNTRSimulator object the `while True` loop of run_sim (and the
        methods it calls) rebinds / reads, which of them the prologue of run_sim (statements before the loop + the methods
        they call, NOT __init__) assigns, and for which the assigned expression reads the network `self._wn`.  Extracted
        with `ast` from wntr/sim/core.py as it is now; Props/C10.lean proves by `decide` that the loop rebinds only the
        fields of Model/Restart.SimState, that everything the loop reads is rebuilt by every run_sim, and that the modelled
        fields are rebuilt FROM THE NETWORK -- a new piece of simulator state that is not re-derived breaks these."""
        import ast

        path = os.path.join(vlib.REPO, "wntr", "sim", "core.py")
        try:
            tree = ast.parse(open(path).read())
            cls = next(n for n in tree.body if isinstance(n, ast.ClassDef) and n.name == "WNTRSimulator")
            methods = {n.name: n for n in cls.body if isinstance(n, ast.FunctionDef)}
            rs = methods["run_sim"]
            wi = next(i for i, n in enumerate(rs.body) if isinstance(n, ast.While))
        except (StopIteration, KeyError, SyntaxError, OSError) as e:
            raise vlib.BrokenTie("cannot locate WNTRSimulator.run_sim / its while loop in wntr/sim/core.py: %r" % (e,))

        def chain(node):
            """self.a.b[...] -> ['a', 'b'] (attribute path below `self`), else None"""
            path_ = []
            while isinstance(node, (ast.Subscript, ast.Attribute)):
                if isinstance(node, ast.Attribute):
                    path_.append(node.attr)
                node = node.value
            return list(reversed(path_)) if isinstance(node, ast.Name) and node.id == "self" else None

        def targets(x):
            tg = x.targets if isinstance(x, ast.Assign) else [x.target] if isinstance(x, (ast.AugAssign, ast.AnnAssign)) else []
            return [e for t in tg for e in (t.elts if isinstance(t, (ast.Tuple, ast.List)) else [t])]

        def mentions_wn(node):
            return any(isinstance(y, ast.Attribute) and y.attr == "_wn" and isinstance(y.value, ast.Name) and y.value.id == "self" for y in ast.walk(node))

        def calls(nodes):
            return {x.func.attr for n in nodes for x in ast.walk(n)
                    if isinstance(x, ast.Call) and isinstance(x.func, ast.Attribute) and isinstance(x.func.value, ast.Name)
                    and x.func.value.id == "self" and x.func.attr in methods}

        def closure(nodes):
            seen, todo = set(), list(calls(nodes))
            while todo:
                m = todo.pop()
                if m not in seen:
                    seen.add(m)
                    todo += list(calls(methods[m].body))
            return seen

        prologue, loop = rs.body[:wi], [rs.body[wi]]
        pm, lm = closure(prologue), closure(loop)
        loop_nodes = loop + [methods[m] for m in sorted(lm)]
        stored, wn_stored, read = set(), set(), set()
        for n in loop_nodes:
            for x in ast.walk(n):
                for e in targets(x):
                    c = chain(e)
                    if c:
                        if c[0] == "_wn":
                            wn_stored.add(".".join(c[1:]) or "_wn")
                        else:
                            stored.add(c[0])
                if isinstance(x, ast.Attribute) and isinstance(x.value, ast.Name) and x.value.id == "self" and isinstance(x.ctx, ast.Load) \
                        and x.attr not in methods:
                    read.add(x.attr)
        assigned, reads_wn = set(), set()
        for holder, nodes in [(None, prologue)] + [(m, methods[m].body) for m in sorted(pm)]:
            meth_wn = holder is not None and any(mentions_wn(n) for n in nodes)
            for n in nodes:
                for x in ast.walk(n):
                    for e in targets(x):
                        c = chain(e)
                        if c and c[0] != "_wn" and len(c) == 1:
                            assigned.add(c[0])
                            val = getattr(x, "value", None)
                            if (val is not None and mentions_wn(val)) or meth_wn:
                                reads_wn.add(c[0])
        # which element collections of the network the prologue iterates over to rebuild `_prev_isolated_*`
        iso_src = {"_prev_isolated_junctions": set(), "_prev_isolated_links": set()}
        for n in prologue:
            for x in ast.walk(n):
                for e in targets(x):
                    c = chain(e)
                    if c and len(c) == 1 and c[0] in iso_src and getattr(x, "value", None) is not None:
                        for y in ast.walk(x.value):
                            cy = chain(y) if isinstance(y, ast.Attribute) else None
                            if cy and len(cy) == 2 and cy[0] == "_wn" and cy[1] not in ("get_link", "get_node"):
                                iso_src[c[0]].add(cy[1])
        # network-owned state (private attributes of wn / elements / conditions) that the loop and the functions it calls in
        # wntr/sim/hydraulics.py, the conditions' evaluate() methods and the status/setting/leak_status setters write or read
        def base_name(node):
            while isinstance(node, (ast.Attribute, ast.Subscript)):
                node = node.value
            return node.id if isinstance(node, ast.Name) else None

        def scan(nodes, skip_self):
            w, r = set(), set()
            for n in nodes:
                for x in ast.walk(n):
                    if isinstance(x, ast.Attribute) and x.attr.startswith("_") and not x.attr.startswith("__"):
                        if skip_self and isinstance(x.value, ast.Name) and x.value.id == "self":
                            continue
                        if base_name(x) in ("logger", "np", "wntr", "math", "logging", "scipy"):
                            continue
                        (w if isinstance(x.ctx, ast.Store) else r).add(x.attr)
            return w, r

        try:
            hyd = ast.parse(open(os.path.join(vlib.REPO, "wntr", "sim", "hydraulics.py")).read())
            ctl = ast.parse(open(os.path.join(vlib.REPO, "wntr", "network", "controls.py")).read())
            elm = ast.parse(open(os.path.join(vlib.REPO, "wntr", "network", "elements.py")).read())
            bas = ast.parse(open(os.path.join(vlib.REPO, "wntr", "network", "base.py")).read())
        except (SyntaxError, OSError) as e:
            raise vlib.BrokenTie("cannot parse hydraulics.py / controls.py / elements.py / base.py: %r" % (e,))
        hfun = {n.name: n for n in hyd.body if isinstance(n, ast.FunctionDef)}
        hcalled = sorted({ast.unparse(x.func).split(".")[-1] for n in loop_nodes for x in ast.walk(n)
                          if isinstance(x, ast.Call) and ast.unparse(x.func).startswith("wntr.sim.hydraulics.")})
        missing = [f for f in hcalled if f not in hfun]
        if missing:
            raise vlib.BrokenTie("run_sim calls wntr.sim.hydraulics.%s which is not a top-level function" % missing[0])
        evals = [f for c in ctl.body if isinstance(c, ast.ClassDef) and c.name.endswith("Condition")
                 for f in c.body if isinstance(f, ast.FunctionDef) and f.name == "evaluate"]
        setters = [f for mod in (elm, bas) for c in mod.body if isinstance(c, ast.ClassDef) for f in c.body
                   if isinstance(f, ast.FunctionDef) and f.name in ("status", "setting", "leak_status", "_internal_status", "_user_status", "initial_status")
                   and any(ast.unparse(d).endswith(".setter") for d in f.decorator_list)]
        w1, r1 = scan(loop_nodes, True)
        w2, r2 = scan([hfun[f] for f in hcalled if not f.startswith("update_model_for")], False)
        w3, r3 = scan(evals, False)
        w4, r4 = scan(setters, False)
        # what control actions write: the string constants ControlAction assigns to `_private_attribute` and the attribute
        # names the simulator passes to `_InternalControlAction`
        w5 = set()
        for x in ast.walk(ctl):
            if isinstance(x, ast.Assign) and any(ast.unparse(t) == "self._private_attribute" for t in x.targets) \
                    and isinstance(x.value, ast.Constant) and isinstance(x.value.value, str):
                w5.add(x.value.value)
        for x in ast.walk(cls):
            if isinstance(x, ast.Call) and ast.unparse(x.func) == "_InternalControlAction" and len(x.args) >= 2 \
                    and isinstance(x.args[1], ast.Constant) and isinstance(x.args[1].value, str):
                w5.add(x.args[1].value)
        net_written = w1 | w2 | w3 | w4 | w5 | {"sim_time"}
        net_read = r1 | r2 | r3 | r4

        # _setup_sim_options: the adjustment of the hydraulic / report steps and whether it looks at the clock
        try:
            so = methods["_setup_sim_options"]
        except KeyError:
            raise vlib.BrokenTie("WNTRSimulator._setup_sim_options not found")
        setup_reads_clock = any(isinstance(x, ast.Attribute) and x.attr in ("sim_time", "_prev_sim_time") for x in ast.walk(so))

        def strip_msgs(stmts):
            out = []
            for st in stmts:
                t = ast.unparse(st)
                if t.startswith(("msg =", "logger.", "warnings.warn")):
                    continue
                out.append(st)
            return out

        num = None
        for x in so.body:
            if isinstance(x, ast.If) and ast.unparse(x.test) == "isinstance(self._report_timestep, str)":
                num = x.orelse
        setup_toks = None
        if num and len(num) == 1 and isinstance(num[0], ast.If):
            a = num[0]
            b = a.orelse[0] if len(a.orelse) == 1 and isinstance(a.orelse[0], ast.If) else None
            if (ast.unparse(a.test) == "self._report_timestep < self._hydraulic_timestep"
                    and [ast.unparse(t) for t in strip_msgs(a.body)] == ["self._hydraulic_timestep = self._report_timestep"]
                    and b is not None and not b.orelse
                    and ast.unparse(b.test) == "self._report_timestep % self._hydraulic_timestep != 0"
                    and [ast.unparse(t) for t in strip_msgs(b.body)] == ["new_report = self._report_timestep - self._report_timestep % self._hydraulic_timestep",
                                                                        "self._report_timestep = new_report"]):
                setup_toks = [".ifReportLtHyd_setHydToReport", ".elifReportNotMultiple_floorReport"]
        if setup_toks is None:
            raise vlib.BrokenTie("_setup_sim_options: the adjustment of the hydraulic / report timestep for a numeric report timestep is not the "
                                 "`if report < hyd: hyd = report / elif report % hyd != 0: report = floor` chain the model mirrors")

        init_only = set()
        for x in ast.walk(methods["__init__"]):
            for e in targets(x):
                c = chain(e)
                if c and len(c) == 1 and c[0] not in assigned:
                    init_only.add(c[0])

        def lst(name, xs, doc):
            return "/-- %s -/\ndef %s : List String := [%s]\n" % (doc, name, ", ".join('"%s"' % v for v in sorted(xs)))

        text = ("/- GENERATED by harness/props/c10.py (translate) from wntr/sim/core.py: class WNTRSimulator, method run_sim.\n"
                "   Do not edit. -/\nimport WntrModel.Model.Restart\nnamespace Wntr.Gen.RestartFields\n\n"
                + "/-- does `_setup_sim_options` read the clock (`sim_time`, `_prev_sim_time`)? -/\ndef setupReadsClock : Bool := %s\n" % ("true" if setup_reads_clock else "false")
                + "/-- the step adjustment of `_setup_sim_options` for a numeric report timestep -/\ndef setupAdjust : List Wntr.Restart.SetupTok := [%s]\n" % ", ".join(setup_toks)
                + lst("storedInLoop", stored, "attributes of the simulator object that the `while True` loop of run_sim or a method it calls REBINDS (`self.x = …`, `self.x[…] = …`)")
                + lst("wnStoredInLoop", wn_stored, "attributes of the network stored through `self._wn.… = …` in that code")
                + lst("readInLoop", read, "attributes of the simulator object that code reads (methods excluded)")
                + lst("assignedInPrologue", assigned, "attributes assigned by run_sim BEFORE the loop or by a method called from there (not `__init__`)")
                + lst("prologueReadsWn", reads_wn, "… whose assigned expression (or assigning method) reads `self._wn`")
                + lst("initOnly", init_only, "attributes assigned in `__init__` only")
                + lst("hydraulicsCalledInLoop", hcalled, "functions of wntr/sim/hydraulics.py the loop calls")
                + lst("networkStateWritten", net_written, "private attributes of the network (wn, elements, conditions) WRITTEN by the loop, those functions (model updaters excluded), the conditions' evaluate() and the status / setting / leak_status setters (+ the clock `sim_time`)")
                + lst("networkStateRead", net_read, "private attributes of the network READ by that code")
                + lst("prevIsoJunctionSources", iso_src["_prev_isolated_junctions"], "collections of `self._wn` the prologue iterates over to rebuild `_prev_isolated_junctions`")
                + lst("prevIsoLinkSources", iso_src["_prev_isolated_links"], "… to rebuild `_prev_isolated_links`")
                + "\nend Wntr.Gen.RestartFields\n")
        vlib.write_if_changed(os.path.join(vlib.GEN, "RestartFields.lean"), text)
        ctx.cov["restart_fields"] = {"stored_in_loop": sorted(stored), "wn_stored_in_loop": sorted(wn_stored), "read_in_loop": len(read)}

    # ------------------------------------------------------------------ (a) model correspondence, paused
    def _pauses(self, rng, hyd, duration, maxn=3):
        nsteps = duration // hyd
        if nsteps < 2:
            return []
        k = min(rng.randint(1, maxn), nsteps - 1)
        # pause times on the hydraulic grid, 0 <= t < duration, at least one step left after the last
        pts = sorted(rng.sample(range(0, nsteps), k))
        pts = [p * hyd for p in pts if p * hyd + hyd <= duration]
        if getattr(self, "repaired", False) and pts and rng.random() < 0.2:
            # with the repaired run_sim a part that has nothing left to do is a no-op: pause on the last step / twice at the same time
            pts = sorted(pts + [rng.choice([pts[-1], (duration // hyd) * hyd])])
        return pts

    def _run_sched_paused(self, ctx, failures, broken, cases, tag):
        wntr = vlib.import_wntr()
        lines, nruns = [], []
        for s, pauses, pk in cases:
            durations = pauses + [s["duration"]]
            L = schedgen.driver_lines(schedgen.fix_tod_first_day(s), durations)
            lines += L
            nruns.append(len(durations))
        out = vlib.lean_run("Drivers/SchedDriver.lean", "\n".join(lines) + "\n")
        out = [l for l in out if l.startswith(("row ", "end ")) or l == "bad-op"]
        # split per case
        pos = 0
        nd = 0
        for (s, pauses, pk), k in zip(cases, nruns):
            chunk = []
            ends = 0
            while ends < k:
                if pos >= len(out):
                    raise vlib.Infra("SchedDriver output too short")
                chunk.append(out[pos])
                if out[pos].startswith("end "):
                    ends += 1
                pos += 1
            try:
                mruns = schedgen.parse_driver_runs(chunk, k)
            except ValueError as e:
                raise vlib.Infra("driver output unparsable for %s: %s" % (json.dumps(s), e))
            durations = pauses + [s["duration"]]
            hyd, _ = schedgen.eff_steps(s)
            wn = schedgen.build_wn(wntr, s)
            try:
                impl_legs, wn_end = schedgen.run_impl_legs(wntr, wn, durations, pk)
                err = None
            except Exception as e:
                impl_legs, err = [], "%s: %s" % (type(e).__name__, e)
            rule_times = [list(x) for x in schedgen.RULE_TIMES]
            ctx.case((tag, json.dumps(s, sort_keys=True), tuple(pauses), pk), True)
            ctx.count("sched-paused:%s:pauses=%d:pickle=%s" % (tag, len(pauses), pk))
            if err:
                failures.append(Failure("restart-run_sim-raises-time-schedule", "paused run_sim raised: " + err, {"schedule": s, "pauses": pauses, "pickle": pk, "error": err}))
                continue
            has_rules = any(c["kind"] == "R" for c in s["controls"])
            relaxed = has_rules and not schedgen.rule_window_repaired(wntr)  # known finding C04 rule-eq-premise-missed: model = repaired code
            for i, ((mrows, mend, mrules), (irows, iend)) in enumerate(zip(mruns, impl_legs)):
                if relaxed:
                    if irows != mrows:
                        ctx.count("rule-schedule-differs-on-unrepaired-tree")
                    break
                if irows != mrows or tuple(iend) != tuple(mend[:2]) or (has_rules and rule_times[i] != mrules):
                    nd += 1
                    if nd <= 3:
                        broken.append(Broken("correspondence", "Sched.lean continued runSim vs paused WNTRSimulator",
                                             "schedule %s pauses %s pickle %s leg %d:\n impl rows %s end %s rules %s\n model rows %s end %s rules %s"
                                             % (json.dumps(s), pauses, pk, i, irows[:8], iend, rule_times[i][:10], mrows[:8], mend, mrules[:10])))
                    break
            # the property on the implementation for these schedules: paused == uninterrupted (statuses and times exactly)
            wn2 = schedgen.build_wn(wntr, s)
            full_legs, _ = schedgen.run_impl_legs(wntr, wn2, [s["duration"]], False)
            full_rows = full_legs[0][0]
            cat = [r for (rows, _) in impl_legs for r in rows]
            for i in range(1, len(impl_legs)):
                rows = impl_legs[i][0]
                if rows and rows[0][0] <= pauses[i - 1]:
                    failures.append(Failure("restart-revisits-earlier-time", "continuation %d of a time-control schedule starts at t=%d, pause was t=%d" % (i, rows[0][0], pauses[i - 1]),
                                            {"schedule": s, "pauses": pauses, "pickle": pk}))
                    break
            else:
                if cat != full_rows:
                    j = next((i for i in range(min(len(cat), len(full_rows))) if cat[i] != full_rows[i]), min(len(cat), len(full_rows)))
                    failures.append(Failure("restart-time-schedule-differs" + ("-rules" if has_rules else ""),
                                            "paused run of a time-control schedule differs from the uninterrupted run at row %d: paused %s, uninterrupted %s (pauses %s, pickle %s)"
                                            % (j, cat[j] if j < len(cat) else None, full_rows[j] if j < len(full_rows) else None, pauses, pk),
                                            {"schedule": s, "pauses": pauses, "pickle": pk}))
        ctx.cov["sched_paused_disagreements_" + tag] = nd

    # ------------------------------------------------------------------ (b) the property on real networks
    def _run_net_case(self, ctx, wntr, spec, pauses, pk, failures, tag="random"):
        sig = (tag, json.dumps(spec, sort_keys=True), tuple(pauses), pk)
        nontrivial = bool(spec["controls"] or spec["leaks"] or spec["tanks"] or spec["isolation"] or spec.get("valve") or spec.get("speed"))
        ctx.case(sig, nontrivial)
        for c in spec["controls"]:
            ctx.count("net-ctl:" + c["kind"])
        ctx.count("net:pauses=%d" % len(pauses))
        ctx.count("net:pickle=%s" % pk)
        ctx.count("net:tanks=%d" % len(spec["tanks"]))
        if spec["leaks"]:
            ctx.count("net:leaks")
        if spec["isolation"]:
            ctx.count("net:isolation")
            if any(spec["isolation"]["close"] <= p < spec["isolation"]["open"] for p in pauses):
                ctx.count("net:paused-while-isolated")
        ctx.count("net:%s" % ("PDD" if spec["pdd"] else "DD"))
        if spec.get("valve"):
            ctx.count("net:valve:" + spec["valve"]["type"])
            for e in spec["valve"]["events"]:
                ctx.count("net:valve-control:" + e["what"])
                if any(p >= e["at"] for p in pauses):
                    ctx.count("net:paused-after-valve-%s-control" % e["what"])
        if spec.get("cv"):
            ctx.count("net:check-valves")
        if spec.get("speed"):
            ctx.count("net:pump-speed-controls" + ("+pattern" if spec["speed"]["pattern"] else ""))
            if any(p >= e["at"] for e in spec["speed"]["events"] for p in pauses):
                ctx.count("net:paused-after-speed-control")
        wn = build_net(wntr, spec)
        full, _, err = run_parts(wntr, wn, [spec["duration"]], False)
        if err:
            ctx.count("net:uninterrupted-run-fails")
            return None
        wn2 = build_net(wntr, spec)
        legs, wn_end, err2 = run_parts(wntr, wn2, pauses + [spec["duration"]], pk)
        rp = {"network": spec, "pauses": pauses, "pickle": pk}
        if err2:
            failures.append(Failure("restart-raises", "the uninterrupted run converges but the paused run raises: %s (pauses %s, pickle %s)" % (err2, pauses, pk), rp))
            return False
        probs = compare(full[0], legs, pauses)
        if probs:
            key, msg = classify(spec, probs, pauses)
            failures.append(Failure(key, msg, rp))
            return False
        ctx.sample({"network": {k: spec.get(k) for k in ("n", "hyd", "duration", "pump", "pdd", "valve", "speed", "cv")}, "controls": [c["kind"] for c in spec["controls"]],
                    "pauses": pauses, "pickle": pk, "rows": len(full[0]["node.head"].index)}, cap=4)
        return True

    def _net_stream(self, ctx, failures, n, tag="random"):
        wntr = vlib.import_wntr()
        rng = ctx.rng
        for i in range(n):
            force = {}
            if i % 5 == 1:
                force = {"isolation": True, "report_all": True}
            elif i % 5 == 2:
                force = {"tanks": rng.choice([1, 2]), "level_controls": True}
            elif i % 5 == 3:
                force = {"rules": True}
            if i % 3 == 0:
                force = dict(force, valve=True, valve_type=["PRV", "PSV", "FCV", "TCV", "PRV"][(i // 3) % 5])
            if i % 6 == 2:
                force = dict(force, cv=True)
            spec = gen_network(rng, ctx.quick, force)
            pauses = self._pauses(rng, spec["hyd"], spec["duration"])
            evs = event_times(spec)
            if evs and rng.random() < 0.8:
                # pause at the first hydraulic step at / after a setting, status or speed control fired
                h = spec["hyd"]
                e = rng.choice(evs)
                p = -(-e // h) * h + rng.choice([0, 0, h])
                if p + h <= spec["duration"]:
                    pauses = sorted(set(pauses + [p]))[:3]
            if spec["isolation"] and rng.random() < 0.7:
                # pause while the dead end is cut off
                iso = spec["isolation"]
                h = spec["hyd"]
                p = (iso["close"] // h + (1 if iso["close"] % h else 0)) * h
                if p < iso["open"] and p + h <= spec["duration"]:
                    pauses = sorted(set(pauses + [p]))[:3]
            if not pauses:
                continue
            self._run_net_case(ctx, wntr, spec, pauses, rng.random() < 0.5, failures, tag)

    def _iso_valve_family(self, ctx, failures, n):
        """designed: a PRV / PSV / FCV / TCV inside the zone that a time control cuts off (with and without a parallel pipe
        around the valve); the run is paused WHILE the zone is isolated and the zone is reconnected within the first
        hydraulic step of the continuation (also exactly on it), so the flags the first part left must be cleared by the
        new simulator for EVERY link class"""
        wntr = vlib.import_wntr()
        rng = ctx.rng
        for i in range(n):
            vt = ["PRV", "PSV", "FCV", "TCV"][i % 4]
            spec = gen_network(rng, ctx.quick, {"isolation": True, "report_all": i % 2 == 0, "valve": False, "cv": False, "leaks": False,
                                                "rules": False, "clock_controls": False})
            h = spec["hyd"]
            steps = spec["duration"] // h
            k = rng.randint(1, max(1, steps - 4))
            close = k * h - rng.choice([0, rng.randint(1, h - 1)])
            p = k * h if close <= k * h else (k + 1) * h
            p += rng.choice([0, 0, h])                         # pause on the first or second grid point inside the window
            opn = p + rng.choice([h, rng.randint(1, h - 1), rng.randint(1, h - 1)])  # reconnected within the first step of the continuation
            if opn + h > spec["duration"]:
                continue
            spec["isolation"] = {"close": close, "open": opn}
            setting = {"PRV": 15.0, "PSV": 10.0, "FCV": 0.0015, "TCV": 50.0}[vt]
            spec["iso_valve"] = {"type": vt, "setting": setting, "parallel": i % 8 < 4}
            ctx.count("net:iso-valve:%s:%s" % (vt, "parallel" if spec["iso_valve"]["parallel"] else "single"))
            self._run_net_case(ctx, wntr, spec, [p], rng.random() < 0.5, failures, "iso-valve")

    def _completed_run_probe(self, ctx, failures, broken):
        """a run that is already complete must be left alone when it is 'continued' (pause on the last hydraulic step
        before an off-grid duration; run_sim called again without a new duration).  Returns True when the
        implementation behaves like the (repaired) model."""
        wntr = vlib.import_wntr()
        ok = True
        cases = [({"hyd": 3600, "rule": 360, "report": 0, "duration": 5000, "start_clock": 0, "controls": [], "init": {}}, [3600]),
                 ({"hyd": 1800, "rule": 600, "report": 0, "duration": 7200, "start_clock": 0, "init": {"0": 1},
                   "controls": [{"id": 0, "kind": "P", "prio": 3, "cond": ("sim", "eq", 2000, 0), "then": [(0, 0)], "else": []}]}, [7200, 7200])]
        lines = []
        for s, pauses in cases:
            lines += schedgen.driver_lines(schedgen.fix_tod_first_day(s), pauses + [s["duration"]])
        out = [l for l in vlib.lean_run("Drivers/SchedDriver.lean", "\n".join(lines) + "\n") if l.startswith(("row ", "end ")) or l == "bad-op"]
        mruns = schedgen.parse_driver_runs(out, sum(len(p) + 1 for _, p in cases))
        pos = 0
        for s, pauses in cases:
            k = len(pauses) + 1
            model_rows = [r for run in mruns[pos:pos + k] for r in run[0]]
            pos += k
            wn = schedgen.build_wn(wntr, s)
            legs, _ = schedgen.run_impl_legs(wntr, wn, pauses + [s["duration"]], False)
            cat = [r for (rows, _) in legs for r in rows]
            wn2 = schedgen.build_wn(wntr, s)
            full = schedgen.run_impl_legs(wntr, wn2, [s["duration"]], False)[0][0][0]
            ctx.case(("completed-run", json.dumps(s, sort_keys=True), tuple(pauses)), True)
            ctx.count("completed-run-probe")
            if model_rows != full:
                broken.append(Broken("correspondence", "Sched.lean paused runSim on a completed run", "schedule %s pauses %s: model rows %s, uninterrupted implementation %s" % (json.dumps(s), pauses, model_rows, full)))
            if cat != full:
                ok = False
                failures.append(Failure("restart-extra-step-beyond-duration",
                                        "continuing a run that is already complete adds a step: uninterrupted times %s, paused (pauses %s) %s" % ([t for t, _ in full], pauses, [t for t, _ in cat]),
                                        {"schedule": s, "pauses": pauses, "pickle": False}))
        ctx.cov["completed_run_left_alone"] = ok
        return ok

    def correspondence(self, ctx):
        failures, broken = [], []
        wntr = vlib.import_wntr()
        rng = ctx.rng
        self.repaired = self._completed_run_probe(ctx, failures, broken)
        # corpus first
        for fn, j in vlib.corpus_items("C10"):
            if "network" in j:
                self._run_net_case(ctx, wntr, j["network"], j["pauses"], j.get("pickle", False), failures, "corpus")
            elif "schedule" in j:
                self._run_sched_paused(ctx, failures, broken, [(j["schedule"], j["pauses"], j.get("pickle", False))], "corpus")
        # (a)
        n = 60 if ctx.quick else 500
        cases = []
        for i in range(n):
            s = schedgen.gen_schedule(rng, ctx.quick, rules=(i % 3 != 0), allow_weird=(i % 7 == 0))
            if i % 4 == 1:
                # report timestep below / dividing / not dividing / above the hydraulic timestep: _setup_sim_options adjusts the
                # steps, and must adjust them in the same way in every part of a paused run
                h0 = s["hyd"]
                s["report"] = rng.choice([h0 // 2, h0 // 3, h0 // 2, h0 + h0 // 2, 2 * h0, 3 * h0])
                ctx.count("sched-paused:report-vs-hyd:" + ("below" if s["report"] < h0 else "non-dividing" if s["report"] % h0 else "multiple"))
            hyd, _ = schedgen.eff_steps(s)
            # durations on the hydraulic grid so that a step is always left after a pause
            pauses = self._pauses(rng, hyd, s["duration"])
            if not pauses:
                continue
            cases.append((s, pauses, rng.random() < 0.5))
        self._run_sched_paused(ctx, failures, broken, cases, "random")
        # (b)
        self._net_stream(ctx, failures, 40 if ctx.quick else 400)
        self._iso_valve_family(ctx, failures, 8 if ctx.quick else 64)
        return failures, broken

    def search(self, ctx, broken):
        failures = []
        self._net_stream(ctx, failures, 60, "search")
        self._iso_valve_family(ctx, failures, 16)
        b2 = []
        rng = ctx.rng
        cases = []
        for i in range(80):
            s = schedgen.gen_schedule(rng, True, rules=True, allow_weird=False)
            hyd, _ = schedgen.eff_steps(s)
            pauses = self._pauses(rng, hyd, s["duration"])
            if pauses:
                cases.append((s, pauses, False))
        self._run_sched_paused(ctx, failures, b2, cases, "search")
        return failures

    def replay(self, ctx, path):
        r = json.load(open(path if os.path.isabs(path) else os.path.join(vlib.VERIF, path)))
        print(json.dumps(r, indent=1)[:3000])
        rp = r.get("replay", {})
        failures, broken = [], []
        wntr = vlib.import_wntr()
        if "network" in rp:
            self._run_net_case(ctx, wntr, rp["network"], rp["pauses"], rp.get("pickle", False), failures, "replay")
        elif "schedule" in rp:
            self._run_sched_paused(ctx, failures, broken, [(rp["schedule"], rp["pauses"], rp.get("pickle", False))], "replay")
        else:
            failures, broken = self.correspondence(ctx)
        hit = [f for f in failures if f.key == r.get("key")]
        print("replay: %s" % ("REPRODUCED " + hit[0].what if hit else "not reproduced on the current tree"))
        return 1 if hit else 0


if __name__ == "__main__":
    vlib.run_check(C10)
