"""C11 -- simulating never alters the model definition; reset + rerun reproduces; equal models give equal results.

Tie (T): `Gen/FrameC11.lean` is regenerated on every run from /repo's CURRENT source (Python `ast` + reflection on a populated
zoo model that holds one element of every concrete class):
  * `writtenByActions`  slots a ControlAction / _InternalControlAction can assign (attribute -> private field mapping of
                        ControlAction.__init__, the attribute names the simulators and the INP reader use, the internal attribute
                        literals of every _InternalControlAction(...) construction site in wntr/sim/core.py),
  * `writtenBySim`      every `X.attr = ...`, `X.attr op= ...`, `setattr(X, 'attr', ...)` of the simulator code paths
                        (wntr/sim/core.py, hydraulics.py, epanet.py, write_inpfile + the InpFile.write call closure, the run-time
                        methods of the control classes) whose X can be a network object,
  * `toDictReads`       storage fields behind every key `to_dict` emits (property getter -> storage by ast),
  * `resetAssigns`      storage fields `reset_initial_values` (and `control._reset()`) assigns,
  * `runInitialises`    written slots a run provably assigns before it reads them.
A Slot is (concrete class name, storage field); a write through a property is resolved to what the setter assigns
(`Pump.base_speed` -> `_speed_timeseries.base_value`).

Tie (C) + oracle on the REAL code, per generated model (seeded small networks from harness/gen_networks.py + controls, rules,
leaks, PDD added here):
  a. wn.to_dict() is deep-equal before / after WNTRSimulator.run_sim and EpanetSimulator.run_sim,
  b. run -> reset_initial_values -> run (and sometimes a third cycle) reproduces every results table (1e-9 relative, see below),
  c. a deepcopy and a from_dict(to_dict) / JSON copy (when its dictionary is equal) simulate to the same tables,
  d. every attribute write on a network object observed during the runs (recording `__setattr__` wrappers, removed afterwards)
     is covered by Gen.written; fresh == reset == run+reset on the written slots, slot by slot.

Tolerance decision (b, c): exact comparison was tried first and fails on the UNCHANGED tree: two runs of the same model
object (run / reset / run) differ in the last bits (observed max relative difference 1e-16 .. 1e-13).  Cause:
wntr/sim/aml/evaluator.cpp keeps variables and constraints in `std::set<Var*>` / `std::set<Constraint*>`, i.e. ordered by heap
address, so every newly built hydraulic model numbers its unknowns / rows differently and SuperLU pivots differently.  Hence
continuous tables are compared with |x - y| <= 1e-9 * max(|x|, |y|) + 1e-9 * max(1e-3, max|table|) (observed noise on that scale: mostly <= 1e-13, worst 1.2e-11 over 250 random models;
still below the ~1e-8 effect of a stale valve status found by the self-test); link status tables, the
time index, error codes and exception outcomes are compared exactly.  The histogram records the observed noise
(`rerun-noise:*`).  The same tolerance is the statement's "floating-point noise" for deepcopy / reloaded models.
"""
import ast
import copy
import inspect
import json
import math
import os
import sys
import textwrap
import time
import traceback

sys.path.insert(0, os.path.dirname(os.path.dirname(os.path.abspath(__file__))))
sys.path.insert(0, os.path.dirname(os.path.abspath(__file__)))
import vlib
from vlib import BrokenTie, Broken, Failure, Check

ELEMENT_CLASSES = ["Junction", "Tank", "Reservoir", "Pipe", "HeadPump", "PowerPump",
                   "PRValve", "PSValve", "PBValve", "FCValve", "TCValve", "GPValve"]
NODE_CLASSES = ELEMENT_CLASSES[:3]
LINK_CLASSES = ELEMENT_CLASSES[3:]
PUMP_CLASSES = ["HeadPump", "PowerPump"]
VALVE_CLASSES = ELEMENT_CLASSES[6:]
CONTROL_CLASSES = ["Control", "Rule"]

# iterator methods of WaterNetworkModel -> concrete classes they yield
ITERATORS = {
    "nodes": NODE_CLASSES, "junctions": ["Junction"], "tanks": ["Tank"], "reservoirs": ["Reservoir"],
    "links": LINK_CLASSES, "pipes": ["Pipe"], "pumps": PUMP_CLASSES, "head_pumps": ["HeadPump"], "power_pumps": ["PowerPump"],
    "valves": VALVE_CLASSES, "prvs": ["PRValve"], "psvs": ["PSValve"], "pbvs": ["PBValve"], "fcvs": ["FCValve"],
    "tcvs": ["TCValve"], "gpvs": ["GPValve"], "controls": CONTROL_CLASSES,
    "patterns": ["Pattern"], "curves": ["Curve"], "sources": ["Source"],
}
NAME_LIST_KINDS = {"junction": ["Junction"], "tank": ["Tank"], "reservoir": ["Reservoir"], "node": NODE_CLASSES, "pipe": ["Pipe"],
                   "pump": PUMP_CLASSES, "head_pump": ["HeadPump"], "power_pump": ["PowerPump"], "valve": VALVE_CLASSES, "link": LINK_CLASSES,
                   "prv": ["PRValve"], "psv": ["PSValve"], "pbv": ["PBValve"], "fcv": ["FCValve"], "tcv": ["TCValve"], "gpv": ["GPValve"],
                   "control": CONTROL_CLASSES, "pattern": ["Pattern"], "curve": ["Curve"], "source": ["Source"]}
GETTERS = {"get_node": NODE_CLASSES, "get_link": LINK_CLASSES, "get_control": CONTROL_CLASSES,
           "get_pattern": ["Pattern"], "get_curve": ["Curve"], "get_source": ["Source"]}
ABSTRACT = {"Node": NODE_CLASSES, "Link": LINK_CLASSES, "Pump": PUMP_CLASSES, "Valve": VALVE_CLASSES}
WN_NAMES = {"wn", "wnm", "model", "water_network", "self._wn", "self.wn", "self._model_wn"}

# control-class methods that are definition-time API, not run-time
CONTROL_DEF_METHODS = {"__init__", "__new__", "__getnewargs__", "_reset", "_compare", "update_condition", "update_then_actions",
                       "update_else_actions", "update_priority"}


# =================================================================================================== zoo model


def build_zoo(wntr):
    """a populated model with one element of every concrete class (+ pattern, curve, source, control, rule)"""
    wn = wntr.network.WaterNetworkModel()
    wn.add_pattern("p1", [1.0, 1.2, 0.8])
    wn.add_curve("hc", "HEAD", [(0.0, 40.0), (0.05, 30.0), (0.1, 10.0)])
    wn.add_curve("gc", "HEADLOSS", [(0.0, 0.0), (0.1, 5.0)])
    wn.add_reservoir("R1", base_head=50.0, head_pattern="p1")
    wn.add_tank("T1", elevation=30.0, init_level=3.0, min_level=0.5, max_level=6.0, diameter=8.0)
    for i in range(1, 9):
        wn.add_junction("J%d" % i, base_demand=0.002, demand_pattern="p1", elevation=1.0 * i)
    wn.add_pipe("P1", "J1", "J2", length=100.0, diameter=0.3, roughness=100.0)
    wn.add_pipe("P2", "J2", "T1", length=100.0, diameter=0.3, roughness=100.0)
    wn.add_pump("PUH", "R1", "J1", "HEAD", "hc")
    wn.add_pump("PUP", "R1", "J1", "POWER", 2000.0)
    for k, (vt, a, b) in enumerate([("PRV", "J2", "J3"), ("PSV", "J3", "J4"), ("PBV", "J4", "J5"), ("FCV", "J5", "J6"),
                                    ("TCV", "J6", "J7")]):
        wn.add_valve("V" + vt, a, b, diameter=0.2, valve_type=vt, initial_setting=5.0 if vt != "FCV" else 0.001)
    wn.add_valve("VGPV", "J7", "J8", diameter=0.2, valve_type="GPV", initial_setting="gc")
    wn.add_source("S1", "J1", "CONCEN", 1.0, "p1")
    ctl = wntr.network.controls
    act = ctl.ControlAction(wn.get_link("P1"), "status", wntr.network.LinkStatus.Closed)
    act2 = ctl.ControlAction(wn.get_link("P1"), "status", wntr.network.LinkStatus.Open)
    wn.add_control("c1", ctl.Control(ctl.ValueCondition(wn.get_node("T1"), "level", ">", 5.0), act))
    wn.add_control("r1", ctl.Rule(ctl.SimTimeCondition(wn, ">=", 3600.0), [act], [act2], priority=3, name="r1"))
    inst = {}
    for n, o in list(wn.nodes()) + list(wn.links()):
        inst.setdefault(type(o).__name__, o)
    missing = [c for c in ELEMENT_CLASSES if c not in inst]
    if missing:
        raise BrokenTie("zoo model has no instance of %s" % missing)
    inst["Control"] = wn.get_control("c1")
    inst["Rule"] = wn.get_control("r1")
    inst["Pattern"] = wn.get_pattern("p1")
    inst["Curve"] = wn.get_curve("hc")
    inst["Source"] = wn.get_source("S1")
    inst["WaterNetworkModel"] = wn
    return wn, inst


# =================================================================================================== ast helpers


def _read_src(rel):
    p = os.path.join(vlib.REPO, rel)
    try:
        with open(p) as f:
            return f.read()
    except OSError as e:
        raise BrokenTie("cannot read %s: %s" % (rel, e))


_PARSED = {}


def _parse(rel):
    """ast of a source file of the tree under check (parsed once per process; the trees are never mutated)"""
    if rel not in _PARSED:
        try:
            _PARSED[rel] = ast.parse(_read_src(rel))
        except SyntaxError as e:
            raise BrokenTie("cannot parse %s: %s" % (rel, e))
    return _PARSED[rel]


_FUNC_AST = {}


def _func_ast(fn):
    """ast.FunctionDef of a python function object (from its current source)"""
    if fn in _FUNC_AST:
        return _FUNC_AST[fn]
    _FUNC_AST[fn] = r = _func_ast0(fn)
    return r


def _func_ast0(fn):
    try:
        src = textwrap.dedent(inspect.getsource(fn))
        t = ast.parse(src)
    except (OSError, TypeError, SyntaxError) as e:
        raise BrokenTie("cannot read the source of %r: %s" % (fn, e))
    for n in t.body:
        if isinstance(n, (ast.FunctionDef, ast.AsyncFunctionDef)):
            return n
    raise BrokenTie("no function definition in the source of %r" % (fn,))


def _chain(node):
    """Attribute/Subscript/Name chain -> list of names, subscripts skipped: a.b[0].c -> ['a','b','c']; None if the root is
    not a Name (e.g. a call result)"""
    out = []
    while True:
        if isinstance(node, ast.Attribute):
            out.append(node.attr)
            node = node.value
        elif isinstance(node, ast.Subscript):
            node = node.value
        elif isinstance(node, ast.Name):
            out.append(node.id)
            return out[::-1]
        else:
            return None


def _always_raises(fn_node):
    """the function body (docstring aside) starts with `raise`"""
    body = [s for s in fn_node.body if not (isinstance(s, ast.Expr) and isinstance(s.value, ast.Constant))]
    return bool(body) and isinstance(body[0], ast.Raise)


class Resolver:
    """public attribute -> storage field(s), per concrete class, by ast of the property getter / setter"""

    def __init__(self, inst):
        self.inst = inst
        self._sc, self._gc = {}, {}

    def _prop(self, cls, attr):
        for k in cls.__mro__:
            if attr in k.__dict__:
                v = k.__dict__[attr]
                return v if isinstance(v, property) else None
        return None

    # ------------------------------------------------------------------ writes
    def setter_storage(self, cls, attr, depth=0):
        """storage fields assigned by `obj.attr = v` for an instance of cls; [] when the assignment raises"""
        key = (cls, attr)
        if key in self._sc:
            return self._sc[key]
        if depth > 4:
            raise BrokenTie("property setter recursion too deep at %s.%s" % (cls.__name__, attr))
        p = self._prop(cls, attr)
        if p is None:
            res = [attr]
        elif p.fset is None:
            res = []  # AttributeError: can't set
        else:
            fn = _func_ast(p.fset)
            if _always_raises(fn):
                res = []
            else:
                res = []
                for tgt, _ in _store_targets(fn):
                    ch = _chain(tgt)
                    if ch is None or ch[0] != "self":
                        continue
                    if len(ch) == 2:
                        res += self.setter_storage(cls, ch[1], depth + 1) if ch[1] != attr else [ch[1]]
                    elif len(ch) >= 3:
                        for root in self.getter_storage(cls, ch[1]):
                            res.append(root.split(".")[0] + "." + ch[2])
                if not res:
                    raise BrokenTie("setter of %s.%s assigns nothing the translator can see" % (cls.__name__, attr))
        res = sorted(set(res))
        self._sc[key] = res
        return res

    # ------------------------------------------------------------------ reads
    def getter_storage(self, cls, attr, depth=0):
        """storage fields read by `obj.attr`"""
        key = (cls, attr)
        if key in self._gc:
            return self._gc[key]
        if depth > 5:
            return [attr]
        p = self._prop(cls, attr)
        if p is None:
            v = None
            for k in cls.__mro__:
                if attr in k.__dict__:
                    v = k.__dict__[attr]
                    break
            if inspect.isfunction(v):
                self._gc[key] = []  # guard against recursion
                res = self.reads_of(cls, _func_ast(v), depth + 1)
            else:
                res = [attr]
        else:
            self._gc[key] = []
            res = self.reads_of(cls, _func_ast(p.fget), depth + 1)
        res = sorted(set(res))
        self._gc[key] = res
        return res

    def reads_of(self, cls, fn_node, depth=0):
        """storage paths behind every maximal `self.a.b` chain loaded in the function"""
        res = []
        seen_inner = set()
        for n in ast.walk(fn_node):
            if isinstance(n, ast.Call) and isinstance(n.func, ast.Attribute):
                ch = _chain(n.func)
                if ch and ch[0] == "self":
                    seen_inner.add(id(n.func))
                    if len(ch) == 2:
                        res += self.getter_storage(cls, ch[1], depth + 1)  # self.method()
                    else:
                        res += self._path(cls, ch[1:-1], depth)  # self.a.b.method() reads self.a.b
        # maximal chains: attribute nodes that are not the .value of another attribute/subscript chain
        parents = {}
        for n in ast.walk(fn_node):
            for c in ast.iter_child_nodes(n):
                parents[id(c)] = n
        for n in ast.walk(fn_node):
            if not isinstance(n, ast.Attribute) or id(n) in seen_inner:
                continue
            par = parents.get(id(n))
            if isinstance(par, ast.Attribute) and par.value is n:
                continue
            if isinstance(par, ast.Subscript) and par.value is n:
                pp = parents.get(id(par))
                if isinstance(pp, (ast.Attribute,)) and pp.value is par:
                    continue
            ch = _chain(n)
            if ch and ch[0] == "self" and len(ch) >= 2:
                res += self._path(cls, ch[1:], depth)
        return res

    def _path(self, cls, names, depth):
        roots = self.getter_storage(cls, names[0], depth + 1)
        if len(names) == 1:
            return list(roots)
        out = []
        for r in roots:
            out.append(r if "." in r else r + "." + names[1])
        return out


def _store_targets(fn_node):
    """(target expression, statement) for every attribute store in the function: Assign, AugAssign, AnnAssign, for-targets,
    with-as, and setattr(X, 'const', v) (returned as a synthetic Attribute)"""
    out = []
    for n in ast.walk(fn_node):
        tgts = []
        if isinstance(n, ast.Assign):
            tgts = n.targets
        elif isinstance(n, (ast.AugAssign, ast.AnnAssign)):
            tgts = [n.target]
        elif isinstance(n, (ast.For, ast.AsyncFor)):
            tgts = [n.target]
        elif isinstance(n, ast.withitem) and n.optional_vars is not None:
            tgts = [n.optional_vars]
        for t in tgts:
            for y in ast.walk(t):
                if isinstance(y, ast.Attribute) and isinstance(y.ctx, ast.Store):
                    out.append((y, n))
                elif isinstance(y, ast.Subscript) and isinstance(y.ctx, ast.Store):
                    # x.a[i] = v / x.a.b[i] = v mutates what x.a holds
                    inner = y.value
                    if isinstance(inner, (ast.Attribute, ast.Subscript)) and _chain(inner) and len(_chain(inner)) >= 2:
                        if isinstance(inner, ast.Attribute):
                            out.append((inner, n))
        if isinstance(n, ast.Call) and isinstance(n.func, ast.Name) and n.func.id == "setattr" and len(n.args) >= 2:
            if isinstance(n.args[1], ast.Constant) and isinstance(n.args[1].value, str):
                out.append((ast.Attribute(value=n.args[0], attr=n.args[1].value, ctx=ast.Store()), n))
            else:
                out.append((("dynamic-setattr", n.args[0], n.args[1]), n))
    return out


# =================================================================================================== WRITTEN


class WriteScanner:
    """collects the attribute stores of a set of functions and resolves them to slots"""

    def __init__(self, wntr, inst, resolver):
        self.wntr, self.inst, self.R = wntr, inst, resolver
        self.slots = {}  # slot -> set of "file:function:line"
        self.dropped = {}  # text -> why
        self.nself = 0

    def add(self, cls, field, where):
        self.slots.setdefault((cls, field), set()).add(where)

    def classes_with(self, attr, among=None):
        out = []
        for c in (among or (ELEMENT_CLASSES + CONTROL_CLASSES + ["Pattern", "Curve", "Source", "WaterNetworkModel"])):
            o = self.inst.get(c)
            if o is None:
                continue
            try:
                has = hasattr(o, attr)
            except Exception:
                has = True
            if has or attr in getattr(o, "__dict__", {}):
                out.append(c)
        return out

    def _cls_obj(self, name):
        return type(self.inst[name])

    # -------------------------------------------------------------- variable typing inside one function
    def _env(self, fn, self_cls, name_lists=False):
        """bindings of local names: list of (name, what, line, scope_end) with what = list of concrete class names | 'wn' |
        'fresh'; `lookup(name, line)` picks the latest binding before the line (loop variables only inside their loop).
        name_lists=True (INP writer scan only) also follows `names = list(wn.pipe_name_list)`, `for n in names:`,
        `pipe = wn.links[n]` / `wn.get_link(n)` to the classes of that kind."""
        binds = []
        for a in fn.args.args:
            if a.arg in ("wn", "wnm", "water_network"):
                binds.append((a.arg, "wn", 0, None))
        for n in ast.walk(fn):
            if isinstance(n, (ast.For, ast.comprehension)):
                it, tg = n.iter, n.target
                cl = self._iter_classes(it)
                if cl is not None and isinstance(tg, ast.Tuple) and len(tg.elts) == 2 and isinstance(tg.elts[1], ast.Name):
                    if isinstance(n, ast.For):
                        binds.append((tg.elts[1].id, sorted(set(cl)), n.lineno, n.end_lineno))
                    else:
                        binds.append((tg.elts[1].id, sorted(set(cl)), getattr(it, "lineno", 0), getattr(it, "end_lineno", None)))
                elif isinstance(n, ast.For):
                    for m in ast.walk(tg):
                        if isinstance(m, ast.Name):
                            binds.append((m.id, None, n.lineno, n.end_lineno))  # unknown objects
            if isinstance(n, ast.Assign) and len(n.targets) == 1 and isinstance(n.targets[0], ast.Name):
                var, v = n.targets[0].id, n.value
                what = None
                if isinstance(v, ast.Call):
                    f = v.func
                    if isinstance(f, ast.Attribute) and f.attr in GETTERS:
                        what = list(GETTERS[f.attr])
                    elif (isinstance(f, ast.Name) and f.id[:1].isupper()) or (isinstance(f, ast.Attribute) and f.attr[:1].isupper()):
                        what = "fresh"  # X = SomeClass(...)
                    elif isinstance(f, ast.Call) and isinstance(f.func, ast.Name) and f.func.id == "type":
                        what = "fresh"  # X = type(obj)(...)
                elif isinstance(v, ast.Subscript) and isinstance(v.value, ast.Attribute) and v.value.attr in ("links", "nodes"):
                    what = list(LINK_CLASSES if v.value.attr == "links" else NODE_CLASSES)  # wn.links[name]
                elif isinstance(v, ast.Attribute) and _chain(v) and ".".join(_chain(v)) in WN_NAMES:
                    what = "wn"
                binds.append((var, what, n.lineno, None))

        def lookup(name, line):
            best = None
            for (nm, what, l0, l1) in binds:
                if nm != name or l0 > line:
                    continue
                if l1 is not None and line > l1:
                    continue
                if best is None or l0 >= best[1]:
                    best = (what, l0)
            return best[0] if best else None

        if name_lists:
            def list_kind(v):
                if isinstance(v, ast.Call) and isinstance(v.func, ast.Name) and v.func.id in ("list", "sorted") and len(v.args) == 1:
                    v = v.args[0]
                if isinstance(v, ast.Attribute) and v.attr.endswith("_name_list"):
                    return NAME_LIST_KINDS.get(v.attr[:-len("_name_list")])
                return None

            extra = []
            for n in ast.walk(fn):
                if isinstance(n, ast.Assign) and len(n.targets) == 1 and isinstance(n.targets[0], ast.Name) and list_kind(n.value):
                    extra.append((n.targets[0].id, ("names", list_kind(n.value)), n.lineno, None))
            for n in ast.walk(fn):   # report = wn.options.report
                if isinstance(n, ast.Assign) and len(n.targets) == 1 and isinstance(n.targets[0], ast.Name) and isinstance(n.value, ast.Attribute):
                    ch = _chain(n.value) or []
                    for k in (1, 2):
                        if len(ch) > k and ".".join(ch[:k]) in WN_NAMES and ch[k] in ("options", "_options"):
                            extra.append((n.targets[0].id, ("options", ".".join(ch[k + 1:])), n.lineno, None))
            binds += extra
            extra = []
            for n in ast.walk(fn):
                if isinstance(n, ast.For) and isinstance(n.target, ast.Name):
                    k = list_kind(n.iter)
                    if k is None and isinstance(n.iter, ast.Name):
                        w = lookup(n.iter.id, n.lineno)
                        k = w[1] if isinstance(w, tuple) and w[0] == "names" else None
                    if k:
                        extra.append((n.target.id, ("name-of", k), n.lineno, n.end_lineno))
            binds += extra
            extra = []
            for n in ast.walk(fn):
                if isinstance(n, ast.Assign) and len(n.targets) == 1 and isinstance(n.targets[0], ast.Name):
                    v, key = n.value, None
                    if isinstance(v, ast.Subscript) and isinstance(v.value, ast.Attribute) and v.value.attr in ("links", "nodes"):
                        key = v.slice
                    elif isinstance(v, ast.Call) and isinstance(v.func, ast.Attribute) and v.func.attr in ("get_link", "get_node") and len(v.args) == 1:
                        key = v.args[0]
                    if isinstance(key, ast.Name):
                        w = lookup(key.id, n.lineno)
                        if isinstance(w, tuple) and w[0] == "name-of":
                            extra.append((n.targets[0].id, list(w[1]), n.lineno + 0.5, None))
            binds += extra

        return lookup

    def _iter_classes(self, it):
        """classes yielded by `wn.pipes()`, `self._wn.nodes(Junction)`, itertools.chain(...) of those"""
        if isinstance(it, ast.Call) and isinstance(it.func, ast.Attribute) and it.func.attr in ITERATORS:
            if it.args and isinstance(it.args[0], (ast.Name, ast.Attribute)):
                nm = it.args[0].id if isinstance(it.args[0], ast.Name) else it.args[0].attr
                if nm in ELEMENT_CLASSES:
                    return [nm]
                if nm in ABSTRACT:
                    return list(ABSTRACT[nm])
                raise BrokenTie("iterator %s restricted to an unknown class %s" % (ast.unparse(it), nm))
            return list(ITERATORS[it.func.attr])
        if isinstance(it, ast.Call) and isinstance(it.func, ast.Attribute) and it.func.attr == "chain":
            out = []
            for a in it.args:
                c = self._iter_classes(a)
                if c is None:
                    return None
                out += c
            return out
        return None

    # -------------------------------------------------------------- scanning
    def scan_function(self, fn, where, self_kind, self_classes=None, guards_for=None):
        """self_kind: 'internal' (simulator / solver object: self.x dropped), 'wn' (method of WaterNetworkModel),
        'element' (method of an element / control class: self.x is a slot of self_classes)"""
        env = self._env(fn, self_kind)
        isinst = _isinstance_guards(fn)
        for tgt, stmt in _store_targets(fn):
            line = getattr(stmt, "lineno", 0)
            w = "%s:%d" % (where, line)
            if isinstance(tgt, tuple):  # dynamic setattr: handled by the action tables when it is one of the action classes
                _, xo, an = tgt
                if self_kind == "action":
                    continue
                raise BrokenTie("setattr with a computed attribute name at %s: %s" % (w, ast.unparse(stmt)[:120]))
            ch = _chain(tgt)
            if ch is None:
                # target object is a call result etc.: X unknown -> every class that has the attribute
                self._generic(tgt.attr, None, w, ast.unparse(tgt))
                continue
            root = ch[0]
            text = ".".join(ch)
            # --- self.<...>
            if root == "self":
                if len(ch) == 2:
                    if self_kind in ("internal", "action"):
                        self.nself += 1
                        continue
                    if self_kind == "wn":
                        self._wn_field(ch[1:], w)
                        continue
                    if self_kind == "element":
                        for c in self_classes:
                            for f in self.R.setter_storage(self._cls_obj(c), ch[1]) if c in self.inst and c in ELEMENT_CLASSES else [ch[1]]:
                                self.add(c, f, w)
                        continue
                    if self_kind == "control":
                        for c, pre in self_classes:
                            self.add(c, pre + ch[1], w)
                        continue
                # self._wn.x..., self.wn.x
                if ".".join(ch[:2]) in WN_NAMES:
                    self._wn_field(ch[2:], w)
                    continue
                if self_kind == "wn":
                    # self.options.time.x = ..., self._node_reg.x = ...
                    self._wn_field(ch[1:], w)
                    continue
                if self_kind == "element":
                    for c in self_classes:
                        for r in self.R.getter_storage(self._cls_obj(c), ch[1]):
                            self.add(c, r.split(".")[0] + "." + ch[2], w)
                    continue
                if self_kind == "control":
                    for c, pre in self_classes:
                        self.add(c, pre + ch[1] + "." + ch[2], w)
                    continue
                # self.<internal>.<attr> = ...: the internal object may HOLD a network object (self._pump.x = ...)
                self._generic(ch[-1], None, w, text, via=ch[1:-1])
                continue
            # --- wn.<...>
            what = env(root, line)
            if what == "wn" or root in WN_NAMES:
                self._wn_field(ch[1:], w)
                continue
            if what == "fresh":
                self.dropped[text] = "object created in the same function (%s)" % w
                continue
            among = what if isinstance(what, list) else None
            g = isinst.get((root, line))
            if g:
                among = [c for c in (among or (ELEMENT_CLASSES + CONTROL_CLASSES)) if c in g]
            self._generic(ch[1], among, w, text, rest=ch[2:])

    def _wn_field(self, names, w):
        if not names:
            return
        if names[0] in ("options", "_options"):
            if len(names) == 1:
                self.add("WaterNetworkModel", "_options", w)
            else:
                self.add("Options", ".".join(names[1:]), w)
            return
        wncls = self._cls_obj("WaterNetworkModel")
        if len(names) == 1:
            for f in self.R.setter_storage(wncls, names[0]):
                self.add("WaterNetworkModel", f, w)
        else:
            for r in self.R.getter_storage(wncls, names[0]):
                self.add("WaterNetworkModel", r.split(".")[0] + "." + names[1], w)

    def _generic(self, attr, among, w, text, rest=(), via=()):
        cands = self.classes_with(attr, among)
        if not cands:
            self.dropped[text] = "no network / control / options class has attribute %r (%s)" % (attr, w)
            return
        for c in cands:
            co = self._cls_obj(c)
            if rest:
                for r in self.R.getter_storage(co, attr):
                    self.add(c, r.split(".")[0] + "." + rest[0], w)
            else:
                st = self.R.setter_storage(co, attr)
                if not st:
                    self.dropped[text + " on " + c] = "assignment raises (read-only / deprecated property) (%s)" % w
                for f in st:
                    self.add(c, f, w)


def _isinstance_guards(fn):
    """(var, line) -> set of concrete classes, for statements inside `if isinstance(var, C):` bodies"""
    out = {}

    def classes_of(node):
        names = []
        for e in (node.elts if isinstance(node, ast.Tuple) else [node]):
            nm = e.id if isinstance(e, ast.Name) else (e.attr if isinstance(e, ast.Attribute) else None)
            if nm in ELEMENT_CLASSES:
                names.append(nm)
            elif nm in ABSTRACT:
                names += ABSTRACT[nm]
            else:
                return None
        return names

    for n in ast.walk(fn):
        if isinstance(n, ast.If):
            t = n.test
            # `if X.epanet_control_type == _ControlType.rule:` -- only objects of class Rule carry that type (Control.__init__
            # always assigns presolve / postsolve / pre_and_postsolve; checked at run time by the write trace)
            if (isinstance(t, ast.Compare) and len(t.ops) == 1 and isinstance(t.ops[0], (ast.Eq, ast.Is))
                    and isinstance(t.left, ast.Attribute) and t.left.attr in ("epanet_control_type", "_control_type")
                    and isinstance(t.left.value, ast.Name) and isinstance(t.comparators[0], ast.Attribute)
                    and t.comparators[0].attr == "rule"):
                for s_ in n.body:
                    for m in ast.walk(s_):
                        if hasattr(m, "lineno"):
                            out[(t.left.value.id, m.lineno)] = {"Rule"}
            if (isinstance(t, ast.Call) and isinstance(t.func, ast.Name) and t.func.id == "isinstance" and len(t.args) == 2
                    and isinstance(t.args[0], ast.Name)):
                cl = classes_of(t.args[1])
                if cl is not None:
                    for s in n.body:
                        for m in ast.walk(s):
                            if hasattr(m, "lineno"):
                                out[(t.args[0].id, m.lineno)] = set(cl)
    return out


_MEMO = {}


def _memo(key, make):
    if key not in _MEMO:
        _MEMO[key] = make()
    return _MEMO[key]


def _functions_of(tree):
    return _memo(("functions_of", id(tree)), lambda: _functions_of0(tree))


def _functions_of0(tree):
    """(qualified name, FunctionDef, enclosing class name or None) for every function in a module (nested included once)"""
    out = []

    def visit(body, prefix, cls):
        for n in body:
            if isinstance(n, ast.ClassDef):
                visit(n.body, prefix + n.name + ".", n.name)
            elif isinstance(n, (ast.FunctionDef, ast.AsyncFunctionDef)):
                out.append((prefix + n.name, n, cls))

    visit(tree.body, "", None)
    return out


def _class_bases(tree):
    return _memo(("class_bases", id(tree)), lambda: _class_bases0(tree))


def _class_bases0(tree):
    return {n.name: [(b.id if isinstance(b, ast.Name) else (b.attr if isinstance(b, ast.Attribute) else None)) for b in n.bases]
            + [a.id for b in n.bases if isinstance(b, ast.Call) for a in b.args if isinstance(a, ast.Name)]
            for n in ast.walk(tree) if isinstance(n, ast.ClassDef)}


def _derives(bases, cls, root):
    seen = set()
    todo = [cls]
    while todo:
        c = todo.pop()
        if c == root:
            return True
        if c in seen:
            continue
        seen.add(c)
        todo += [b for b in bases.get(c, []) if b]
    return False


def _closure_in_module(tree, start_names):
    """functions of the module reachable (by bare / attribute call NAME) from the start functions"""
    fns = _functions_of(tree)
    byname = {}
    for q, n, c in fns:
        byname.setdefault(n.name, []).append((q, n, c))
    todo = list(start_names)
    seen = []
    while todo:
        nm = todo.pop()
        for q, n, c in byname.get(nm, []):
            if q in [s[0] for s in seen]:
                continue
            seen.append((q, n, c))
            for m in ast.walk(n):
                if isinstance(m, ast.Call):
                    f = m.func
                    cn = f.id if isinstance(f, ast.Name) else (f.attr if isinstance(f, ast.Attribute) else None)
                    if cn in byname:
                        todo.append(cn)
                    if cn == "str" or cn == "format":
                        todo.append("__str__")
    return seen


def control_action_tables(wntr, inst, R):
    """(slots, notes): what ControlAction / _InternalControlAction.run_control_action can assign"""
    slots, notes = {}, []
    ctree = _parse("wntr/network/controls.py")
    fns = {q: n for q, n, c in _functions_of(ctree)}
    for q in ("ControlAction.__init__", "ControlAction.run_control_action", "_InternalControlAction.__init__",
              "_InternalControlAction.run_control_action"):
        if q not in fns:
            raise BrokenTie("wntr/network/controls.py has no %s" % q)
    # --- run_control_action must be `setattr(self._target_obj, self.<F>, self._value)`
    def dyn_field(fn, q):
        found = None
        for tgt, stmt in _store_targets(fn):
            if isinstance(tgt, tuple):
                _, xo, an = tgt
                if ast.unparse(xo) != "self._target_obj" or not (isinstance(an, ast.Attribute) and ast.unparse(an.value) == "self"):
                    raise BrokenTie("%s: setattr target not of the form setattr(self._target_obj, self.<field>, ...): %s" % (q, ast.unparse(stmt)))
                if found and found != an.attr:
                    raise BrokenTie("%s uses two different attribute-name fields" % q)
                found = an.attr
            else:
                ch = _chain(tgt)
                if ch and ch[0] == "self" and len(ch) == 2:
                    continue
                raise BrokenTie("%s assigns %s: not understood by the translator" % (q, ast.unparse(tgt)))
        if not found:
            raise BrokenTie("%s performs no setattr(self._target_obj, ...)" % q)
        return found

    pf = dyn_field(fns["ControlAction.run_control_action"], "ControlAction.run_control_action")
    inf = dyn_field(fns["_InternalControlAction.run_control_action"], "_InternalControlAction.run_control_action")
    # --- ControlAction.__init__: self.<pf> = attribute ; if attribute == 'status': self.<pf> = '_user_status' ...
    init = fns["ControlAction.__init__"]
    argn = [a.arg for a in init.args.args]
    if len(argn) < 3:
        raise BrokenTie("ControlAction.__init__ signature changed: %s" % argn)
    attr_arg = argn[2]
    mapping, identity = {}, False

    def walk_if(node):
        t = node.test
        if not (isinstance(t, ast.Compare) and len(t.ops) == 1 and isinstance(t.ops[0], (ast.Eq, ast.In))
                and isinstance(t.left, ast.Name) and t.left.id == attr_arg):
            return False
        keys = []
        comp = t.comparators[0]
        if isinstance(comp, ast.Constant) and isinstance(comp.value, str):
            keys = [comp.value]
        elif isinstance(comp, (ast.List, ast.Tuple, ast.Set)) and all(isinstance(e, ast.Constant) for e in comp.elts):
            keys = [e.value for e in comp.elts]
        else:
            return False
        for s in node.body:
            if (isinstance(s, ast.Assign) and len(s.targets) == 1 and ast.unparse(s.targets[0]) == "self." + pf):
                if isinstance(s.value, ast.Constant) and isinstance(s.value.value, str):
                    for k in keys:
                        mapping[k] = s.value.value
                else:
                    raise BrokenTie("ControlAction.__init__: %s is not a string literal" % ast.unparse(s))
        for o in node.orelse:
            if isinstance(o, ast.If):
                if not walk_if(o):
                    raise BrokenTie("ControlAction.__init__: branch test not understood: %s" % ast.unparse(o.test))
            elif isinstance(o, ast.Assign) and ast.unparse(o.targets[0]) == "self." + pf:
                raise BrokenTie("ControlAction.__init__: else-branch assignment of %s not understood" % pf)
        return True

    for s in init.body:
        if isinstance(s, ast.Assign) and len(s.targets) == 1 and ast.unparse(s.targets[0]) == "self." + pf:
            if isinstance(s.value, ast.Name) and s.value.id == attr_arg:
                identity = True
            else:
                raise BrokenTie("ControlAction.__init__: default of %s is not the attribute argument: %s" % (pf, ast.unparse(s)))
        elif isinstance(s, ast.If):
            touches = any(isinstance(m, ast.Attribute) and m.attr == pf and isinstance(m.ctx, ast.Store) for m in ast.walk(s))
            if touches and not walk_if(s):
                raise BrokenTie("ControlAction.__init__: cannot read the attribute -> private attribute mapping: %s" % ast.unparse(s.test))
    if not identity:
        raise BrokenTie("ControlAction.__init__ no longer initialises %s with the attribute name" % pf)
    if not mapping:
        raise BrokenTie("ControlAction.__init__: empty attribute -> private attribute mapping")
    # --- attribute names in use: the mapping's keys, string comparisons with target_attr in the simulators, and the
    #     literal second argument of every ControlAction(...) construction in the simulators / INP reader
    names = {k: {"ControlAction.__init__ mapping"} for k in mapping}
    internal = {}
    for rel in ("wntr/sim/core.py", "wntr/sim/epanet.py", "wntr/sim/hydraulics.py", "wntr/epanet/io.py", "wntr/network/elements.py",
                "wntr/network/model.py", "wntr/network/controls.py"):
        t = _parse(rel)
        for n in ast.walk(t):
            if isinstance(n, ast.Compare) and len(n.ops) == 1 and isinstance(n.ops[0], (ast.Eq, ast.NotEq)):
                sides = [n.left, n.comparators[0]]
                nm = [s for s in sides if isinstance(s, ast.Name) and s.id in ("target_attr", "attr", "attribute")]
                cs = [s for s in sides if isinstance(s, ast.Constant) and isinstance(s.value, str)]
                if nm and cs and rel.startswith("wntr/sim/") and nm[0].id == "target_attr":
                    names.setdefault(cs[0].value, set()).add("%s:%d compares target_attr" % (rel, n.lineno))
            if isinstance(n, ast.Call):
                f = n.func
                fn_name = f.id if isinstance(f, ast.Name) else (f.attr if isinstance(f, ast.Attribute) else None)
                if fn_name == "ControlAction" and len(n.args) >= 2:
                    a = n.args[1]
                    if isinstance(a, ast.Constant) and isinstance(a.value, str):
                        names.setdefault(a.value, set()).add("%s:%d ControlAction(...)" % (rel, n.lineno))
                    elif rel.startswith("wntr/sim/"):
                        raise BrokenTie("%s:%d ControlAction with a computed attribute name: %s" % (rel, n.lineno, ast.unparse(n)[:100]))
                if fn_name == "_InternalControlAction":
                    a = n.args[1] if len(n.args) >= 2 else next((k.value for k in n.keywords if k.arg == "internal_attribute"), None)
                    if isinstance(a, ast.Constant) and isinstance(a.value, str):
                        internal.setdefault(a.value, set()).add("%s:%d" % (rel, n.lineno))
                    else:
                        raise BrokenTie("%s:%d _InternalControlAction with a computed internal attribute: %s" % (rel, n.lineno, ast.unparse(n)[:100]))
    if not internal:
        raise BrokenTie("no _InternalControlAction(...) construction site found in the simulators")
    for a, why in sorted(names.items()):
        priv = mapping.get(a, a)
        hit = False
        for c in ELEMENT_CLASSES:
            o = inst[c]
            if not hasattr(o, a):  # ControlAction.__init__ refuses
                continue
            st = R.setter_storage(type(o), priv)
            if not st:
                notes.append("ControlAction(%s, %r): setattr(%r) raises -- nothing written" % (c, a, priv))
            for f in st:
                slots.setdefault((c, f), set()).add("ControlAction %r -> %r (%s)" % (a, priv, "; ".join(sorted(why))[:80]))
                hit = True
        if not hit:
            notes.append("ControlAction attribute %r: no element class accepts it" % a)
    for a, why in sorted(internal.items()):
        hit = False
        for c in ELEMENT_CLASSES:
            o = inst[c]
            if not hasattr(o, a):
                continue
            for f in R.setter_storage(type(o), a):
                slots.setdefault((c, f), set()).add("_InternalControlAction %r (%s)" % (a, sorted(why)[0]))
                hit = True
        if not hit:
            raise BrokenTie("_InternalControlAction attribute %r: no element class has it" % a)
    return slots, notes, mapping, sorted(names), sorted(internal)


def epanet_functions():
    return _memo("epanet_functions", epanet_functions0)


def epanet_functions0():
    """(where, FunctionDef) of everything EpanetSimulator.run_sim runs on the SAME wn: the EpanetSimulator /
    WaterNetworkSimulator methods, write_inpfile, the call closure of InpFile.write inside wntr/epanet/io.py (by name), and the
    MSX writer / result reader that receive wn when wn._msx is set"""
    out = []
    t = _parse("wntr/sim/epanet.py")
    fns = _functions_of(t)
    if not any(q == "EpanetSimulator.run_sim" for q, n, c in fns):
        raise BrokenTie("wntr/sim/epanet.py has no EpanetSimulator.run_sim")
    out += [("sim/epanet.py:%s" % q, n) for q, n, c in fns]
    out += [("sim/core.py:%s" % q, n) for q, n, c in _functions_of(_parse("wntr/sim/core.py")) if c == "WaterNetworkSimulator"]
    t = _parse("wntr/network/io.py")
    f = [n for q, n, c in _functions_of(t) if q == "write_inpfile"]
    if not f:
        raise BrokenTie("wntr/network/io.py has no write_inpfile")
    out.append(("network/io.py:write_inpfile", f[0]))
    t = _parse("wntr/epanet/io.py")
    cl = _closure_in_module(t, ["write"])
    if not any(q == "InpFile.write" for q, n, c in cl):
        raise BrokenTie("wntr/epanet/io.py has no InpFile.write")
    for q, n, c in cl:
        if c in ("InpFile", "_EpanetRule") or c is None:
            if q.split(".")[-1].startswith("_read") or q.split(".")[-1] in ("read",):
                continue
            out.append(("epanet/io.py:%s" % q, n))
    try:
        t = _parse("wntr/epanet/msx/io.py")
        for q, n, c in _functions_of(t):
            if c in ("MsxBinFile",) or q in ("MsxFile.write",) or (c == "MsxFile" and n.name.startswith("_write")):
                out.append(("epanet/msx/io.py:%s" % q, n))
    except BrokenTie:
        pass
    return out


def epanet_write_tables(wntr, inst, R):
    E = WriteScanner(wntr, inst, R)
    for where, n in epanet_functions():
        E.scan_function(n, where, "internal")
    return E


def sim_write_tables(wntr, inst, R):
    S = WriteScanner(wntr, inst, R)
    # 1. the simulator modules: every function
    for rel in ("wntr/sim/core.py", "wntr/sim/hydraulics.py", "wntr/sim/epanet.py"):
        t = _parse(rel)
        fns = _functions_of(t)
        if not fns:
            raise BrokenTie("%s defines no functions" % rel)
        for q, n, c in fns:
            S.scan_function(n, "%s:%s" % (rel.split("wntr/")[1], q), "internal")
    # 2. EpanetSimulator.run_sim -> write_inpfile -> InpFile.write -> _write_* (call closure inside wntr/epanet/io.py)
    E = epanet_write_tables(wntr, inst, R)
    for k, v in E.slots.items():
        S.slots.setdefault(k, set()).update(v)
    S.dropped.update(E.dropped)
    S.nself += E.nself
    # 3. run-time methods of the control / condition / action classes
    t = _parse("wntr/network/controls.py")
    bases = _class_bases(t)
    for q, n, c in _functions_of(t):
        if c is None or n.name in CONTROL_DEF_METHODS:
            continue
        if any(isinstance(d, ast.Name) and d.id in ("classmethod", "staticmethod") for d in n.decorator_list):
            continue
        if _derives(bases, c, "ControlBase"):
            S.scan_function(n, "controls.py:%s" % q, "control", [(k, "") for k in CONTROL_CLASSES])
        elif _derives(bases, c, "ControlCondition"):
            S.scan_function(n, "controls.py:%s" % q, "control", [(k, "_condition.") for k in CONTROL_CLASSES])
        elif _derives(bases, c, "BaseControlAction"):
            S.scan_function(n, "controls.py:%s" % q, "action")
        else:
            S.scan_function(n, "controls.py:%s" % q, "internal")
    # 4. element methods the simulators call that assign to self (found by name: any method of an element class called from
    #    the simulator modules, except property access)
    called = set()
    for rel in ("wntr/sim/core.py", "wntr/sim/hydraulics.py", "wntr/sim/epanet.py", "wntr/sim/models/param.py",
                "wntr/sim/models/constraint.py", "wntr/network/controls.py"):
        for n in ast.walk(_parse(rel)):
            if isinstance(n, ast.Call) and isinstance(n.func, ast.Attribute):
                called.add(n.func.attr)
    et = _parse("wntr/network/elements.py")
    bt = _parse("wntr/network/base.py")
    for tree, rel in ((et, "elements.py"), (bt, "base.py")):
        bases = dict(_class_bases(et))
        bases.update(_class_bases(bt))
        for q, n, c in _functions_of(tree):
            if c is None or n.name not in called or n.name.startswith("__") or n.name in ("add_leak", "remove_leak", "add_outage",
                                                                                           "remove_outage", "add_demand",
                                                                                           "add_fire_fighting_demand",
                                                                                           "remove_fire_fighting_demand"):
                continue
            if any(isinstance(d, ast.Attribute) and d.attr == "setter" for d in n.decorator_list):
                continue
            conc = [k for k in ELEMENT_CLASSES if _derives(bases, k, c)]
            if conc:
                S.scan_function(n, "%s:%s" % (rel, q), "element", conc)
            elif c in ("TimeSeries", "Pattern", "Curve", "Demands"):
                for tgt, stmt in _store_targets(n):
                    if not isinstance(tgt, tuple) and _chain(tgt) and _chain(tgt)[0] == "self":
                        raise BrokenTie("%s.%s (called by the simulators) assigns %s: nested storage write not modelled"
                                        % (c, n.name, ast.unparse(tgt)))
    return S


# =================================================================================================== TO_DICT READS


def to_dict_reads(wntr, wn, inst, R):
    slots = {}

    def add(c, f, why):
        slots.setdefault((c, f), set()).add(why)

    nested_props = {}
    for c in ELEMENT_CLASSES + ["Pattern", "Curve", "Source"]:
        o = inst[c]
        try:
            d = o.to_dict()
        except Exception as e:
            raise BrokenTie("%s.to_dict() raises on the zoo instance: %s: %s" % (c, type(e).__name__, e))
        if c in ELEMENT_CLASSES:
            for k in d:
                if not hasattr(o, k):
                    raise BrokenTie("%s.to_dict() emits key %r that is not an attribute" % (c, k))
                for f in R.getter_storage(type(o), k):
                    add(c, f, "key " + k)
                v = getattr(o, k)
                # nested containers (Demands -> TimeSeries): the public properties of the nested element class
                items = list(v) if hasattr(v, "to_list") else ([v] if hasattr(v, "to_dict") and not isinstance(v, dict) else [])
                roots = R.getter_storage(type(o), k)
                for it in (items[:1] if len(roots) == 1 else []):
                    for pn in dir(type(it)):
                        if pn.startswith("_") or not isinstance(getattr(type(it), pn, None), property):
                            continue
                        for f in R.getter_storage(type(o), k):
                            add(c, f.split(".")[0] + "." + pn, "key %s (nested %s.%s)" % (k, type(it).__name__, pn))
        else:
            # Pattern / Curve / Source: ast of their own to_dict
            fn = _func_ast(type(o).to_dict)
            for f in R.reads_of(type(o), fn):
                add(c, f, "to_dict")
    # controls: ast of Rule.to_dict (Control inherits it)
    ctl = wntr.network.controls
    for c in CONTROL_CLASSES:
        o = inst[c]
        fn = _func_ast(type(o).to_dict)
        for f in R.reads_of(type(o), fn):
            add(c, f, "to_dict")
    # wn level: ast of wntr/network/io.py:to_dict
    t = _parse("wntr/network/io.py")
    f = [n for q, n, c in _functions_of(t) if q == "to_dict"]
    if not f:
        raise BrokenTie("wntr/network/io.py has no to_dict")
    argn = f[0].args.args[0].arg
    wncls = type(wn)
    got = False
    for n in ast.walk(f[0]):
        if isinstance(n, ast.Attribute) and isinstance(n.ctx, ast.Load):
            ch = _chain(n)
            if ch and ch[0] == argn and len(ch) >= 2:
                for r in R.getter_storage(wncls, ch[1]):
                    add("WaterNetworkModel", r, "io.to_dict reads wn.%s" % ch[1])
                    got = True
    if not got:
        raise BrokenTie("io.to_dict reads no attribute of its argument")
    # options: reflection
    od = wn.options.to_dict()
    for sec, v in od.items():
        if isinstance(v, dict):
            for k in v:
                add("Options", "%s.%s" % (sec, k), "options.to_dict")
        else:
            add("Options", sec, "options.to_dict")
    return slots


# =================================================================================================== RESET


def reset_assigns(wntr, wn, inst, R):
    S = WriteScanner(wntr, inst, R)
    fn = _func_ast(type(wn).reset_initial_values)
    S.scan_function(fn, "model.py:reset_initial_values", "wn")
    # control._reset(): ControlBase._reset / overriding _reset of control classes, and every condition's _reset
    calls_reset = any(isinstance(n, ast.Call) and isinstance(n.func, ast.Attribute) and n.func.attr == "_reset" for n in ast.walk(fn))
    if calls_reset:
        t = _parse("wntr/network/controls.py")
        bases = _class_bases(t)
        for q, n, c in _functions_of(t):
            if n.name != "_reset" or c is None:
                continue
            if _derives(bases, c, "ControlBase"):
                S.scan_function(n, "controls.py:%s" % q, "control", [(k, "") for k in CONTROL_CLASSES])
            elif _derives(bases, c, "ControlCondition"):
                S.scan_function(n, "controls.py:%s" % q, "control", [(k, "_condition.") for k in CONTROL_CLASSES])
    if not S.slots:
        raise BrokenTie("reset_initial_values assigns nothing the translator can see")
    return S


# =================================================================================================== runInitialises


def run_initialises(written):
    """written slots a run provably assigns before reading.  Criterion (ast, deliberately narrow): the slot is a
    WaterNetworkModel field assigned by a top-level statement of WNTRSimulator.run_sim (not nested in if/while/for/try) that
    precedes every other mention of the field in run_sim and every call that could read it.  Nothing in the current source
    meets it (sim_time is READ first: `if self._wn.sim_time == 0`; `_prev_sim_time = -1` is under `if first_step`), so the
    list is normally empty; it is computed, not assumed."""
    t = _parse("wntr/sim/core.py")
    fn = [n for q, n, c in _functions_of(t) if q == "WNTRSimulator.run_sim"]
    if not fn:
        raise BrokenTie("wntr/sim/core.py has no WNTRSimulator.run_sim")
    out, why = [], {}
    mentioned = set()
    for st in fn[0].body:
        tg = []
        if isinstance(st, ast.Assign):
            tg = st.targets
        fields_here = set()
        for n in ast.walk(st):
            if isinstance(n, ast.Attribute):
                ch = _chain(n)
                if ch and ".".join(ch[:2]) in WN_NAMES and len(ch) == 3:
                    fields_here.add(ch[2])
        has_call = any(isinstance(n, ast.Call) for n in ast.walk(st))
        for x in tg:
            ch = _chain(x) if isinstance(x, ast.Attribute) else None
            if ch and ".".join(ch[:2]) in WN_NAMES and len(ch) == 3 and ch[2] not in mentioned:
                reads_in_value = any(isinstance(n, ast.Attribute) and _chain(n) and _chain(n)[-1] == ch[2] for n in ast.walk(st.value))
                if not reads_in_value and not mentioned.intersection({"<call>"}) and ("WaterNetworkModel", ch[2]) in written:
                    out.append(("WaterNetworkModel", ch[2]))
                    why[("WaterNetworkModel", ch[2])] = "core.py:%d unconditional first statement touching it" % st.lineno
        mentioned |= fields_here
        if has_call:
            mentioned.add("<call>")
    return sorted(set(out)), why


# =================================================================================================== notReadBeforeWrite

RUNTIME_MODULES = ("wntr/sim/core.py", "wntr/sim/hydraulics.py", "wntr/sim/epanet.py", "wntr/sim/models/constraint.py",
                   "wntr/sim/models/param.py", "wntr/sim/models/var.py", "wntr/sim/models/utils.py", "wntr/sim/models/constants.py")


def runtime_functions():
    return _memo("runtime_functions", runtime_functions0)


def runtime_functions0():
    """(where, FunctionDef, self_kind) of the run-time closure of BOTH simulators, over-approximated: every function of the
    simulator modules and wntr/sim/models, every method of wntr/network/controls.py (self_kind 'control' / 'condition' by base
    class), the EPANET writer closure, and the WaterNetworkModel methods / properties whose NAME is loaded in those functions"""
    out = []
    for rel in RUNTIME_MODULES:
        for q, n, c in _functions_of(_parse(rel)):
            out.append(("%s:%s" % (rel.split("wntr/")[1], q), n, "internal"))
    t = _parse("wntr/network/controls.py")
    bases = _class_bases(t)
    for q, n, c in _functions_of(t):
        kind = "internal"
        if c and _derives(bases, c, "ControlBase"):
            kind = "control"
        elif c and _derives(bases, c, "ControlCondition"):
            kind = "condition"
        out.append(("controls.py:%s" % q, n, kind))
    have = set(w for w, n, k in out)
    for where, n in epanet_functions():
        if where not in have:
            out.append((where, n, "internal"))
    loaded = set()
    for w, n, k in out:
        for m in ast.walk(n):
            if isinstance(m, ast.Attribute):
                loaded.add(m.attr)
    for q, n, c in _functions_of(_parse("wntr/network/model.py")):
        if c == "WaterNetworkModel" and n.name in loaded and n.name not in ("__init__", "reset_initial_values"):
            out.append(("model.py:%s" % q, n, "wn"))
    return out


def computed_attribute_vocabulary(action_names):
    """attribute names that `getattr(obj, <computed>)` can take at run time (ValueCondition / RelativeCondition.evaluate read
    getattr(source_obj, source_attr); ControlChangeTracker reads getattr(target, attr)): the action attribute names in use, the
    literal source_attr / threshold_attr of every condition construction site in wntr, the attribute words the rule parser knows
    (_EpanetRule.generate_control) and TankLevelCondition's accepted set.  Same convention as writtenByActions: a rule text naming
    any other attribute is outside the modelled input space."""
    names = set(action_names)
    for rel in ("wntr/sim/core.py", "wntr/epanet/io.py", "wntr/network/controls.py", "wntr/network/elements.py", "wntr/network/model.py",
                "wntr/network/io.py"):
        t = _parse(rel)
        for n in ast.walk(t):
            if isinstance(n, ast.Call):
                f = n.func
                fn = f.id if isinstance(f, ast.Name) else (f.attr if isinstance(f, ast.Attribute) else None)
                if fn in ("ValueCondition", "TankLevelCondition", "RelativeCondition", "_conditional_control"):
                    cands = [n.args[i] for i in (1, 4) if i < len(n.args)] + [k.value for k in n.keywords if k.arg in ("source_attr", "threshold_attr")]
                    for a in cands:
                        if isinstance(a, ast.Constant) and isinstance(a.value, str):
                            names.add(a.value)
                if fn == "_InternalControlAction":
                    for a in list(n.args[1:2]) + list(n.args[3:4]):
                        if isinstance(a, ast.Constant) and isinstance(a.value, str):
                            names.add(a.value)
        for q, fnode, c in _functions_of(t):
            if fnode.name == "generate_control" or (c == "TankLevelCondition" and fnode.name == "__init__"):
                for n in ast.walk(fnode):
                    if isinstance(n, ast.Compare):
                        for comp in n.comparators:
                            elts = comp.elts if isinstance(comp, (ast.List, ast.Set, ast.Tuple)) else [comp]
                            for e in elts:
                                if isinstance(e, ast.Constant) and isinstance(e.value, str) and e.value.isidentifier() and e.value.islower():
                                    names.add(e.value)
    return sorted(names)


def control_reader_names(field):
    """names whose Load reads control-side field `field` (itself + every property of a controls.py class whose getter loads self.<field>)"""
    names = {field}
    t = _parse("wntr/network/controls.py")
    for q, n, c in _functions_of(t):
        if c and any(isinstance(d, ast.Name) and d.id == "property" for d in n.decorator_list):
            if any(isinstance(m, ast.Attribute) and m.attr == field and isinstance(m.ctx, ast.Load) for m in ast.walk(n)):
                names.add(n.name)
    return names


def collect_reads(wntr, inst, R, vocab):
    """name -> list of (compat, where): compat None = any object, else a set of class tags ('Junction', ..., 'Control', 'Rule',
    'condition', 'WaterNetworkModel') the loaded-from object can be"""
    S = WriteScanner(wntr, inst, R)
    reads = {}

    def note(name, X, where, lookup, kind, line):
        compat = None
        if isinstance(X, ast.Name):
            if X.id == "self":
                compat = {"internal": set(), "wn": {"WaterNetworkModel"}, "control": set(CONTROL_CLASSES), "condition": {"condition"}}[kind]
            else:
                what = lookup(X.id, line)
                if isinstance(what, list):
                    compat = set(what)
                elif what == "wn" or X.id in WN_NAMES:
                    compat = {"WaterNetworkModel"}
        elif isinstance(X, ast.Attribute) and _chain(X) and ".".join(_chain(X)) in WN_NAMES:
            compat = {"WaterNetworkModel"}
        reads.setdefault(name, []).append((compat, "%s:%d" % (where, line)))

    for where, fn, kind in runtime_functions():
        lookup = S._env(fn, None)
        for n in ast.walk(fn):
            if isinstance(n, ast.Attribute) and isinstance(n.ctx, ast.Load):
                note(n.attr, n.value, where, lookup, kind, n.lineno)
            elif isinstance(n, ast.Call) and isinstance(n.func, ast.Name) and n.func.id in ("getattr", "hasattr") and len(n.args) >= 2:
                a = n.args[1]
                if isinstance(a, ast.Constant) and isinstance(a.value, str):
                    note(a.value, n.args[0], where, lookup, kind, n.lineno)
                else:
                    for v in vocab:
                        reads.setdefault(v, []).append((None, "%s:%d getattr(%s, %s)" % (where, n.lineno, ast.unparse(n.args[0])[:30], ast.unparse(a)[:30])))
    return reads


def slot_reader_names(slot, inst, R):
    cls, field = slot
    if cls in CONTROL_CLASSES:
        return control_reader_names(field.split(".")[-1]), ("condition" if field.startswith("_condition.") else cls)
    if cls == "Options":
        return None, cls
    o = inst[cls]
    root = field.split(".")[0]
    names = {root}
    for pn in dir(type(o)):
        if pn.startswith("__"):
            continue
        try:
            st = R.getter_storage(type(o), pn)
        except BrokenTie:
            names.add(pn)
            continue
        if any(x.split(".")[0] == root for x in st):
            names.add(pn)
    return names, cls


def first_read(slot, inst, R, reads):
    """None when no run-time Load can read the slot, else 'name @ where' of one that can"""
    names, tag = slot_reader_names(slot, inst, R)
    if names is None:
        return "options are read throughout"
    hits = []
    for nm in sorted(names):
        for compat, where in reads.get(nm, []):
            if compat is None or tag in compat:
                hits.append("%s @ %s" % (nm, where))
    direct = [h for h in hits if "getattr(" not in h]
    return (direct or hits or [None])[0]


# ---- rule (ii): write dominates read through the ControlChecker protocol


def protocol_write_before_read(field):
    """control-side field F (no prefix): (a) every run-time Load of self.F is inside methods of ONE name B of the ControlBase
    family, (b) every run-time Store is inside methods of ONE name A, where each `return (True, ...)` is directly preceded by an
    assignment of self.F in the same block, (c) ControlChecker.check appends a control to its result only under `if do:` with
    `do, _ = c.A()` for the same c in the same loop body, (d) every call X.B() in the run-time closure is either on an action
    (loop variable over self._then_actions / self._else_actions inside B itself) or on an X bound from the list returned by a
    `.check()` call in the same function (loop target, tuple-unpack of L[i], L[i][0]; L may be re-bound to a comprehension over L).
    Returns (ok, evidence or reason)."""
    t = _parse("wntr/network/controls.py")
    bases = _class_bases(t)
    loads, stores = {}, {}
    for q, n, c in _functions_of(t):
        if not c or n.name in CONTROL_DEF_METHODS:
            continue
        for m in ast.walk(n):
            if isinstance(m, ast.Attribute) and m.attr == field:
                if not (isinstance(m.value, ast.Name) and m.value.id == "self" and _derives(bases, c, "ControlBase")):
                    return False, "%s is accessed outside the control classes' own methods (%s:%d)" % (field, q, m.lineno)
                (loads if isinstance(m.ctx, ast.Load) else stores).setdefault(n.name, []).append((q, n))
    for rel in RUNTIME_MODULES + ("wntr/epanet/io.py", "wntr/network/io.py", "wntr/network/model.py"):
        if field not in _read_src(rel):
            continue
        for m in ast.walk(_parse(rel)):
            if isinstance(m, ast.Attribute) and m.attr == field:
                return False, "%s is accessed in %s:%d" % (field, rel, m.lineno)
    if len(loads) != 1 or len(stores) != 1:
        return False, "loads in methods %s, stores in methods %s: not one reader / one writer" % (sorted(loads), sorted(stores))
    B, A = list(loads)[0], list(stores)[0]
    # (b)
    for q, n in stores[A]:
        def check_block(body):
            for i, st in enumerate(body):
                if isinstance(st, ast.Return):
                    v = st.value
                    first = v.elts[0] if isinstance(v, ast.Tuple) and v.elts else v
                    if isinstance(first, ast.Constant) and first.value is True:
                        prev = body[i - 1] if i else None
                        ok = (isinstance(prev, ast.Assign) and any(isinstance(x, ast.Attribute) and x.attr == field and isinstance(x.value, ast.Name)
                                                                   and x.value.id == "self" for x in prev.targets))
                        if not ok:
                            return "%s: `return True` at line %d is not directly preceded by an assignment of self.%s" % (q, st.lineno, field)
                    elif not (isinstance(first, ast.Constant) and first.value is False):
                        return "%s: return value at line %d is not a literal True / False tuple" % (q, st.lineno)
                for sub in ("body", "orelse", "finalbody"):
                    r = check_block(getattr(st, sub, []) or []) if not isinstance(st, (ast.FunctionDef, ast.ClassDef)) else None
                    if r:
                        return r
            return None
        r = check_block(n.body)
        if r:
            return False, r
    # (c)
    chk = [n for q, n, c in _functions_of(t) if q == "ControlChecker.check"]
    if not chk:
        return False, "no ControlChecker.check"
    ok_c = False
    for loop in ast.walk(chk[0]):
        if isinstance(loop, ast.For) and isinstance(loop.target, ast.Name):
            cv = loop.target.id
            st = loop.body
            if (len(st) == 2 and isinstance(st[0], ast.Assign) and isinstance(st[0].targets[0], ast.Tuple)
                    and isinstance(st[0].value, ast.Call) and isinstance(st[0].value.func, ast.Attribute) and st[0].value.func.attr == A
                    and isinstance(st[0].value.func.value, ast.Name) and st[0].value.func.value.id == cv
                    and isinstance(st[1], ast.If) and isinstance(st[1].test, ast.Name)
                    and st[1].test.id == st[0].targets[0].elts[0].id and not st[1].orelse):
                apps = [m for m in ast.walk(st[1]) if isinstance(m, ast.Call) and isinstance(m.func, ast.Attribute) and m.func.attr == "append"]
                if apps and all(isinstance(a.args[0], ast.Tuple) and isinstance(a.args[0].elts[0], ast.Name) and a.args[0].elts[0].id == cv for a in apps):
                    other = [m for m in ast.walk(chk[0]) if isinstance(m, ast.Call) and isinstance(m.func, ast.Attribute)
                             and m.func.attr in ("append", "extend", "insert") and m not in apps]
                    ok_c = not other
    if not ok_c:
        return False, "ControlChecker.check does not have the shape `do, back = c.%s(); if do: result.append((c, back))`" % A
    # (d)
    nsites = 0
    rt = runtime_functions()
    producers = {"check"}   # .check() and one-level wrappers: functions all of whose returns give back a name bound to a .check() result

    def is_producer_call(v):
        return isinstance(v, ast.Call) and isinstance(v.func, ast.Attribute) and v.func.attr in producers and not v.args

    for where, fn, kind in rt:
        names = set(m.targets[0].id for m in ast.walk(fn) if isinstance(m, ast.Assign) and len(m.targets) == 1
                    and isinstance(m.targets[0], ast.Name) and is_producer_call(m.value))
        rets = [m for m in ast.walk(fn) if isinstance(m, ast.Return)]
        other = [m for m in ast.walk(fn) if isinstance(m, ast.Assign) and len(m.targets) == 1 and isinstance(m.targets[0], ast.Name)
                 and m.targets[0].id in names and not is_producer_call(m.value)]
        if names and rets and not other and all(isinstance(r.value, ast.Name) and r.value.id in names for r in rets) and not fn.args.args[1:]:
            producers.add(fn.name)
    for where, fn, kind in rt:
        checked = set()   # names bound to a .check() result
        for m in ast.walk(fn):
            if isinstance(m, ast.Assign) and len(m.targets) == 1 and isinstance(m.targets[0], ast.Name):
                v = m.value
                if is_producer_call(v):
                    checked.add(m.targets[0].id)
        if checked:
            for m in ast.walk(fn):   # re-binding: L = [(c, 0) for c, b in L]
                if isinstance(m, ast.Assign) and len(m.targets) == 1 and isinstance(m.targets[0], ast.Name) and m.targets[0].id in checked:
                    v = m.value
                    is_check = is_producer_call(v)
                    is_self_comp = (isinstance(v, ast.ListComp) and len(v.generators) == 1 and isinstance(v.generators[0].iter, ast.Name)
                                    and v.generators[0].iter.id == m.targets[0].id and isinstance(v.generators[0].target, ast.Tuple)
                                    and isinstance(v.elt, ast.Tuple) and isinstance(v.elt.elts[0], ast.Name)
                                    and v.elt.elts[0].id == v.generators[0].target.elts[0].id and not v.generators[0].ifs)
                    if not (is_check or is_self_comp):
                        return False, "%s:%d re-binds the checked list %s to something else" % (where, m.lineno, m.targets[0].id)
        bound = {}   # variable -> (line0, line1) ranges where it holds an element of a checked list
        for m in ast.walk(fn):
            if isinstance(m, ast.For) and isinstance(m.iter, ast.Name) and m.iter.id in checked and isinstance(m.target, ast.Tuple) \
                    and isinstance(m.target.elts[0], ast.Name):
                bound.setdefault(m.target.elts[0].id, []).append((m.lineno, m.end_lineno))
            if isinstance(m, ast.Assign) and isinstance(m.targets[0], ast.Tuple) and isinstance(m.targets[0].elts[0], ast.Name) \
                    and isinstance(m.value, ast.Subscript) and isinstance(m.value.value, ast.Name) and m.value.value.id in checked:
                bound.setdefault(m.targets[0].elts[0].id, []).append((m.lineno, None))
        action_loops = {}
        for m in ast.walk(fn):
            if isinstance(m, ast.For) and isinstance(m.target, ast.Name) and isinstance(m.iter, ast.Attribute) \
                    and m.iter.attr in ("_then_actions", "_else_actions") and isinstance(m.iter.value, ast.Name) and m.iter.value.id == "self":
                action_loops.setdefault(m.target.id, []).append((m.lineno, m.end_lineno))
        rebinds = {}
        for m in ast.walk(fn):
            if isinstance(m, (ast.Assign, ast.For)):
                tg = m.targets if isinstance(m, ast.Assign) else [m.target]
                for x in tg:
                    for y in ast.walk(x):
                        if isinstance(y, ast.Name):
                            rebinds.setdefault(y.id, []).append(m.lineno)
        for m in ast.walk(fn):
            if isinstance(m, ast.Call) and isinstance(m.func, ast.Attribute) and m.func.attr == B:
                X = m.func.value
                ok = False
                if isinstance(X, ast.Name):
                    if any(l0 <= m.lineno <= l1 for l0, l1 in action_loops.get(X.id, [])) and fn.name == B:
                        ok = True   # an action's run_control_action
                    for l0, l1 in bound.get(X.id, []):
                        if l0 <= m.lineno and (l1 is None or m.lineno <= l1):
                            # the latest binding of X before the call must be this one
                            last = max([l for l in rebinds.get(X.id, []) if l <= m.lineno] or [0])
                            if last == l0:
                                ok = True
                elif (isinstance(X, ast.Subscript) and isinstance(X.slice, ast.Constant) and X.slice.value == 0
                      and isinstance(X.value, ast.Subscript) and isinstance(X.value.value, ast.Name) and X.value.value.id in checked):
                    ok = True
                if not ok:
                    return False, "%s:%d calls %s.%s() on an object not taken from a .check() result" % (where, m.lineno, ast.unparse(X)[:40], B)
                nsites += 1
    return True, ("read only in %s (controls.py); assigned in %s directly before every `return True`; ControlChecker.check returns a control "
                  "only after its %s() returned True; all %d call sites of .%s() take their receiver from a .check() result (or are action calls "
                  "inside %s)" % (B, A, A, nsites, B, B))


# ---- rule (iii): key-guarded memo


MEMO_REJECTS = {}
MUTATORS = {"append", "extend", "insert", "sort", "reverse", "pop", "remove", "clear", "update", "add", "discard", "setdefault", "popitem"}


def _alias_mutation(G, key_expr, owners, R):
    """reason (str) why the memo key `key_expr` (e.g. curve.points, curve = self.get_pump_curve()) may alias a container that some
    method of its class mutates in place, or None when every method only rebinds the storage (a mutating call directly after a rebind
    in the same block, like `self._points = copy(...); self._points.sort()`, acts on the fresh object and is fine)"""
    ch = _chain(key_expr)
    if not ch or len(ch) != 2:
        return "memo key %s is not of the form <local>.<attribute>" % ast.unparse(key_expr)
    local, attr = ch
    getter = None
    for m in ast.walk(G):
        if isinstance(m, ast.Assign) and len(m.targets) == 1 and isinstance(m.targets[0], ast.Name) and m.targets[0].id == local \
                and isinstance(m.value, ast.Call) and isinstance(m.value.func, ast.Attribute) and isinstance(m.value.func.value, ast.Name) \
                and m.value.func.value.id == "self" and not m.value.args:
            getter = m.value.func.attr
    if getter is None or not owners:
        return "cannot tell which object %s is" % local
    for o in owners:
        try:
            obj = getattr(o, getter)()
        except Exception as e:
            return "%s() raises on the zoo instance: %s" % (getter, e)
        T = type(obj)
        try:
            fields = [f.split(".")[0] for f in R.getter_storage(T, attr)]
            tree = ast.parse(textwrap.dedent(inspect.getsource(T)))
        except (OSError, TypeError, SyntaxError, BrokenTie) as e:
            return "cannot read class %s: %s" % (T.__name__, e)

        def is_store(x, f):
            return isinstance(x, ast.Attribute) and x.attr == f and isinstance(x.value, ast.Name) and x.value.id == "self"

        for f in fields:
            for fn in ast.walk(tree):
                if not isinstance(fn, ast.FunctionDef):
                    continue
                def scan(body):
                    rebound = False
                    for st in body:
                        if isinstance(st, ast.Assign) and any(is_store(t, f) for t in st.targets):
                            rebound = True
                            continue
                        for m in ast.walk(st):
                            bad = None
                            if isinstance(m, ast.Subscript) and isinstance(m.ctx, (ast.Store, ast.Del)) and is_store(m.value, f):
                                bad = "assigns into self.%s[...]" % f
                            elif isinstance(m, ast.AugAssign) and is_store(m.target, f):
                                bad = "updates self.%s in place" % f
                            elif isinstance(m, ast.Call) and isinstance(m.func, ast.Attribute) and m.func.attr in MUTATORS and is_store(m.func.value, f):
                                bad = None if rebound else "calls self.%s.%s()" % (f, m.func.attr)
                            if bad:
                                return "%s.%s %s (line %d of the class): the memo key aliases that container" % (T.__name__, fn.name, bad, m.lineno)
                    return None
                r = scan(fn.body)
                if r:
                    return r
    return None


def guarded_memo_pairs(wntr, inst, R, reads):
    """[(cls, M, K, evidence)]: method G of an element class whose top-level body contains
        if self.M is None or <E> != self.K:  h(...)        (h nested in G, the ONLY place that assigns self.K = <E'> and self.M = ...,
    both unconditionally at the end of h, E' == E textually; `self.M = None` elsewhere is an invalidation and allowed), every other Load of self.M in G comes after that `if` at top level,
    self.K is loaded only in the test, and no other run-time function loads M or K (no property returns them).  Then a value of M is
    only ever used when the stored key K equals the key recomputed from definition data, and (K, M) are always assigned together."""
    out = []
    et = _parse("wntr/network/elements.py")
    bases = dict(_class_bases(et))
    bases.update(_class_bases(_parse("wntr/network/base.py")))
    src_all = _read_src("wntr/network/elements.py")
    for q, G, c in _functions_of(et):
        if c is None or q.count(".") != 1:
            continue
        for i, st in enumerate(G.body):
            if not (isinstance(st, ast.If) and isinstance(st.test, ast.BoolOp) and isinstance(st.test.op, ast.Or) and len(st.test.values) == 2):
                continue
            a, b = st.test.values
            if not (isinstance(a, ast.Compare) and len(a.ops) == 1 and isinstance(a.ops[0], ast.Is) and isinstance(a.comparators[0], ast.Constant)
                    and a.comparators[0].value is None and isinstance(a.left, ast.Attribute) and isinstance(a.left.value, ast.Name) and a.left.value.id == "self"):
                continue
            if not (isinstance(b, ast.Compare) and len(b.ops) == 1 and isinstance(b.ops[0], ast.NotEq)):
                continue
            sides = [b.left, b.comparators[0]]
            ks = [x for x in sides if isinstance(x, ast.Attribute) and isinstance(x.value, ast.Name) and x.value.id == "self"]
            es = [x for x in sides if x not in ks]
            if len(ks) != 1 or len(es) != 1:
                continue
            M, K, E = a.left.attr, ks[0].attr, ast.unparse(es[0])
            if not (len(st.body) == 1 and isinstance(st.body[0], ast.Expr) and isinstance(st.body[0].value, ast.Call)
                    and isinstance(st.body[0].value.func, ast.Name) and not st.orelse):
                continue
            hname = st.body[0].value.func.id
            hs = [x for x in G.body if isinstance(x, ast.FunctionDef) and x.name == hname]
            if len(hs) != 1:
                continue
            h = hs[0]
            # parameter renaming: E is written with G's local, E' with h's parameter
            call = st.body[0].value
            ren = {p.arg: ast.unparse(arg) for p, arg in zip(h.args.args, call.args)}
            last2 = h.body[-2:]
            assigned = {}
            for x in last2:
                if isinstance(x, ast.Assign) and len(x.targets) == 1 and isinstance(x.targets[0], ast.Attribute) \
                        and isinstance(x.targets[0].value, ast.Name) and x.targets[0].value.id == "self":
                    assigned[x.targets[0].attr] = x.value
            if set(assigned) != {M, K}:
                continue
            e2 = assigned[K]
            e2s = ast.unparse(e2)
            ch = _chain(e2)
            if ch and ch[0] in ren:
                e2s = ren[ch[0]] + e2s[len(ch[0]):]
            if e2s != E:
                continue
            # every store of M / K anywhere in the module is one of these two (or in __init__ / class construction)
            bad = None
            for q2, n2, c2 in _functions_of(et):
                none_stores = set()
                for m in ast.walk(n2):   # `self.M = None` elsewhere only invalidates the memo
                    if isinstance(m, ast.Assign) and isinstance(m.value, ast.Constant) and m.value.value is None:
                        for x in m.targets:
                            none_stores.add(id(x))
                for m in ast.walk(n2):
                    if isinstance(m, ast.Attribute) and m.attr in (M, K):
                        inside_G = (q2 == q)
                        if isinstance(m.ctx, ast.Store):
                            if not (inside_G or n2.name == "__init__" or (m.attr == M and id(m) in none_stores)):
                                bad = "%s stores %s" % (q2, m.attr)
                        elif not inside_G:
                            bad = "%s loads %s" % (q2, m.attr)
            if bad:
                continue
            # loads inside G: K only in the test; M in the test or in top-level statements after the if
            after = set()
            for x in G.body[i + 1:]:
                for m in ast.walk(x):
                    after.add(id(m))
            intest = set(id(m) for m in ast.walk(st.test))
            ok = True
            for m in ast.walk(G):
                if isinstance(m, ast.Attribute) and m.attr in (M, K) and isinstance(m.ctx, ast.Load):
                    if id(m) in intest:
                        continue
                    if m.attr == M and id(m) in after:
                        continue
                    ok = False
            # h must not load M / K, and its two assignments are its last statements, outside any branch
            for m in ast.walk(h):
                if isinstance(m, ast.Attribute) and m.attr in (M, K) and isinstance(m.ctx, ast.Load):
                    ok = False
            if not ok:
                continue
            conc = [k for k in ELEMENT_CLASSES if _derives(bases, k, c)]
            # the stored key must not alias a container that is updated in place: E = <local>.<attr> with <local> = self.<getter>();
            # the class of that object (reflection on the zoo instance) must only ever REBIND the storage behind <attr>
            alias = _alias_mutation(G, es[0], [inst[k] for k in conc if k in inst], R)
            if alias:
                for k in conc:
                    MEMO_REJECTS[(k, M)] = MEMO_REJECTS[(k, K)] = "rule (iii) fails: " + alias
                ok = False
            # no run-time function outside elements.py touches the two names (no property returns them: checked through reads)
            for k in conc:
                for f in (M, K):
                    for nm in (f,):
                        if reads.get(nm):
                            ok = False
            if ok and conc:
                ev = ("%s: `if self.%s is None or %s != self.%s: %s(...)` at elements.py:%d; %s assigns self.%s = %s and self.%s together as its "
                      "last statements; every other load of self.%s follows that test; nothing else loads or stores either field"
                      % (q, M, E, K, hname, st.lineno, hname, K, ast.unparse(e2), M, M))
                for k in conc:
                    out.append((k, M, K, ev))
    return out


def not_read_before_write(wntr, inst, R, written, action_names):
    """(slots, evidence lines, per-slot decisions for the not-reset slots)"""
    vocab = computed_attribute_vocabulary(action_names)
    reads = collect_reads(wntr, inst, R, vocab)
    out, ev, decisions = [], [], {}
    for slot in sorted(written):
        fr = first_read(slot, inst, R, reads)
        decisions[slot] = ("out", "rule (i) fails: read as " + fr) if fr else ("in", "rule (i): no run-time Load of %s"
                                                                               % sorted(slot_reader_names(slot, inst, R)[0]))
        if fr is None:
            out.append(slot)
            ev.append("notReadBeforeWrite %s.%s -- (i) never read: none of the names %s is loaded in the run-time closure of either simulator "
                      "on an object that can be a %s" % (slot[0], slot[1], sorted(slot_reader_names(slot, inst, R)[0]), slot[0]))
    # (ii) protocol fields of the control classes
    for f in sorted(set(s[1] for s in written if s[0] in CONTROL_CLASSES and not s[1].startswith("_condition."))):
        slots = [s for s in sorted(written) if s[0] in CONTROL_CLASSES and s[1] == f and s not in out]
        if not slots:
            continue
        ok, why = protocol_write_before_read(f)
        for sl in slots:
            if ok:
                out.append(sl)
                ev.append("notReadBeforeWrite %s.%s -- (ii) write dominates read: %s" % (sl[0], sl[1], why))
                decisions[sl] = ("in", "rule (ii): " + why)
            else:
                decisions[sl] = ("out", decisions[sl][1] + "; rule (ii) fails: " + why)
    # (ii') _condition.<F>: every evaluate() that assigns F assigns it on every path; composite conditions must evaluate all children
    for f in sorted(set(s[1] for s in written if s[0] in CONTROL_CLASSES and s[1].startswith("_condition."))):
        slots = [s for s in sorted(written) if s[0] in CONTROL_CLASSES and s[1] == f and s not in out]
        if not slots:
            continue
        ok, why = condition_field_all_paths(f.split(".", 1)[1])
        for sl in slots:
            if ok:
                out.append(sl)
                ev.append("notReadBeforeWrite %s.%s -- (ii) %s" % (sl[0], sl[1], why))
                decisions[sl] = ("in", "rule (ii): " + why)
            else:
                decisions[sl] = ("out", decisions[sl][1] + "; rule (ii) fails: " + why)
    # (iii) key-guarded memos
    MEMO_REJECTS.clear()
    pairs = guarded_memo_pairs(wntr, inst, R, reads)
    for sl, why in MEMO_REJECTS.items():
        if sl in decisions and decisions[sl][0] == "out":
            decisions[sl] = ("out", decisions[sl][1] + "; " + why)
    for (c, M, K, why) in pairs:
        for f in (M, K):
            if (c, f) in written and (c, f) not in out:
                out.append((c, f))
                ev.append("notReadBeforeWrite %s.%s -- (iii) key-guarded memo: %s" % (c, f, why))
                decisions[(c, f)] = ("in", "rule (iii): " + why)
    return sorted(set(out)), ev, decisions, vocab


def _definitely_assigns(body, field):
    """every path through the statement list that reaches its end or a `return` has assigned self.<field> before"""
    def assigns(st):
        return isinstance(st, ast.Assign) and any(isinstance(t, ast.Attribute) and t.attr == field and isinstance(t.value, ast.Name)
                                                  and t.value.id == "self" for t in st.targets)

    def walk(stmts, done):
        """returns (ok, done_at_end); ok False when a return is reached without assignment"""
        for st in stmts:
            if assigns(st):
                done = True
            elif isinstance(st, ast.Return):
                return done, True   # path ends; nothing after counts
            elif isinstance(st, ast.Raise):
                return True, True
            elif isinstance(st, ast.If):
                ok1, d1 = walk(st.body, done)
                ok2, d2 = walk(st.orelse, done)
                if not (ok1 and ok2):
                    return False, False
                done = d1 and d2
            elif isinstance(st, (ast.For, ast.While, ast.With, ast.Try)):
                for sub in ("body", "orelse", "finalbody"):
                    ok1, _ = walk(getattr(st, sub, []) or [], done)
                    if not ok1:
                        return False, False
        return True, done

    ok, done = walk(body, False)
    return ok and done


def condition_field_all_paths(field):
    """(ok, evidence / reason) for a field of the condition classes that evaluate() assigns"""
    t = _parse("wntr/network/controls.py")
    bases = _class_bases(t)
    good, never, bad = [], [], []
    evals = {}
    for q, n, c in _functions_of(t):
        if c and _derives(bases, c, "ControlCondition") and n.name == "evaluate":
            evals[c] = n
    # stores outside evaluate / __init__ / _reset break the rule
    for q, n, c in _functions_of(t):
        if c and _derives(bases, c, "ControlCondition") and n.name not in ("evaluate", "__init__", "_reset", "__new__"):
            for m in ast.walk(n):
                if isinstance(m, ast.Attribute) and m.attr == field and isinstance(m.ctx, ast.Store):
                    bad.append("%s assigns it outside evaluate" % q)
    for c, n in sorted(evals.items()):
        stores = any(isinstance(m, ast.Attribute) and m.attr == field and isinstance(m.ctx, ast.Store) for m in ast.walk(n))
        loads = any(isinstance(m, ast.Attribute) and m.attr == field and isinstance(m.ctx, ast.Load) for m in ast.walk(n))
        if stores and loads:
            bad.append("%s.evaluate reads %s itself (its value from the previous evaluation is state)" % (c, field))
        elif not stores:
            never.append(c)
        elif _definitely_assigns(n.body, field):
            good.append(c)
        else:
            bad.append("%s.evaluate assigns it on some paths only" % c)
    # a reader property on a composite condition that reads its children's value while evaluate() may skip a child (short circuit)
    readers = control_reader_names(field)
    for q, n, c in _functions_of(t):
        if c and _derives(bases, c, "ControlCondition") and n.name in readers and n.name != field:
            kids = [m for m in ast.walk(n) if isinstance(m, ast.Attribute) and m.attr in readers and isinstance(m.value, ast.Attribute)
                    and isinstance(m.value.value, ast.Name) and m.value.value.id == "self"]
            if kids and c in evals:
                if any(isinstance(m, ast.BoolOp) for m in ast.walk(evals[c])):
                    bad.append("%s.%s reads its children's %s but %s.evaluate short-circuits (`and` / `or`), so a child may not have been "
                               "evaluated in this run" % (c, n.name, n.name, c))
    if bad:
        return False, "; ".join(bad) + " [assigned on every path by: %s; never assigned by: %s]" % (good, never)
    return True, "every evaluate() that assigns %s does so on every path (%s); the others never assign it (%s)" % (field, good, never)


# =================================================================================================== inpWriterReads


def inp_writer_functions():
    return [(w, n) for w, n in epanet_functions() if w.startswith(("epanet/io.py", "network/io.py"))]


def inp_writer_reads(wntr, inst, R):
    """storage fields the INP writer loads from model-owned objects: {slot: set(where)}.  Every maximal attribute chain in Load
    context (and getattr(X, 'literal')) of write_inpfile and of the InpFile.write call closure; the root name is typed by the loop /
    name-list / get_* bindings, `wn` / `self.wn`, else by hasattr reflection over all zoo classes; the first attribute is resolved to
    storage with Resolver.getter_storage (properties and methods are followed)."""
    S = WriteScanner(wntr, inst, R)
    out = {}
    ALL = ELEMENT_CLASSES + CONTROL_CLASSES + ["Pattern", "Curve", "Source"]

    def add(c, f, w):
        out.setdefault((c, f), set()).add(w)

    def on_classes(classes, names, w):
        for c in classes:
            o = inst.get(c)
            if o is None or not hasattr(o, names[0]):
                continue
            try:
                for f in R._path(type(o), names[:2], 0):
                    add(c, f, w)
            except BrokenTie:
                add(c, names[0], w)

    def on_wn(names, w):
        if not names:
            return
        if names[0] in ("options", "_options"):
            add("WaterNetworkModel", "_options", w)
            if len(names) >= 3:
                add("Options", ".".join(names[1:3]), w)
            elif len(names) == 2:
                add("Options", names[1], w)
            else:
                add("WaterNetworkModel", "_options", w)
            return
        for f in R._path(type(inst["WaterNetworkModel"]), names[:1], 0):
            add("WaterNetworkModel", f, w)

    for where, fn in inp_writer_functions():
        lookup = S._env(fn, None, name_lists=True)
        guards = _isinstance_guards(fn)
        parents = {}
        for n in ast.walk(fn):
            for c in ast.iter_child_nodes(n):
                parents[id(c)] = n
        items = []
        for n in ast.walk(fn):
            if isinstance(n, ast.Attribute) and isinstance(n.ctx, ast.Load):
                par = parents.get(id(n))
                if isinstance(par, ast.Attribute) and par.value is n:
                    continue
                if isinstance(par, ast.Subscript) and par.value is n:
                    pp = parents.get(id(par))
                    if isinstance(pp, ast.Attribute) and pp.value is par:
                        continue
                ch = _chain(n)
                if ch is None:
                    base = n.value
                    while isinstance(base, (ast.Attribute, ast.Subscript)):
                        base = base.value
                    if isinstance(base, ast.Call) and isinstance(base.func, ast.Name) and base.func.id[:1].isupper():
                        continue  # LinkStatus(value).name: attribute of a freshly made value
                    if isinstance(base, (ast.Constant, ast.JoinedStr)):
                        continue  # '...'.format
                    ch = ["<expr>", n.attr]
                elif isinstance(par, ast.Call) and par.func is n and len(ch) > 2:
                    ch = ch[:-1]  # x.a.method(): reads x.a
                items.append((ch, n.lineno))
            elif isinstance(n, ast.Call) and isinstance(n.func, ast.Name) and n.func.id == "getattr" and len(n.args) >= 2:
                a = n.args[1]
                base = _chain(n.args[0]) or ["<expr>"]
                if isinstance(a, ast.Constant) and isinstance(a.value, str):
                    items.append((base + [a.value], n.lineno))
        for ch, line in items:
            w = "%s:%d" % (where, line)
            root = ch[0]
            if root == "self":
                if len(ch) >= 3 and ".".join(ch[:2]) in WN_NAMES:
                    on_wn(ch[2:], w)
                elif len(ch) >= 3:
                    on_classes(ALL, ch[2:], w)  # self.<holder>.<attr>: the holder may be a model object
                continue
            if len(ch) < 2:
                continue
            what = lookup(root, line)
            if what == "wn" or root in WN_NAMES:
                on_wn(ch[1:], w)
            elif isinstance(what, list):
                g = guards.get((root, line))
                on_classes([c for c in what if not g or c in g], ch[1:], w)
            elif isinstance(what, tuple) and what[0] == "options":
                on_wn(["options"] + [x for x in what[1].split(".") if x] + ch[1:], w)
            elif what == "fresh" or isinstance(what, tuple):
                continue
            else:
                g = guards.get((root, line))
                on_classes([c for c in ALL if not g or c in g], ch[1:], w)
    if not out:
        raise BrokenTie("the INP writer closure reads nothing the translator can see")
    return out


# =================================================================================================== backtrack facts (wave 5)


def _cond_classes():
    """controls.py: (tree, bases, {concrete condition class: ClassDef}) -- every subclass of ControlCondition"""
    t = _parse("wntr/network/controls.py")
    bases = _class_bases(t)
    cls = {n.name: n for n in ast.walk(t) if isinstance(n, ast.ClassDef) and n.name != "ControlCondition" and _derives(bases, n.name, "ControlCondition")}
    if not cls:
        raise BrokenTie("controls.py defines no subclass of ControlCondition")
    return t, bases, cls


def _method(cls_map, bases, cname, mname, with_base=True):
    """the FunctionDef `mname` that class `cname` uses (own or inherited inside controls.py), or None"""
    seen, todo = set(), [cname]
    t = _parse("wntr/network/controls.py")
    allc = _memo("controls_classes", lambda: {n.name: n for n in ast.walk(t) if isinstance(n, ast.ClassDef)})
    while todo:
        c = todo.pop(0)
        if c in seen or c not in allc:
            continue
        seen.add(c)
        for st in allc[c].body:
            if isinstance(st, ast.FunctionDef) and st.name == mname:
                return c, st
        if not with_base:
            return None, None
        todo += [b for b in bases.get(c, []) if b]
    return None, None


def backtrack_facts(wntr, inst, R):
    field = "_backtrack"
    t, bases, cls = _cond_classes()
    S = WriteScanner(wntr, inst, R)
    kinds, composite = {}, []
    for c in sorted(cls):
        # composite: the class (or a base below ControlCondition) overrides the `backtrack` property and reads its children's
        owner, prop = _method(cls, bases, c, "backtrack")
        if prop is not None and owner != "ControlCondition":
            kids = [m for m in ast.walk(prop) if isinstance(m, ast.Attribute) and m.attr in ("backtrack", field)
                    and not (isinstance(m.value, ast.Name) and m.value.id == "self")]
            if not kids:
                raise BrokenTie("%s overrides `backtrack` without reading a child's backtrack: not understood" % owner)
            kinds[c] = "composite"
            composite.append(c)
            continue
        owner, ev = _method(cls, bases, c, "evaluate")
        if ev is None or owner == "ControlCondition":
            raise BrokenTie("condition class %s has no evaluate() in controls.py" % c)

        def stores_in(fn, depth=0):
            st = any(isinstance(m, ast.Attribute) and m.attr == field and isinstance(m.ctx, ast.Store) for m in ast.walk(fn))
            if any(isinstance(m, ast.Call) and isinstance(m.func, ast.Name) and m.func.id == "setattr" for m in ast.walk(fn)):
                raise BrokenTie("%s.evaluate uses setattr: cannot classify its treatment of %s" % (c, field))
            if depth < 3:
                for m in ast.walk(fn):
                    if isinstance(m, ast.Call) and isinstance(m.func, ast.Attribute) and isinstance(m.func.value, ast.Name) and m.func.value.id == "self":
                        o2, f2 = _method(cls, bases, c, m.func.attr)
                        if f2 is not None and f2 is not fn and stores_in(f2, depth + 1):
                            st = "called"
            return st

        st = stores_in(ev)
        if not st:
            kinds[c] = "neverAssigns"
        elif st is True and _definitely_assigns(ev.body, field):
            kinds[c] = "assignsAllPaths"
        else:
            kinds[c] = "assignsSomePaths"
    # ---- which control types are registered with the presolve checker
    ct = _parse("wntr/sim/core.py")
    pre_types = set()
    for n in ast.walk(ct):
        if isinstance(n, ast.If) and any(isinstance(m, ast.Call) and isinstance(m.func, ast.Attribute) and m.func.attr == "register_control"
                                         and "_presolve_controls" in ast.unparse(m.func.value) for s_ in n.body for m in ast.walk(s_)):
            for m in ast.walk(n.test):
                if isinstance(m, ast.Attribute) and isinstance(m.value, ast.Name) and m.value.id == "_ControlType":
                    pre_types.add(m.attr)
    if not pre_types:
        raise BrokenTie("sim/core.py: cannot find which _ControlType values are registered with self._presolve_controls")
    # ---- Control.__init__: isinstance(condition, ...) -> type
    owner, init = _method(cls, bases, "Control", "__init__", with_base=False)
    if init is None:
        raise BrokenTie("controls.py has no Control.__init__")
    pre_named, default_pre = set(), False
    chain = [x for x in init.body if isinstance(x, ast.If) and any(isinstance(m, ast.Attribute) and m.attr == "_control_type" and isinstance(m.ctx, ast.Store)
                                                                   for m in ast.walk(x))]
    if len(chain) != 1:
        raise BrokenTie("Control.__init__: expected one if/elif chain assigning self._control_type")
    node = chain[0]

    def assigned_type(body):
        for x in body:
            if isinstance(x, ast.Assign) and ast.unparse(x.targets[0]) == "self._control_type" and isinstance(x.value, ast.Attribute):
                return x.value.attr
        raise BrokenTie("Control.__init__: branch does not assign a literal _ControlType")

    while True:
        tst = node.test
        if not (isinstance(tst, ast.Call) and isinstance(tst.func, ast.Name) and tst.func.id == "isinstance" and ast.unparse(tst.args[0]) == "condition"):
            raise BrokenTie("Control.__init__: test is not isinstance(condition, ...): %s" % ast.unparse(tst))
        names = [e.id for e in (tst.args[1].elts if isinstance(tst.args[1], ast.Tuple) else [tst.args[1]])]
        if assigned_type(node.body) in pre_types:
            pre_named |= set(names)
        if len(node.orelse) == 1 and isinstance(node.orelse[0], ast.If):
            node = node.orelse[0]
            continue
        if node.orelse and assigned_type(node.orelse) in pre_types:
            default_pre = True
        break
    presolve = set(c for c in cls if default_pre or any(_derives(bases, c, b) for b in pre_named))
    # ---- explicit `X._control_type = _ControlType.T` in sim/core.py: the condition X was constructed with
    vc_new = _value_condition_dispatch(cls, bases)
    feas_top, feas_leaf = set(), set()

    def cond_classes(expr, fn, lookup, line):
        """(top classes, leaf classes) of a condition expression / variable"""
        if isinstance(expr, ast.Name):
            src = [m for m in ast.walk(fn) if isinstance(m, ast.Assign) and len(m.targets) == 1 and isinstance(m.targets[0], ast.Name)
                   and m.targets[0].id == expr.id and m.lineno <= line]
            if not src:
                raise BrokenTie("sim/core.py:%d condition variable %s has no assignment in %s" % (line, expr.id, fn.name))
            last = max(src, key=lambda m: m.lineno)
            if isinstance(last.value, ast.Attribute) and last.value.attr == "condition":
                return None, None  # condition of a user control passed on: covered by the Control.__init__ rule
            return cond_classes(last.value, fn, lookup, last.lineno)
        if isinstance(expr, ast.Attribute) and expr.attr == "condition":
            return None, None
        if not (isinstance(expr, ast.Call) and isinstance(expr.func, ast.Name)):
            raise BrokenTie("sim/core.py:%d cannot tell the class of condition %s" % (line, ast.unparse(expr)[:60]))
        cn = expr.func.id
        if cn not in cls:
            raise BrokenTie("sim/core.py:%d %s is not a condition class of controls.py" % (line, cn))
        if kinds[cn] == "composite":
            leaves = set()
            for a in list(expr.args) + [k.value for k in expr.keywords]:
                tp, lf = cond_classes(a, fn, lookup, line)
                if tp is None:
                    raise BrokenTie("sim/core.py:%d composite condition over a user condition" % line)
                leaves |= lf
            return {cn}, leaves
        if cn == vc_new["base"]:
            a0 = expr.args[0] if expr.args else next((k.value for k in expr.keywords if k.arg == "source_obj"), None)
            a1 = expr.args[1] if len(expr.args) > 1 else next((k.value for k in expr.keywords if k.arg == "source_attr"), None)
            what = lookup(a0.id, line) if isinstance(a0, ast.Name) else None
            attr_ok = not (isinstance(a1, ast.Constant) and a1.value not in vc_new["attrs"])
            if isinstance(what, list) and vc_new["cls"] not in what or not attr_ok:
                res = {cn}
            elif isinstance(what, list) and set(what) == {vc_new["cls"]} and isinstance(a1, ast.Constant):
                res = {vc_new["target"]}
            else:
                res = {cn, vc_new["target"]}
            return res, res
        return {cn}, {cn}

    for q, fn, c in _functions_of(ct):
        lookup = None
        for n in ast.walk(fn):
            if isinstance(n, ast.Assign) and len(n.targets) == 1 and isinstance(n.targets[0], ast.Attribute) and n.targets[0].attr == "_control_type" \
                    and isinstance(n.targets[0].value, ast.Name) and isinstance(n.value, ast.Attribute):
                T = n.value.attr
                if T not in pre_types and T != "feasibility":
                    continue
                lookup = lookup or S._env(fn, None)
                var = n.targets[0].value.id
                cons = [m for m in ast.walk(fn) if isinstance(m, ast.Assign) and len(m.targets) == 1 and isinstance(m.targets[0], ast.Name)
                        and m.targets[0].id == var and m.lineno <= n.lineno and isinstance(m.value, ast.Call)]
                if not cons:
                    raise BrokenTie("sim/core.py:%d %s._control_type assigned but %s is not constructed in %s" % (n.lineno, var, var, q))
                call = max(cons, key=lambda m: m.lineno).value
                cexpr = call.args[0] if call.args else next((k.value for k in call.keywords if k.arg == "condition"), None)
                if cexpr is None:
                    raise BrokenTie("sim/core.py:%d control constructed without a condition argument" % n.lineno)
                top, leaf = cond_classes(cexpr, fn, lookup, n.lineno)
                if top is None:
                    continue
                if T == "feasibility":
                    feas_top |= top
                    feas_leaf |= leaf
                else:
                    presolve |= top
    # ---- consumers of the second component of a .check() result in sim/core.py
    consumers = []
    producers = {"check"}
    fns = _functions_of(ct)
    for q, fn, c in fns:   # one-level wrappers (see protocol_write_before_read)
        names = set(m.targets[0].id for m in ast.walk(fn) if isinstance(m, ast.Assign) and len(m.targets) == 1 and isinstance(m.targets[0], ast.Name)
                    and isinstance(m.value, ast.Call) and isinstance(m.value.func, ast.Attribute) and m.value.func.attr == "check")
        rets = [m for m in ast.walk(fn) if isinstance(m, ast.Return)]
        if names and rets and all(isinstance(r.value, ast.Name) and r.value.id in names for r in rets):
            producers.add(fn.name)
    checkers = {}
    for q, fn, c in fns:
        lists = {}
        for m in ast.walk(fn):
            if isinstance(m, ast.Assign) and len(m.targets) == 1 and isinstance(m.targets[0], ast.Name) and isinstance(m.value, ast.Call) \
                    and isinstance(m.value.func, ast.Attribute) and m.value.func.attr in producers and not m.value.args:
                lists[m.targets[0].id] = ast.unparse(m.value.func)
        if not lists or fn.name in producers:
            continue
        in_logger = set()
        for m in ast.walk(fn):
            if isinstance(m, ast.Call) and isinstance(m.func, ast.Attribute) and isinstance(m.func.value, ast.Name) and m.func.value.id == "logger":
                for x in ast.walk(m):
                    in_logger.add(id(x))
        for L in sorted(lists):
            second = set()   # names holding the second component
            uses = []
            for m in ast.walk(fn):
                tg = None
                if isinstance(m, (ast.For, ast.comprehension)) and isinstance(m.iter, ast.Name) and m.iter.id == L:
                    tg = m.target
                elif isinstance(m, ast.Assign) and isinstance(m.value, ast.Subscript) and isinstance(m.value.value, ast.Name) and m.value.value.id == L:
                    tg = m.targets[0]
                if tg is not None:
                    if isinstance(tg, ast.Tuple) and len(tg.elts) == 2 and isinstance(tg.elts[1], ast.Name):
                        second.add(tg.elts[1].id)
                    elif isinstance(tg, ast.Name):
                        second.add("<elem>" + tg.id)   # whole element: uses of name[1] below
                    else:
                        raise BrokenTie("sim/core.py:%s unpacks a .check() result in a way the translator cannot follow" % q)
            for m in ast.walk(fn):
                if id(m) in in_logger:
                    continue
                if isinstance(m, ast.Name) and isinstance(m.ctx, ast.Load) and m.id in second:
                    uses.append(m)
                if isinstance(m, ast.Subscript) and isinstance(m.slice, ast.Constant) and m.slice.value == 1:
                    v = m.value
                    if isinstance(v, ast.Subscript) and isinstance(v.value, ast.Name) and v.value.id == L:
                        uses.append(m)
                    if isinstance(v, ast.Name) and ("<elem>" + v.id) in second:
                        uses.append(m)
                if isinstance(m, ast.Lambda):   # L.sort(key=lambda i: i[1])
                    pass
            for m in ast.walk(fn):
                if isinstance(m, ast.Call) and isinstance(m.func, ast.Attribute) and m.func.attr == "sort" and isinstance(m.func.value, ast.Name) \
                        and m.func.value.id == L:
                    for k in m.keywords:
                        if k.arg == "key" and isinstance(k.value, ast.Lambda):
                            a = k.value.args.args[0].arg
                            for x in ast.walk(k.value.body):
                                if isinstance(x, ast.Subscript) and isinstance(x.value, ast.Name) and x.value.id == a and isinstance(x.slice, ast.Constant) \
                                        and x.slice.value == 1:
                                    uses.append(x)
            if uses:
                parents = {}
                for n2 in ast.walk(fn):
                    for ch2 in ast.iter_child_nodes(n2):
                        parents[id(ch2)] = n2
                asserts = []
                for u in uses:
                    p2 = parents.get(id(u))
                    while p2 is not None and not isinstance(p2, ast.stmt):
                        p2 = parents.get(id(p2))
                    asserts.append(isinstance(p2, ast.Assert) and ast.unparse(p2))
                how = asserts[0] if all(asserts) and len(set(asserts)) == 1 else L
                consumers.append(("%s.%s" % (c, fn.name) if c else fn.name, how))
                checkers[("%s.%s" % (c, fn.name) if c else fn.name, how)] = lists[L]
    # ---- readers of <cond>.backtrack / ._backtrack outside the property definitions
    readers = []
    for where, fn, kind in runtime_functions():
        if fn.name == "backtrack":
            continue
        for blk in [x for x in ast.walk(fn) if hasattr(x, "body") and isinstance(getattr(x, "body"), list)]:
            for body in (blk.body, getattr(blk, "orelse", []) or [], getattr(blk, "finalbody", []) or []):
                for i, st in enumerate(body):
                    if isinstance(st, (ast.FunctionDef, ast.ClassDef, ast.If, ast.For, ast.While, ast.With, ast.Try)):
                        heads = [st.test] if isinstance(st, (ast.If, ast.While)) else ([st.iter] if isinstance(st, ast.For) else [])
                    else:
                        heads = [st]
                    for h in heads:
                        for m in ast.walk(h):
                            if isinstance(m, ast.Attribute) and m.attr in ("backtrack", field) and isinstance(m.ctx, ast.Load):
                                obj = ast.unparse(m.value)
                                prev = body[i - 1] if i else None
                                ok = False
                                if isinstance(prev, (ast.Assign, ast.Expr)) and isinstance(prev.value, ast.Call) and isinstance(prev.value.func, ast.Attribute) \
                                        and prev.value.func.attr == "evaluate" and ast.unparse(prev.value.func.value) == obj:
                                    ok = True
                                readers.append((where.split(":", 1)[1], ok))
    return {"kinds": sorted(kinds.items()), "composite": sorted(composite), "presolve": sorted(presolve), "feasTop": sorted(feas_top),
            "feasLeaf": sorted(feas_leaf), "consumers": sorted(set(consumers)), "consumerCheckers": {"%s|%s" % k: v for k, v in checkers.items()},
            "readers": sorted(set(readers)), "preTypes": sorted(pre_types), "preNamed": sorted(pre_named)}


def _value_condition_dispatch(cls, bases):
    """ValueCondition.__new__: `if isinstance(source_obj, Tank) and source_attr in {...}: return object.__new__(TankLevelCondition)`"""
    for cname, node in cls.items():
        for st in node.body:
            if isinstance(st, ast.FunctionDef) and st.name == "__new__":
                ifs = [x for x in st.body if isinstance(x, ast.If)]
                if len(ifs) != 1:
                    raise BrokenTie("%s.__new__: expected one if/else" % cname)
                tst = ifs[0].test
                try:
                    a, b = tst.values
                    kls = a.args[1].id
                    attrs = set(e.value for e in b.comparators[0].elts)
                    target = ifs[0].body[0].value.args[0].id
                    other = ifs[0].orelse[0].value.args[0].id
                except Exception:
                    raise BrokenTie("%s.__new__: dispatch test not understood: %s" % (cname, ast.unparse(tst)))
                if other != cname or target not in cls:
                    raise BrokenTie("%s.__new__ returns unexpected classes" % cname)
                return {"base": cname, "cls": kls, "attrs": attrs, "target": target}
    return {"base": None, "cls": None, "attrs": set(), "target": None}


def inpfile_units_fact():
    """(bool, evidence): every write_inpfile(...) call of the EpanetSimulator closure passes `units=` AND that value cannot be None"""
    calls = []
    for where, fn in epanet_functions():
        for m in ast.walk(fn):
            if isinstance(m, ast.Call) and ((isinstance(m.func, ast.Name) and m.func.id == "write_inpfile") or
                                            (isinstance(m.func, ast.Attribute) and m.func.attr == "write_inpfile")):
                kw = {k.arg: k.value for k in m.keywords}
                calls.append((where, m.lineno, ast.unparse(kw["units"]) if "units" in kw else None))
    if not calls:
        raise BrokenTie("EpanetSimulator closure contains no write_inpfile call")
    kw_ok = all(u is not None for _, _, u in calls)
    wntr = vlib.import_wntr()
    w = wntr.network.WaterNetworkModel()
    try:
        w.options.hydraulic.inpfile_units = None
        none_ok = w.options.hydraulic.inpfile_units is None
    except Exception:
        none_ok = False
    loads = []
    for where, fn in epanet_functions():
        for m in ast.walk(fn):
            if isinstance(m, ast.Attribute) and m.attr == "_inpfile":
                loads.append("%s:%d %s" % (where, m.lineno, "store" if isinstance(m.ctx, ast.Store) else "load"))
    ev = ("write_inpfile calls in the EpanetSimulator closure: %s; keyword units= always given: %s; but options.hydraulic.inpfile_units accepts None "
          "(reflection): %s -- then write_inpfile passes None on and InpFile.write keeps the cached object's flow_units (`elif self.flow_units is not "
          "None`); mass_units is set once (`if self.mass_units is None`) and kept. Uses of wn._inpfile: %s"
          % (["%s:%d units=%s" % c for c in calls], kw_ok, none_ok, loads))
    return (kw_ok and not none_ok), ev


def rule_name_readers(wntr, inst, R):
    """(function, purpose) for every load of `.name` / `._name` on an object that is (or may only be) a rule / control, in the closures of both simulators"""
    S = WriteScanner(wntr, inst, R)
    out = set()
    for where, fn, kind in runtime_functions():
        lookup = S._env(fn, None)
        in_logger, in_str = set(), fn.name in ("__str__", "__repr__")
        for m in ast.walk(fn):
            if isinstance(m, ast.Call) and isinstance(m.func, ast.Attribute) and isinstance(m.func.value, ast.Name) and m.func.value.id == "logger":
                for x in ast.walk(m):
                    in_logger.add(id(x))
        for m in ast.walk(fn):
            if not (isinstance(m, ast.Attribute) and isinstance(m.ctx, ast.Load) and m.attr in ("name", "_name")):
                continue
            X = m.value
            is_ctl = False
            if isinstance(X, ast.Name):
                if X.id == "self":
                    is_ctl = kind == "control"
                else:
                    what = lookup(X.id, m.lineno)
                    is_ctl = (isinstance(what, list) and set(what) & set(CONTROL_CLASSES)) or (what is None and X.id in ("control", "rule", "all_control", "ctrl"))
            if not is_ctl:
                continue
            f = where.split(":", 1)[1]
            if fn.name == "name" or fn.name in CONTROL_DEF_METHODS:
                continue  # the property itself / definition-time methods
            if id(m) in in_logger or in_str:
                purpose = "logging/str"
            elif "_write_rules" in f or "from_if_then_else" in f:
                purpose = "inp-label"
            elif fn.name in ("to_dict",):
                purpose = "dict key"
            else:
                purpose = "other"
            out.add((f, purpose))
    return sorted(out)


# =================================================================================================== in-place mutation (round 5)

INPLACE_METHODS = MUTATORS | {"add", "discard", "setdefault", "popitem", "fill", "resize", "put", "itemset", "move_to_end"}


def _getter_aliases(cls, attr, R):
    """the property / plain attribute `attr` hands out the STORED container itself (True) or a copy / computed value (False)"""
    p_ = R._prop(cls, attr)
    if p_ is None:
        for k in cls.__mro__:
            if attr in k.__dict__ and inspect.isfunction(k.__dict__[attr]):
                return False   # a method call result
        return True            # plain instance attribute
    fn = _func_ast(p_.fget)
    rets = [m for m in ast.walk(fn) if isinstance(m, ast.Return) and m.value is not None]
    for r in rets:
        v = r.value
        if isinstance(v, ast.Attribute) or isinstance(v, ast.Subscript) or isinstance(v, ast.Name):
            return True    # return self._x / self._reg[key] / a local that may alias
    return False


def in_place_mutations(wntr, inst, R):
    """{slot: set(evidence)}: in-place mutators (method calls in INPLACE_METHODS, subscript stores / deletes, augmented assignments,
    `out=` arguments) in the run-time closure of both simulators and in the element methods it calls, applied to an expression rooted at
    a model object (loop variables over wn iterators, get_* results, wn / self._wn, `self` of element / control / condition / action
    methods, untyped roots by hasattr reflection) or to a local alias of such an expression whose last getter returns the stored
    container itself"""
    S = WriteScanner(wntr, inst, R)
    out = {}
    ALL = ELEMENT_CLASSES + CONTROL_CLASSES + ["Pattern", "Curve", "Source", "WaterNetworkModel"]
    extra = {"TimeSeries": wntr.network.elements.TimeSeries, "Demands": wntr.network.elements.Demands}
    ct = _parse("wntr/network/controls.py")
    cbases = _class_bases(ct)
    action_family = set(c for c in cbases if _derives(cbases, c, "BaseControlAction"))
    todo = ["BaseControlAction"]
    while todo:   # the bases of BaseControlAction (Subject) are part of every action object
        c = todo.pop()
        for b in cbases.get(c, []):
            if b and b not in action_family and b in cbases:
                action_family.add(b)
                todo.append(b)

    def add(c, f, w):
        out.setdefault((c, f), set()).add(w)

    def mutable_on_zoo(c, path):
        o = inst.get(c)
        try:
            for part in path:
                o = getattr(o, part)
        except Exception:
            return True
        import numpy as np
        return o is None or isinstance(o, (list, dict, set, np.ndarray)) or hasattr(o, "__setitem__") or type(o).__name__ in ("OrderedSet", "Demands")

    def slots_of(chain, lookup, kind, self_classes, line):
        """slots designated by a rooted chain [root, a1, ..., ak] (the container is what a_k holds), or [] when not model-rooted"""
        root, names = chain[0], chain[1:]
        if not names:
            return []
        res = []
        if root == "self":
            if kind == "internal":
                if len(names) >= 2 and ".".join(["self", names[0]]) in WN_NAMES:
                    names = names[1:]
                    for f in R._path(type(inst["WaterNetworkModel"]), names[:2], 0) if names else []:
                        res.append(("WaterNetworkModel", f))
                    return res
                names = names[1:]      # self.<holder>.<attr>: the holder may be a model object
                if not names:
                    return []
                root_classes = ALL
            elif kind == "element":
                root_classes = self_classes
            elif kind in ("control", "condition", "action"):
                pre = {"control": "", "condition": "_condition.", "action": None}[kind]
                for c in CONTROL_CLASSES:
                    if kind == "action":
                        res += [(c, "_then_actions." + names[0]), (c, "_else_actions." + names[0])]
                    else:
                        res.append((c, pre + names[0]))
                return res
            elif kind == "wn":
                root_classes = ["WaterNetworkModel"]
            else:
                return []
        else:
            what = lookup(root, line)
            if what == "fresh":
                return []
            if what == "wn" or root in WN_NAMES:
                root_classes = ["WaterNetworkModel"]
            elif isinstance(what, list):
                root_classes = what
            else:
                root_classes = ALL
        last = names[-1]
        if len(names) == 1:
            cands = [c for c in root_classes if c in inst and hasattr(inst[c], last)]
        else:
            cands = [c for c in ALL if c in inst and hasattr(inst[c], last)]   # the intermediate object's class: by reflection on the attribute name
        for c in cands:
            if not _getter_aliases(type(inst[c]), last, R) or not mutable_on_zoo(c, [last]):
                continue
            for f in R.getter_storage(type(inst[c]), last):
                res.append((c, f.split(".")[0] if len(names) == 1 else f))
        for nm, k in extra.items():
            if len(names) >= 2 and hasattr(k, last) and isinstance(getattr(k, last, None), property) and _getter_aliases(k, last, R):
                pass   # TimeSeries properties return scalars / names: nothing to mutate
        return res

    def aml_roots(rel):
        """names whose attributes are bound to aml containers in that module (`m.flow = aml.VarDict()`): the solver model, not the network"""
        def make():
            out_ = set()
            for m in ast.walk(_parse(rel)):
                if isinstance(m, ast.Assign) and isinstance(m.value, ast.Call) and isinstance(m.value.func, ast.Attribute) \
                        and isinstance(m.value.func.value, ast.Name) and m.value.func.value.id == "aml":
                    for t_ in m.targets:
                        if isinstance(t_, ast.Attribute) and isinstance(t_.value, ast.Name):
                            out_.add(t_.value.id)
            return out_
        return _memo(("aml_roots", rel), make)

    def scan(fn, where, kind, self_classes=None):
        rel = where.split(":", 1)[0]
        not_model = aml_roots("wntr/" + rel) if rel.startswith("sim/") else set()
        lookup0 = S._env(fn, None)
        lookup = lambda nm, line: ("fresh" if nm in not_model else lookup0(nm, line))
        aliases = {}   # local name -> (chain, line)
        for m in ast.walk(fn):
            if isinstance(m, ast.Assign) and len(m.targets) == 1 and isinstance(m.targets[0], ast.Name) and isinstance(m.value, (ast.Attribute, ast.Subscript)):
                ch = _chain(m.value)
                if ch and len(ch) >= 2:
                    aliases.setdefault(m.targets[0].id, []).append((ch, m.lineno))

        def designated(expr, line):
            ch = _chain(expr)
            if not ch:
                return []
            if len(ch) == 1:
                best = [a for a in aliases.get(ch[0], []) if a[1] <= line]
                if not best:
                    return []
                ch2, l2 = max(best, key=lambda a: a[1])
                return slots_of(ch2, lookup, kind, self_classes, l2)
            return slots_of(ch, lookup, kind, self_classes, line)

        for m in ast.walk(fn):
            hits, how = [], None
            if isinstance(m, ast.Call) and isinstance(m.func, ast.Attribute) and m.func.attr in INPLACE_METHODS:
                hits, how = designated(m.func.value, m.lineno), ".%s()" % m.func.attr
            elif isinstance(m, ast.Call):
                for k in m.keywords:
                    if k.arg == "out":
                        hits, how = designated(k.value, m.lineno), "out="
            if isinstance(m, ast.Subscript) and isinstance(m.ctx, (ast.Store, ast.Del)):
                hits, how = designated(m.value, m.lineno), "[...] ="
            if isinstance(m, ast.AugAssign) and isinstance(m.target, (ast.Subscript, ast.Name)):
                tgt = m.target.value if isinstance(m.target, ast.Subscript) else m.target
                if isinstance(m.target, ast.Subscript) or m.target.id in aliases:
                    hits, how = designated(tgt, m.lineno), "op="
            for (c, f) in hits:
                add(c, f, "%s:%d %s" % (where, m.lineno, how))

    for where, fn, kind in runtime_functions():
        k2 = kind
        if where.startswith("controls.py:"):
            cname = where.split(":", 1)[1].split(".")[0]
            if cname in action_family:
                k2 = "action"
            if fn.name in CONTROL_DEF_METHODS:
                continue
        scan(fn, where, k2)
    # element / container-class methods the simulators call (same name-based closure as sim_write_tables, step 4)
    called = set()
    for where, fn, kind in runtime_functions():
        for n in ast.walk(fn):
            if isinstance(n, ast.Attribute):
                called.add(n.attr)
    et, bt = _parse("wntr/network/elements.py"), _parse("wntr/network/base.py")
    bases = dict(_class_bases(et))
    bases.update(_class_bases(bt))
    skip = ("add_leak", "remove_leak", "add_outage", "remove_outage", "add_demand", "add_fire_fighting_demand", "remove_fire_fighting_demand")
    for tree, rel in ((et, "elements.py"), (bt, "base.py")):
        for q, n, c in _functions_of(tree):
            if c is None or n.name not in called or n.name.startswith("__") or n.name in skip:
                continue
            if any(isinstance(d, ast.Attribute) and d.attr == "setter" for d in n.decorator_list):
                continue
            conc = [k for k in ELEMENT_CLASSES if _derives(bases, k, c)] or ([c] if c in ("Pattern", "Curve", "Source") else [])
            if conc:
                scan(n, "%s:%s" % (rel, q), "element", conc)
    return out


def rule_name_facts():
    """(assigned value text, is it exactly the registry key under `name == ''`, does io.to_dict substitute the key for an empty name, evidence)"""
    ev = []
    vals, ok = [], True
    for where, fn in inp_writer_functions():
        for loop in ast.walk(fn):
            if not isinstance(loop, ast.For):
                continue
            for m in ast.walk(loop):
                if isinstance(m, ast.Assign) and any(isinstance(t, ast.Attribute) and t.attr == "_name" for t in m.targets):
                    tgt = [t for t in m.targets if isinstance(t, ast.Attribute) and t.attr == "_name"][0]
                    vals.append(ast.unparse(m.value))
                    good = False
                    it = loop.iter
                    keyvar = objvar = None
                    if isinstance(loop.target, ast.Tuple) and len(loop.target.elts) == 2 and all(isinstance(e, ast.Name) for e in loop.target.elts) \
                            and isinstance(it, ast.Call) and isinstance(it.func, ast.Attribute) and it.func.attr in ("controls", "items"):
                        keyvar, objvar = loop.target.elts[0].id, loop.target.elts[1].id
                    if keyvar and isinstance(m.value, ast.Name) and m.value.id == keyvar and isinstance(tgt.value, ast.Name) and tgt.value.id == objvar:
                        # guard: innermost enclosing `if <obj>.name == ''`
                        for g in ast.walk(loop):
                            if isinstance(g, ast.If) and any(x is m for x in g.body):
                                t_ = g.test
                                if (isinstance(t_, ast.Compare) and len(t_.ops) == 1 and isinstance(t_.ops[0], ast.Eq)
                                        and ast.unparse(t_.left) in (objvar + ".name", objvar + "._name")
                                        and isinstance(t_.comparators[0], ast.Constant) and t_.comparators[0].value == ""):
                                    good = True
                    ok = ok and good
                    ev.append("%s:%d `%s` in `for %s in %s`%s" % (where, m.lineno, ast.unparse(m), ast.unparse(loop.target), ast.unparse(loop.iter)[:40],
                                                                  "" if good else " -- NOT the plain registry key under `name == ''`"))
    if not vals:
        return "", True, None, ["the INP writer closure no longer assigns ._name"]
    # io.to_dict: `for k, c in wn._controls.items(): cc = c.to_dict(); if "name" in cc.keys() and not cc["name"]: cc["name"] = k`
    t = _parse("wntr/network/io.py")
    f = [n for q, n, c in _functions_of(t) if q == "to_dict"]
    sub = False
    if f:
        src = _read_src("wntr/network/io.py").splitlines()
        for loop in ast.walk(f[0]):
            if isinstance(loop, ast.For) and isinstance(loop.target, ast.Tuple) and len(loop.target.elts) == 2 \
                    and isinstance(loop.iter, ast.Call) and isinstance(loop.iter.func, ast.Attribute) and loop.iter.func.attr == "items" \
                    and "_controls" in ast.unparse(loop.iter.func.value):
                k = loop.target.elts[0].id
                for g in ast.walk(loop):
                    if isinstance(g, ast.If):
                        nots = [x for x in ast.walk(g.test) if isinstance(x, ast.UnaryOp) and isinstance(x.op, ast.Not) and isinstance(x.operand, ast.Subscript)
                                and isinstance(x.operand.slice, ast.Constant) and x.operand.slice.value == "name"]
                        sets = [x for x in g.body if isinstance(x, ast.Assign) and isinstance(x.targets[0], ast.Subscript)
                                and isinstance(x.targets[0].slice, ast.Constant) and x.targets[0].slice.value == "name"
                                and isinstance(x.value, ast.Name) and x.value.id == k]
                        if nots and sets:
                            sub = True
                            ev.append("network/io.py:%d `%s` / `%s`" % (g.lineno, src[g.lineno - 1].strip(), src[sets[0].lineno - 1].strip()))
    return " | ".join(sorted(set(vals))), ok, sub, ev


# =================================================================================================== control registration order (round 6)


def control_registration_facts():
    """(text of the iterable _get_control_managers loops over for the MODEL's controls, registered in insertion order?, generated sources in
    call order, evidence).  In insertion order = the loop iterates `self._wn.controls()` (or `.items()` of the control registry) directly --
    no sorted / reversed / set / dict re-keying / list comprehension --, calls categorize_control(<loop variable>) as a direct statement of the
    loop body, WaterNetworkModel.controls() itself yields straight from `self._controls.items()`, and ControlChecker.register_control appends
    to an ordered container."""
    ct = _parse("wntr/sim/core.py")
    fn = [n for q, n, c in _functions_of(ct) if q == "WNTRSimulator._get_control_managers"]
    if not fn:
        raise BrokenTie("sim/core.py has no WNTRSimulator._get_control_managers")
    fn = fn[0]
    loops = [st for st in fn.body if isinstance(st, ast.For) and any(isinstance(m, ast.Call) and isinstance(m.func, ast.Name)
                                                                     and m.func.id == "categorize_control" for m in ast.walk(st))]
    if not loops:
        raise BrokenTie("_get_control_managers: no loop calling categorize_control at the top level")
    model_loops, generated, ev = [], [], []
    ok = True
    for lp in loops:
        src = ast.unparse(lp.iter)
        tg = lp.target
        var = tg.elts[-1].id if isinstance(tg, ast.Tuple) and isinstance(tg.elts[-1], ast.Name) else (tg.id if isinstance(tg, ast.Name) else None)
        direct = [st for st in lp.body if isinstance(st, ast.Expr) and isinstance(st.value, ast.Call) and isinstance(st.value.func, ast.Name)
                  and st.value.func.id == "categorize_control" and len(st.value.args) == 1 and isinstance(st.value.args[0], ast.Name)
                  and st.value.args[0].id == var]
        plain_call = isinstance(lp.iter, ast.Call) and isinstance(lp.iter.func, ast.Attribute) and not lp.iter.args and not lp.iter.keywords
        is_model = isinstance(lp.iter, ast.Call) and any(isinstance(m, ast.Attribute) and m.attr in ("_wn", "wn") for m in ast.walk(lp.iter)) \
            or any(isinstance(m, ast.Attribute) and m.attr in ("_wn", "wn") for m in ast.walk(lp.iter))
        if is_model:
            model_loops.append(src)
            good = bool(direct) and plain_call and lp.iter.func.attr in ("controls", "items") and \
                ast.unparse(lp.iter.func.value) in ("self._wn", "self._wn._controls", "self.wn")
            ok = ok and good
            ev.append("core.py:%d `for %s in %s`%s" % (lp.lineno, ast.unparse(tg), src, "" if good else " -- NOT a direct iteration of the model's control registry"))
        else:
            good = bool(direct) and plain_call and isinstance(lp.iter.func.value, ast.Name) and lp.iter.func.value.id == "self"
            ok = ok and good
            generated.append(lp.iter.func.attr if plain_call else src)
    if len(model_loops) != 1:
        ok = False
        ev.append("expected exactly one loop over the model's controls, found %s" % model_loops)
    # WaterNetworkModel.controls(): `for k, c in self._controls.items(): yield k, c`
    mt = _parse("wntr/network/model.py")
    cf = [n for q, n, c in _functions_of(mt) if q == "WaterNetworkModel.controls"]
    good = False
    if cf:
        body = [st for st in cf[0].body if not (isinstance(st, ast.Expr) and isinstance(st.value, ast.Constant))]
        if len(body) == 1 and isinstance(body[0], ast.For) and ast.unparse(body[0].iter) == "self._controls.items()" and len(body[0].body) == 1 \
                and isinstance(body[0].body[0], ast.Expr) and isinstance(body[0].body[0].value, ast.Yield) \
                and ast.unparse(body[0].body[0].value.value).strip("()") == ast.unparse(body[0].target).strip("()"):
            good = True
        ev.append("model.py:%d WaterNetworkModel.controls: `%s`%s" % (cf[0].lineno, ast.unparse(body[0]).split("\n")[0] if body else "", "" if good else " -- not a plain pass-through"))
    ok = ok and good
    # ControlChecker: OrderedSet + add
    kt = _parse("wntr/network/controls.py")
    init = [n for q, n, c in _functions_of(kt) if q == "ControlChecker.__init__"]
    reg = [n for q, n, c in _functions_of(kt) if q == "ControlChecker.register_control"]
    good = bool(init and reg) and any(isinstance(m, ast.Assign) and ast.unparse(m.targets[0]) == "self._controls" and ast.unparse(m.value) == "OrderedSet()"
                                      for m in ast.walk(init[0])) and any(isinstance(m, ast.Call) and ast.unparse(m.func) == "self._controls.add" for m in ast.walk(reg[0]))
    ev.append("controls.py ControlChecker keeps its controls in an OrderedSet filled by register_control: %s" % good)
    ok = ok and good
    return (model_loops[0] if model_loops else ""), bool(ok), generated, ev


# =================================================================================================== Lean output


def _ls(s):
    return json.dumps(s, ensure_ascii=False)


def _lean_list(name, doc, slots):
    out = ["/-- %s -/" % doc, "def %s : List Slot := [" % name]
    items = sorted(set(slots))
    for i, (c, f) in enumerate(items):
        out.append("  ⟨%s, %s⟩%s" % (_ls(c), _ls(f), "," if i < len(items) - 1 else ""))
    out.append("]")
    return out


def gen_lean(tabs):
    out = ["-- GENERATED by harness/props/c11.py from /repo (ast + reflection). Do not edit.",
           "import WntrModel.Model.Frame", "namespace Wntr.Frame.Gen", "open Wntr.Frame"]
    for k in ("notes", "dropped"):
        for line in tabs[k]:
            out.append("-- " + line.replace("\n", " ")[:220])
    out += _lean_list("writtenByActions",
                      "slots a ControlAction can write when its attribute is one the simulators accept (status, setting, leak_status → the "
                      "private field that run_control_action really assigns; base_speed → through the property setter) and slots an "
                      "_InternalControlAction writes (internal attributes used by the simulator-generated controls in wntr/sim/core.py)",
                      tabs["writtenByActions"])
    out += _lean_list("writtenBySim",
                      "slots assigned by the code paths of BOTH simulators (WNTRSimulator: core.py time loop, isolation, "
                      "hydraulics.store_results_in_network, tank head updates, control / condition bookkeeping; EpanetSimulator: epanet.py, "
                      "write_inpfile and the InpFile.write closure -- listed separately as writtenByEpanet), other than through control actions",
                      tabs["writtenBySim"])
    out.append("def written : List Slot := writtenByActions ++ writtenBySim")
    out += _lean_list("toDictReads", "slots to_dict reads", tabs["toDictReads"])
    out += _lean_list("resetAssigns", "slots reset_initial_values assigns (incl. what control._reset() assigns, class \"Control\"/\"Rule\"...)",
                      tabs["resetAssigns"])
    ev = "; ".join("%s.%s: %s" % (c, f, w) for (c, f), w in sorted(tabs["runInitialisesWhy"].items())) or "none qualifies in the current source"
    out += _lean_list("runInitialises",
                      "written slots that a run only ever writes before reading within the same run (pure outputs), with the evidence; "
                      "may be empty. Evidence: " + ev.replace("-/", "- /"), tabs["runInitialises"])
    for line in tabs["nrbwEvidence"]:
        out.append("-- " + line.replace("\n", " ").replace("-/", "- /")[:600])
    out += _lean_list("notReadBeforeWrite",
                      "written slots for which the translator shows by ast that no run-time code path reads the slot's value before assigning "
                      "it, or reads it at all (per slot the evidence is in the comment lines above)", tabs["notReadBeforeWrite"])
    out += _lean_list("writtenByEpanet",
                      "slots EpanetSimulator.run_sim (and what it calls on the SAME wn: write_inpfile → InpFile.write → _write_*) can assign on wn objects",
                      tabs["writtenByEpanet"])
    wset = set(tabs["writtenByActions"]) | set(tabs["writtenBySim"])
    for sl in tabs["inpWriterReads"]:
        if sl in wset:
            out.append(("-- inpWriterReads ∩ written: %s.%s read at %s" % (sl[0], sl[1], ", ".join(tabs["where"]["inpReads"]["%s.%s" % sl][:4])))[:400])
    out += _lean_list("inpWriterReads",
                      "storage fields of network objects that the INP writer (wntr/epanet/io.py InpFile.write and every _write_* it calls; "
                      "EpanetSimulator = write INP + run EPANET) READS", tabs["inpWriterReads"])
    bf = tabs["backtrack"]

    def strs(name, doc, items):
        return ["/-- %s -/" % doc, "def %s : List String := [%s]" % (name, ", ".join(_ls(x) for x in items))]

    out += ["/-- per ControlCondition class with its own evaluate(): how evaluate() treats self._backtrack -/",
            "inductive BtKind | assignsAllPaths | neverAssigns | assignsSomePaths | composite", "  deriving DecidableEq, Repr",
            "def backtrackKinds : List (String × BtKind) := ["]
    out += ["  (%s, .%s)%s" % (_ls(c), k, "," if i < len(bf["kinds"]) - 1 else "") for i, (c, k) in enumerate(bf["kinds"])]
    out.append("]")
    out += strs("backtrackComposite", "classes whose `backtrack` property is overridden and reads the children's backtrack", bf["composite"])
    out.append("-- presolve checker registers _ControlType %s (sim/core.py categorize_control); Control.__init__ gives those types to isinstance(condition, %s)"
               % (bf["preTypes"], bf["preNamed"]))
    out += strs("presolveConditionClasses",
                "condition classes for which Control.__init__ (and any other assignment of _control_type in controls.py / sim/core.py) can produce a "
                "control that is registered with the PRESOLVE checker (subclasses included; ValueCondition(tank, 'head'|'level'|'pressure') is a "
                "TankLevelCondition by ValueCondition.__new__)", bf["presolve"])
    out += strs("feasibilityConditionClasses", "class of the condition every `_control_type = _ControlType.feasibility` control in sim/core.py is built with",
                bf["feasTop"])
    out += strs("feasibilityLeafClasses", "leaf condition classes below those (children of the composite)", bf["feasLeaf"])
    for k, v in sorted(bf["consumerCheckers"].items()):
        out.append("-- backtrackConsumers: %s takes its list from %s()" % (k.replace("|", " / "), v))
    out += ["/-- every place where the second component of a ControlChecker.check() result (the backtrack) is USED (not merely unpacked; "
            "logger calls excluded): function name + how -/",
            "def backtrackConsumers : List (String × String) := [%s]" % ", ".join("(%s, %s)" % (_ls(a), _ls(b)) for a, b in bf["consumers"]),
            "/-- the readers of `<cond>.backtrack` / `_backtrack` outside the `backtrack` property definitions themselves: (function, True iff the "
            "read is immediately preceded in the same block by `<same object>.evaluate()`) -/",
            "def backtrackReaders : List (String × Bool) := [%s]" % ", ".join("(%s, %s)" % (_ls(a), "true" if b else "false") for a, b in bf["readers"])]
    out.append("-- inpfileUnitsAlwaysPassed: " + tabs["inpfileUnitsEvidence"].replace("\n", " ")[:900])
    out += ["/-- EpanetSimulator always hands InpFile.write an explicit, non-None `units`, so the cached wn._inpfile's flow_units are overwritten before use -/",
            "def inpfileUnitsAlwaysPassed : Bool := %s" % ("true" if tabs["inpfileUnitsAlwaysPassed"] else "false"),
            "/-- loads of `.name` / `._name` on rule / control objects in the run-time closures: (function, purpose) -/",
            "def ruleNameReaders : List (String × String) := [%s]" % ", ".join("(%s, %s)" % (_ls(a), _ls(b)) for a, b in tabs["ruleNameReaders"])]
    for sl in tabs["mutatedInPlace"]:
        out.append(("-- mutatedInPlace %s.%s: %s" % (sl[0], sl[1], "; ".join(tabs["mutatedInPlaceWhy"]["%s.%s" % sl][:4])))[:500])
    out += _lean_list("mutatedInPlace",
                      "storage slots holding a container that the run-time closure of either simulator mutates IN PLACE (method calls like "
                      ".sort/.append/.add, subscript stores, augmented assignments, out=) -- not visible to the assignment tables", tabs["mutatedInPlace"])
    for line in tabs["ruleNameEvidence"]:
        out.append(("-- ruleName: " + line)[:400])
    out += ["/-- normalised source text of what the INP writer assigns to a rule's ._name -/",
            "def ruleNameAssignedValue : String := %s" % _ls(tabs["ruleNameAssignedValue"]),
            "/-- that value is exactly the loop variable bound to the registry KEY, untransformed, and the assignment is guarded by `name == ''` -/",
            "def ruleNameAssignedIsRegistryKey : Bool := %s" % ("true" if tabs["ruleNameAssignedIsRegistryKey"] else "false"),
            "/-- wntr/network/io.py to_dict replaces an empty control name by the registry key -/",
            "def toDictSubstitutesKeyForEmptyName : Bool := %s" % ("true" if tabs["toDictSubstitutesKeyForEmptyName"] else "false")]
    for line in tabs["controlRegistrationEvidence"]:
        out.append(("-- controlRegistration: " + line)[:400])
    out += ["/-- the iterable WNTRSimulator._get_control_managers loops over when it registers the MODEL's controls -/",
            "def controlRegistrationOrder : String := %s" % _ls(tabs["controlRegistrationOrder"]),
            "/-- that loop iterates the control registry directly (no sorted / reversed / re-keying), categorize_control is called in loop order, "
            "wn.controls() passes the registry order through and ControlChecker keeps registration order -/",
            "def controlsRegisteredInInsertionOrder : Bool := %s" % ("true" if tabs["controlsRegisteredInInsertionOrder"] else "false"),
            "/-- the simulator-generated control sources, in the order _get_control_managers registers them after the model's controls -/",
            "def generatedControlSources : List String := [%s]" % ", ".join(_ls(x) for x in tabs["generatedControlSources"])]
    out.append("end Wntr.Frame.Gen")
    return "\n".join(out) + "\n"


def build_tables():
    wntr = vlib.import_wntr()
    wn, inst = build_zoo(wntr)
    R = Resolver(inst)
    act, notes, mapping, attr_names, internal = control_action_tables(wntr, inst, R)
    S = sim_write_tables(wntr, inst, R)
    reads = to_dict_reads(wntr, wn, inst, R)
    RS = reset_assigns(wntr, wn, inst, R)
    written = set(act) | set(S.slots)
    ri, riwhy = run_initialises(written)
    E = epanet_write_tables(wntr, inst, R)
    nrbw, nrbw_ev, decisions, vocab = not_read_before_write(wntr, inst, R, written, list(attr_names) + list(mapping.values()) + list(internal))
    not_reset = [x for x in sorted(written) if x not in set(RS.slots)]
    IR = inp_writer_reads(wntr, inst, R)
    BF = backtrack_facts(wntr, inst, R)
    MIP = in_place_mutations(wntr, inst, R)
    cro_text, cro_ok, cro_gen, cro_ev = control_registration_facts()
    rn_val, rn_key, rn_sub, rn_ev = rule_name_facts()
    iu, iu_ev = inpfile_units_fact()
    rnr = rule_name_readers(wntr, inst, R)
    nrbw_ev = (["notReadBeforeWrite: computed attribute names (getattr(obj, <computed>) in conditions / change tracker) are taken from %s" % vocab]
               + nrbw_ev
               + ["notReadBeforeWrite: OUT %s.%s -- %s" % (x[0], x[1], decisions[x][1]) for x in not_reset if decisions.get(x, ("in",))[0] == "out"])
    tabs = {
        "writtenByActions": sorted(act), "writtenBySim": sorted(S.slots), "toDictReads": sorted(reads),
        "resetAssigns": sorted(RS.slots), "runInitialises": ri, "runInitialisesWhy": riwhy,
        "notReadBeforeWrite": nrbw, "nrbwEvidence": nrbw_ev, "writtenByEpanet": sorted(E.slots),
        "nrbwDecisions": {"%s.%s" % k: list(v) for k, v in decisions.items()},
        "inpWriterReads": sorted(IR),
        "mutatedInPlace": sorted(MIP), "mutatedInPlaceWhy": {"%s.%s" % k: sorted(v) for k, v in MIP.items()},
        "ruleNameAssignedValue": rn_val, "ruleNameAssignedIsRegistryKey": bool(rn_key), "toDictSubstitutesKeyForEmptyName": bool(rn_sub),
        "ruleNameEvidence": rn_ev,
        "controlRegistrationOrder": cro_text, "controlsRegisteredInInsertionOrder": cro_ok, "generatedControlSources": cro_gen,
        "controlRegistrationEvidence": cro_ev,
        "backtrack": BF, "inpfileUnitsAlwaysPassed": iu, "inpfileUnitsEvidence": iu_ev, "ruleNameReaders": rnr,
        "notes": ["ControlAction attribute -> private attribute: %s; attribute names in use: %s; internal attributes: %s"
                  % (json.dumps(mapping, sort_keys=True), attr_names, internal)] + notes
                 + ["assignments to `self.<x>` of simulator-internal objects not listed: %d" % S.nself],
        "dropped": ["dropped (not a slot): %s -- %s" % (k, v) for k, v in sorted(S.dropped.items())],
        "where": {"inpReads": {("%s.%s" % k): sorted(v) for k, v in IR.items()},
                  "written": {("%s.%s" % k): sorted(v) for k, v in list(act.items()) + list(S.slots.items())},
                  "reset": {("%s.%s" % k): sorted(v) for k, v in RS.slots.items()},
                  "reads": {("%s.%s" % k): sorted(v) for k, v in reads.items()}},
        "mapping": mapping,
    }
    return tabs


def overlap(w, r):
    r = set(r)
    return [x for x in w if x in r]


def missing(w, a):
    a = set(a)
    return [x for x in w if x not in a]


# =================================================================================================== generator (specs are JSON-able)

import gen_networks as G  # noqa: E402  (harness/ is on sys.path)


def gen_controls(rng, net, p_speed=0.12):
    """controls / rules as plain dictionaries, built relative to a gen_networks spec"""
    o = net["options"]
    hyd, dur = o["hydraulic_timestep"], o["duration"]
    links = net["links"]
    pipes = [l for l in links if l["type"] == "pipe"]
    pumps = [l for l in links if l["type"] == "pump"]
    valves = [l for l in links if l["type"] == "valve"]
    tanks = [n for n in net["nodes"] if n["type"] == "tank"]
    juncs = [n for n in net["nodes"] if n["type"] == "junction"]
    nsteps = max(1, dur // hyd)

    def a_time():
        k = rng.randint(0, nsteps)
        t = k * hyd
        if rng.random() < 0.25:
            t += rng.choice([hyd // 2, hyd // 3, 60])  # off the grid: the simulator backtracks
        return int(min(t, dur))

    def action(prefer=None):
        pool = []
        if pipes:
            pool += ["pipe"] * 3
        if pumps:
            pool += ["pump"] * 3
        if valves:
            pool += ["valve"] * 4
        kind = prefer if prefer in pool else rng.choice(pool)
        if kind == "pipe":
            l = rng.choice(pipes)
            return {"link": l["name"], "attr": "status", "value": rng.choice([0, 0, 1])}
        if kind == "pump":
            l = rng.choice(pumps)
            if rng.random() < p_speed:
                return {"link": l["name"], "attr": "base_speed", "value": rng.choice([1.0, 0.7, 0.5, 1.2])}
            return {"link": l["name"], "attr": "status", "value": rng.choice([0, 1])}
        l = rng.choice(valves)
        if rng.random() < 0.5:
            return {"link": l["name"], "attr": "status", "value": rng.choice([0, 0, 1, 2])}
        vt = l["valve_type"]
        if vt in ("PRV", "PSV"):
            v = round(max(2.0, l["setting"] * rng.uniform(0.5, 1.3)), 2)
        elif vt == "FCV":
            v = round(l["setting"] * rng.uniform(0.4, 1.5), 5)
        else:
            v = round(rng.uniform(0.5, 60.0), 2)
        return {"link": l["name"], "attr": "setting", "value": v}

    def leaf():
        r = rng.random()
        if tanks and r < 0.4:
            t = rng.choice(tanks)
            lo, hi = t["min_level"], t["max_level"]
            thr = round(t["init_level"] + rng.uniform(-1.0, 1.0), 2)
            thr = min(max(thr, lo + 0.1), hi - 0.1)
            return {"t": "value", "node": t["name"], "attr": rng.choice(["level", "level", "head"]) , "op": rng.choice([">", "<", ">=", "<="]),
                    "thr": thr if True else None, "elev": t["elevation"]}
        if juncs and r < 0.65:
            j = rng.choice(juncs)
            return {"t": "value", "node": j["name"], "attr": "pressure", "op": rng.choice([">", "<"]), "thr": round(rng.uniform(5, 70), 1)}
        if r < 0.75 and links:
            l = rng.choice(links)
            return {"t": "value", "link": l["name"], "attr": "flow", "op": rng.choice([">", "<"]), "thr": round(rng.uniform(-0.002, 0.01), 4)}
        return {"t": "simtime", "op": rng.choice([">=", ">=", ">", "<", "="]), "thr": a_time()}

    out = []
    if not (pipes or pumps or valves):
        return out
    n = rng.choice([0, 1, 1, 2, 2, 3, 4])
    for i in range(n):
        r = rng.random()
        if r < 0.4:
            out.append({"kind": "time", "time": a_time(), "action": action()})
        elif r < 0.65 and (tanks or juncs):
            c = leaf()
            while c["t"] != "value" or "node" not in c:
                c = leaf()
            c["op"] = c["op"][0]  # simple controls know ABOVE / BELOW only
            out.append({"kind": "cond", "cond": c, "action": action()})
        else:
            c = leaf()
            if rng.random() < 0.35:
                c = {"t": rng.choice(["and", "or"]), "a": c, "b": leaf()}
            out.append({"kind": "rule", "cond": c, "then": [action() for _ in range(rng.choice([1, 1, 2]))],
                        "else": ([action()] if rng.random() < 0.4 else []), "priority": rng.choice([1, 2, 3, 3, 4, 5]),
                        "name": ("" if rng.random() < 0.3 else "rule%d" % i)})
    for c in out:
        if c["kind"] == "cond" and c["cond"].get("attr") == "head":
            c["cond"]["thr"] = round(c["cond"]["thr"] + c["cond"]["elev"], 2)
        if c["kind"] == "rule":
            for leafc in _leaves(c["cond"]):
                if leafc.get("attr") == "head":
                    leafc["thr"] = round(leafc["thr"] + leafc["elev"], 2)
    return out


def _leaves(c):
    if c["t"] in ("and", "or"):
        return _leaves(c["a"]) + _leaves(c["b"])
    return [c]


OPTION_KINDS = ["report>hyd-not-multiple", "report<hyd", "report-ALL", "report-multiple", "pattern!=hyd", "rule-step", "plain"]


def vary_options(rng, net, kind=None):
    """option sets the simulators have special code for (WNTRSimulator._setup_sim_options adjusts report / hydraulic steps
    INTERNALLY; the definition must not notice): returns (kind, overrides) -- overrides are dotted option names applied by
    build_model after the network is built. Quality / energy / graphics options get non-default values too: a run must
    leave them alone."""
    o = net["options"]
    hyd = o["hydraulic_timestep"]
    kind = kind or rng.choice(OPTION_KINDS)
    over = {}
    if kind == "report>hyd-not-multiple":
        o["report_timestep"] = hyd + rng.choice([hyd // 2, hyd // 3, hyd // 4])      # e.g. 3600 / 5400
    elif kind == "report<hyd":
        o["report_timestep"] = rng.choice([hyd // 2, hyd // 3])
    elif kind == "report-ALL":
        o["report_timestep"] = "ALL"
    elif kind == "report-multiple":
        o["report_timestep"] = hyd * rng.choice([2, 3])
    elif kind == "pattern!=hyd":
        o["pattern_timestep"] = rng.choice([hyd // 2, hyd + hyd // 2, 2 * hyd, hyd // 3])
    elif kind == "rule-step":
        over["time.rule_timestep"] = rng.choice([hyd // 10, hyd // 4, hyd // 3, hyd, 2 * hyd, hyd + 60])
    if rng.random() < 0.5:
        over["time.quality_timestep"] = rng.choice([60, 300, hyd // 4])
        over["energy.global_price"] = rng.choice([0.0, 0.12])
        over["energy.global_efficiency"] = rng.choice([75.0, 62.5])
        over["quality.tolerance"] = rng.choice([0.01, 0.02])
        over["hydraulic.specific_gravity"] = 1.0
        over["report.status"] = rng.choice(["NO", "YES"])
    return kind, over


def gen_spec(rng, quick=True, wide=False, p_speed=0.12):
    n = rng.randint(4, 10) if not wide else rng.randint(3, 16)
    net = G.random_network(rng, quick=True, force={"n_nodes": n})
    net["options"]["trials"] = 40
    controls = gen_controls(rng, net, p_speed=p_speed)
    juncs = [nd["name"] for nd in net["nodes"] if nd["type"] == "junction"]
    if juncs and rng.random() < 0.2:
        # a dead end behind a pipe that starts CLOSED (isolated junction), reopened by a control in half of the cases
        pat = next(iter(net["patterns"]), None)
        net["nodes"].append({"name": "JX", "type": "junction", "elevation": 2.0,
                             "demands": [{"base": 0.0005, "pattern": pat, "category": None}]})
        net["links"].append({"name": "PX", "type": "pipe", "start": rng.choice(juncs), "end": "JX", "length": 120.0, "diameter": 0.15,
                             "roughness": 100.0, "minor_loss": 0.0, "check_valve": False, "initial_status": "CLOSED"})
        if rng.random() < 0.5:
            hyd = net["options"]["hydraulic_timestep"]
            controls.append({"kind": "time", "time": hyd * rng.choice([1, 2]), "action": {"link": "PX", "attr": "status", "value": 1}})
    kind, over = vary_options(rng, net)
    sp = {"net": net, "controls": controls, "opt_kind": kind, "opt_overrides": over, "edits": gen_edits(rng, net)}
    if rng.random() < 0.3:
        add_conflict(rng, sp)
    vc = {}
    for nd in net["nodes"]:
        if nd["type"] == "tank" and rng.random() < 0.35:
            vc[nd["name"]] = volume_curve_rows(rng, nd)
    if vc:
        sp["vol_curves"] = vc
    return sp


CONFLICT_KEYS = [("zone_open", "night_close"), ("valve_b_day", "valve_a_night"), ("control 2", "control 10"), ("summer", "autumn")]


def add_conflict(rng, spec, where=None):
    """two equal-priority controls on ONE attribute of ONE link that fire at the SAME instant with DIFFERENT values (the later one wins),
    registered under names whose alphabetical order is the reverse of the order of addition"""
    net = spec["net"]
    hyd = net["options"]["hydraulic_timestep"]
    t = hyd * rng.choice([1, 1, 2])
    if t > net["options"]["duration"]:
        t = hyd
    pipes = [l for l in net["links"] if l["type"] == "pipe"]
    valves = [l for l in net["links"] if l["type"] == "valve" and l["valve_type"] in ("PRV", "PSV", "FCV", "TCV")]
    k1, k2 = rng.choice(CONFLICT_KEYS)
    used = set(c.get("key") for c in spec["controls"])
    if k1 in used or k2 in used:
        return
    if valves and (where == "valve" or (where is None and rng.random() < 0.4)):
        l = rng.choice(valves)
        a, b = round(l["setting"] * 0.6, 5), round(l["setting"] * 1.3, 5)
        acts = [{"link": l["name"], "attr": "setting", "value": a}, {"link": l["name"], "attr": "setting", "value": b}]
    elif pipes:
        l = rng.choice(pipes)
        acts = [{"link": l["name"], "attr": "status", "value": 1}, {"link": l["name"], "attr": "status", "value": 0}]
        if rng.random() < 0.5:
            acts.reverse()
    else:
        return
    spec["controls"] += [{"kind": "time", "time": t, "action": acts[0], "key": k1}, {"kind": "time", "time": t, "action": acts[1], "key": k2}]
    spec["conflict"] = True


def volume_curve_rows(rng, tank, disorder=None):
    """a volume curve equal to the cylindrical tank (so hydraulics do not change), typed in with rows out of order / duplicated in
    the part ABOVE max_level (never reached): [[level, volume], ...]"""
    area = math.pi / 4.0 * tank["diameter"] ** 2
    top = tank["max_level"]
    levels = [0.0, round(top / 3.0, 2), round(2 * top / 3.0, 2), top, top + 5.0, top + 10.0, top + 15.0]
    disorder = disorder or rng.choice(["swap-top", "swap-top", "duplicate-top", "sorted"])
    if disorder == "swap-top":
        levels[-1], levels[-2] = levels[-2], levels[-1]
    elif disorder == "duplicate-top":
        levels = levels[:-1] + [levels[-1], levels[-2]]
    return [[l, area * l] for l in levels]


def gen_edits(rng, net, force=None):
    """1-2 mild edits of the DEFINITION through public setters, applied between two runs of the same model object (edit cycle):
    [{"what": "<Class>.<attribute>", "name": element / curve / pattern name, "f": factor | "d": delta, ...}]"""
    cands = []
    for l in net["links"]:
        if l["type"] == "pump" and l.get("pump_type") == "HEAD":
            cands += [{"what": "HeadPump.curve", "name": l["curve"], "hf": round(rng.uniform(0.8, 1.15), 3), "qf": round(rng.uniform(0.85, 1.2), 3)}] * 4
        elif l["type"] == "pump":
            cands.append({"what": "PowerPump.power", "name": l["name"], "f": round(rng.uniform(0.7, 1.3), 3)})
        elif l["type"] == "pipe":
            cands.append({"what": "Pipe.diameter", "name": l["name"], "f": rng.choice([0.8, 1.25])})
            cands.append({"what": "Pipe.roughness", "name": l["name"], "f": rng.choice([0.8, 1.2])})
        elif l["type"] == "valve":
            cands.append({"what": "Valve.initial_setting", "name": l["name"], "f": round(rng.uniform(0.7, 1.3), 3)})
    for n in net["nodes"]:
        if n["type"] == "junction":
            cands.append({"what": "Junction.elevation", "name": n["name"], "d": round(rng.uniform(-2.0, 2.0), 2)})
            if n.get("demands"):
                cands.append({"what": "Junction.base_demand", "name": n["name"], "f": round(rng.uniform(0.6, 1.4), 3)})
        elif n["type"] == "tank":
            lo, hi = n["min_level"] + 0.2, n["max_level"] - 0.2
            cands.append({"what": "Tank.init_level", "name": n["name"], "v": round(min(max(n["init_level"] + rng.uniform(-1.0, 1.0), lo), hi), 2)})
    for pn in net["patterns"]:
        cands.append({"what": "Pattern.multipliers", "name": pn, "f": round(rng.uniform(0.7, 1.3), 3)})
    if not cands:
        return []
    out = []
    if force:
        out += [c for c in cands if c["what"] == force][:1]
    while len(out) < rng.choice([1, 2]) and len(out) < len(cands):
        c = rng.choice(cands)
        if not any(o["what"] == c["what"] and o["name"] == c["name"] for o in out):
            out.append(dict(c))
    return out


def apply_edit(wntr, wn, e):
    """one edit through the public API (setters)"""
    w, nm = e["what"], e["name"]
    if w == "HeadPump.curve":
        c = wn.get_curve(nm)
        c.points = [(q * e["qf"], h * e["hf"]) for (q, h) in c.points]
    elif w == "Pattern.multipliers":
        p_ = wn.get_pattern(nm)
        p_.multipliers = [m * e["f"] for m in p_.multipliers]
    elif w == "Pipe.diameter":
        wn.get_link(nm).diameter = wn.get_link(nm).diameter * e["f"]
    elif w == "Pipe.roughness":
        wn.get_link(nm).roughness = wn.get_link(nm).roughness * e["f"]
    elif w == "Valve.initial_setting":
        wn.get_link(nm).initial_setting = wn.get_link(nm).initial_setting * e["f"]
    elif w == "PowerPump.power":
        wn.get_link(nm).power = wn.get_link(nm).power * e["f"]
    elif w == "Junction.elevation":
        wn.get_node(nm).elevation = wn.get_node(nm).elevation + e["d"]
    elif w == "Junction.base_demand":
        ts = wn.get_node(nm).demand_timeseries_list[0]
        ts.base_value = ts.base_value * e["f"]
    elif w == "Tank.init_level":
        wn.get_node(nm).init_level = e["v"]
    else:
        raise ValueError(w)


def _small_net(hyd=3600, steps=4, valve=None, valve_status="ACTIVE", pump="POWER", pdd=False, tank=True):
    """a fixed, well-conditioned little network for the directed scenarios"""
    nodes = [{"name": "R0", "type": "reservoir", "head": 60.0, "head_pattern": None}]
    if tank:
        nodes.append({"name": "T1", "type": "tank", "elevation": 50.0, "init_level": 4.0, "min_level": 0.5, "max_level": 9.0, "diameter": 9.0})
    for i, (e, b) in enumerate([(5.0, 0.004), (8.0, 0.003), (3.0, 0.005), (6.0, 0.002)]):
        nodes.append({"name": "J%d" % i, "type": "junction", "elevation": e,
                      "demands": [{"base": b, "pattern": "pat0", "category": None}]})

    def pipe(nm, a, b, d=0.3, L=200.0, st="OPEN"):
        return {"name": nm, "type": "pipe", "start": a, "end": b, "length": L, "diameter": d, "roughness": 100.0, "minor_loss": 0.0,
                "check_valve": False, "initial_status": st}

    links = [pipe("P1", "R0", "J0"), pipe("P2", "J0", "J1"), pipe("P3", "J1", "J2", d=0.2), pipe("P4", "J2", "J3", d=0.2), pipe("P5", "J0", "J3", d=0.15)]
    curves = {}
    if tank:
        links.append(pipe("P6", "J1", "T1", d=0.25, L=100.0))
    if pump == "POWER":
        links.append({"name": "PW1", "type": "pump", "start": "R0", "end": "J0", "pump_type": "POWER", "power": 3000.0, "initial_status": "OPEN"})
    elif pump == "HEAD":
        curves["curve1"] = [(0.0, 30.0), (0.02, 24.0), (0.05, 8.0)]
        links.append({"name": "PU1", "type": "pump", "start": "R0", "end": "J0", "pump_type": "HEAD", "curve": "curve1", "initial_status": "OPEN"})
    if valve:
        setting = {"PRV": 30.0, "PSV": 40.0, "FCV": 0.002, "TCV": 20.0}[valve]
        links.append({"name": "V1", "type": "valve", "start": "J1", "end": "J3", "valve_type": valve, "diameter": 0.2, "minor_loss": 0.0,
                      "setting": setting, "initial_status": valve_status})
    opts = {"demand_model": "PDD" if pdd else "DD", "hydraulic_timestep": hyd, "pattern_timestep": 3600, "report_timestep": hyd,
            "pattern_start": 0, "pattern_interpolation": False, "demand_multiplier": 1.0, "duration": hyd * steps,
            "required_pressure": 20.0, "minimum_pressure": 0.0, "pressure_exponent": 0.5, "trials": 40}
    return {"nodes": nodes, "links": links, "patterns": {"pat0": [1.0, 1.3, 0.7, 1.1]}, "curves": curves, "options": opts,
            "hw_approx": "default", "features": {}}


def scenario_specs(rng):
    """directed histories (parameters still drawn from the rng): every feature class of the statement at least once per run"""
    out = []
    hyd = 3600
    # a speed control on a power pump (definition-level attribute reachable through ControlAction)
    net = _small_net(pump="POWER")
    out.append(("speed-power", {"net": net, "controls": [{"kind": "time", "time": hyd * rng.choice([1, 2]),
                                                         "action": {"link": "PW1", "attr": "base_speed", "value": rng.choice([0.7, 0.5])}}]}))
    # a valve closed / re-opened by controls, the last change in the final step (state left behind for the next run)
    vt = rng.choice(["PRV", "TCV", "FCV", "PSV"])
    net = _small_net(valve=vt, pump=rng.choice(["POWER", "HEAD"]), steps=3)
    ctr = [{"kind": "time", "time": hyd * 3, "action": {"link": "V1", "attr": "status", "value": 0}},
           {"kind": "time", "time": hyd * 1, "action": {"link": "V1", "attr": "setting", "value": {"PRV": 22.0, "PSV": 35.0, "FCV": 0.001, "TCV": 45.0}[vt]}},
           {"kind": "time", "time": hyd * 2, "action": {"link": "P5", "attr": "status", "value": 0}}]
    out.append(("valve-closed-at-end", {"net": net, "controls": ctr}))
    # leaks on a junction and the tank with start / end times, PDD, a tank-level control and a rule with ELSE
    net = _small_net(pdd=True, valve=None, pump="HEAD", steps=4)
    net["nodes"][1]["leak"] = {"area": 2e-4, "cd": 0.75, "start": hyd, "end": 3 * hyd}
    net["nodes"][3]["leak"] = {"area": 1e-4, "cd": 0.75, "start": 0, "end": None}
    ctr = [{"kind": "cond", "cond": {"t": "value", "node": "T1", "attr": "level", "op": ">", "thr": round(rng.uniform(4.02, 4.3), 2)},
            "action": {"link": "P6", "attr": "status", "value": 0}},
           {"kind": "rule", "cond": {"t": "and", "a": {"t": "simtime", "op": ">=", "thr": 2 * hyd},
                                     "b": {"t": "value", "node": "J2", "attr": "pressure", "op": ">", "thr": 5.0}},
            "then": [{"link": "P5", "attr": "status", "value": 0}], "else": [{"link": "P5", "attr": "status", "value": 1}],
            "priority": 3, "name": ""}]
    out.append(("leaks-pdd-rule", {"net": net, "controls": ctr}))
    # a valve whose initial status is not ACTIVE (the API-built model is run without a reset first)
    net = _small_net(valve=rng.choice(["TCV", "PRV"]), valve_status=rng.choice(["CLOSED", "OPEN"]), pump="POWER", steps=2)
    out.append(("valve-initial-status", {"net": net, "controls": []}))
    # pump switched by tank level, pipe closed from the start, rule on the pump
    net = _small_net(pump="HEAD", valve="TCV", steps=4)
    net["links"][4]["initial_status"] = "CLOSED"
    ctr = [{"kind": "cond", "cond": {"t": "value", "node": "T1", "attr": "level", "op": ">", "thr": round(rng.uniform(4.05, 4.5), 2)},
            "action": {"link": "PU1", "attr": "status", "value": 0}},
           {"kind": "cond", "cond": {"t": "value", "node": "T1", "attr": "level", "op": "<", "thr": 3.9},
            "action": {"link": "PU1", "attr": "status", "value": 1}},
           {"kind": "rule", "cond": {"t": "simtime", "op": ">=", "thr": 3 * hyd}, "then": [{"link": "V1", "attr": "setting", "value": 60.0}],
            "else": [], "priority": 2, "name": "late"}]
    out.append(("pump-tank-level", {"net": net, "controls": ctr}))
    # a dead-end junction behind a pipe that is CLOSED from the start and never reopened (isolated for the whole run), and one
    # that a control isolates for part of the run only
    for mode in ("permanent", "temporary"):
        net = _small_net(pump=rng.choice(["POWER", "HEAD"]), valve=None, steps=4)
        net["nodes"].append({"name": "J9", "type": "junction", "elevation": 4.0,
                             "demands": [{"base": 0.001, "pattern": "pat0", "category": None}]})
        net["links"].append({"name": "P9", "type": "pipe", "start": "J3", "end": "J9", "length": 150.0, "diameter": 0.15, "roughness": 100.0,
                             "minor_loss": 0.0, "check_valve": False, "initial_status": "CLOSED" if mode == "permanent" else "OPEN"})
        ctr = [{"kind": "time", "time": hyd * 2, "action": {"link": "P5", "attr": "status", "value": 0}}]
        if mode == "temporary":
            ctr += [{"kind": "time", "time": hyd * 1, "action": {"link": "P9", "attr": "status", "value": 0}},
                    {"kind": "time", "time": hyd * rng.choice([3, 4]), "action": {"link": "P9", "attr": "status", "value": 1}}]
        out.append(("isolated-junction-" + mode, {"net": net, "controls": ctr, "same_sim": True}))
    # a control action on an attribute the API accepts for every node class: leak_status on a RESERVOIR (reset_initial_values resets it
    # for junctions and tanks only); off the hydraulic grid and report step ALL so that "did the action change anything" is visible
    net = _small_net(pump="POWER", valve=None, steps=3)
    net["options"]["report_timestep"] = "ALL"
    out.append(("reservoir-leak-status-action", {"net": net, "controls": [{"kind": "time", "time": hyd // 2,
                                                                          "action": {"node": "R0", "attr": "leak_status", "value": True}}]}))
    # conflicting equal-priority controls at the same instant: which one wins must not depend on the registry NAMES
    for where in ("pipe", "valve"):
        sp = {"net": _small_net(pump="POWER", valve=rng.choice(["TCV", "PRV", "FCV"]), steps=3), "controls": []}
        add_conflict(rng, sp, where)
        out.append(("conflicting-controls-" + where, sp))
    sp = {"net": _small_net(pump="POWER", valve=None, steps=3), "controls": []}
    for i in range(1, 12):   # INP-style names: 'control 10' sorts before 'control 2'
        if i == 2:
            act = {"link": "P5", "attr": "status", "value": 0}
        elif i == 10:
            act = {"link": "P5", "attr": "status", "value": 1}
        else:
            act = {"link": rng.choice(["P3", "P4"]), "attr": "status", "value": 1}
        sp["controls"].append({"kind": "time", "time": hyd if i in (2, 10) else hyd * rng.choice([1, 2, 3]), "action": act, "key": "control %d" % i})
    sp["conflict"] = True
    out.append(("conflicting-controls-inp-names", sp))
    # a tank whose volume curve was typed in with its top rows out of order (add_curve keeps the order); >= 2 hydraulic steps
    net = _small_net(pump=rng.choice(["POWER", "HEAD"]), valve=None, steps=3)
    out.append(("tank-volume-curve-unsorted", {"net": net, "controls": [], "vol_curves": {"T1": volume_curve_rows(rng, net["nodes"][1], rng.choice(["swap-top", "duplicate-top"]))}}))
    # nameless rules under long registry keys: the outage rule of a pump with a 29-character name ('<name>_outage', 36 chars) and a
    # rule added under a 40-character key with name=None
    net = _small_net(pump="POWER", valve=None, steps=3)
    long_pump = "booster_station_north_pump_02"
    for l in net["links"]:
        if l["name"] == "PW1":
            l["name"] = long_pump
    ctr = [{"kind": "rule", "key": "close_bypass_when_pressure_high_rule_no_0001"[:40], "cond": {"t": "simtime", "op": ">=", "thr": 2 * hyd},
            "then": [{"link": "P5", "attr": "status", "value": 0}], "else": [], "priority": 3, "name": ""}]
    out.append(("nameless-rules-long-keys", {"net": net, "controls": ctr, "outages": [{"pump": long_pump, "start": hyd, "end": 2 * hyd}]}))
    # daily repeating time controls in a run longer than one day (the second occurrence is threshold + 24 h)
    net = _small_net(pump="POWER", valve=None, steps=27)
    ctr = [{"kind": "time", "time": hyd * 1, "repeat": True, "action": {"link": "P5", "attr": "status", "value": 0}},
           {"kind": "time", "time": hyd * rng.choice([2, 3]), "repeat": True, "action": {"link": "P5", "attr": "status", "value": 1}}]
    out.append(("repeating-time-control", {"net": net, "controls": ctr}))
    # edit cycle: the head-pump curve (1-point and 3-point), a pattern and a tank level are changed through the public setters
    # between two runs of the same object
    for npts in (1, 3):
        net = _small_net(pump="HEAD", valve=None, steps=2)
        net["curves"]["curve1"] = [(0.02, 24.0)] if npts == 1 else [(0.0, 30.0), (0.02, 24.0), (0.05, 8.0)]
        ed = [{"what": "HeadPump.curve", "name": "curve1", "hf": rng.choice([0.8, 1.15]), "qf": rng.choice([0.9, 1.1])}]
        if npts == 3:
            ed.append({"what": "Pattern.multipliers", "name": "pat0", "f": 1.2})
        else:
            ed.append({"what": "Tank.init_level", "name": "T1", "v": round(rng.uniform(3.0, 5.0), 2)})
        out.append(("edit-pump-curve-%dpt" % npts, {"net": net, "controls": [], "edits": ed, "edit_cycle": True}))
    # a valve setting changed by a control that fires and is NOT restored, then EpanetSimulator on the same object (no reset)
    for vt in rng.sample(["PRV", "FCV", "TCV"], 2):
        net = _small_net(valve=vt, pump="POWER", steps=3)
        ctr = [{"kind": "time", "time": hyd, "action": {"link": "V1", "attr": "setting", "value": {"PRV": 18.0, "FCV": 0.0008, "TCV": 60.0}[vt]}}]
        out.append(("epanet-after-setting-control-" + vt, {"net": net, "controls": ctr, "epanet_after_wntr": True}))
    # option sets the simulators adjust internally: report step larger than / smaller than / not a multiple of the hydraulic step,
    # 'ALL', pattern step != hydraulic step, rule step variants (one directed model of each kind per run)
    for kind in OPTION_KINDS[:-1]:
        net = _small_net(pump=rng.choice(["POWER", "HEAD"]), valve=rng.choice([None, "TCV"]), steps=3)
        k, over = vary_options(rng, net, kind)
        ctr = [{"kind": "time", "time": hyd, "action": {"link": "P5", "attr": "status", "value": 0}}]
        out.append(("options:" + kind, {"net": net, "controls": ctr, "opt_kind": k, "opt_overrides": over}))
    return out


# =================================================================================================== building / running


def build_model(wntr, spec, fresh=True):
    """the model exactly as the API builds it (gen_networks.build_wn ends with reset_initial_values(); that call is
    neutralised here so that `fresh` really is what a user gets from add_* calls), then the controls"""
    WN = wntr.network.WaterNetworkModel
    orig = WN.reset_initial_values
    WN.reset_initial_values = lambda self: None
    try:
        wn = G.build_wn(wntr, spec["net"])
    finally:
        WN.reset_initial_values = orig
    for name, v in sorted((spec.get("opt_overrides") or {}).items()):
        sec, k = name.split(".", 1)
        setattr(getattr(wn.options, sec), k, v)
    ctl = wntr.network.controls
    LS = wntr.network.LinkStatus

    def mk_action(a):
        obj = wn.get_node(a["node"]) if "node" in a else wn.get_link(a["link"])
        v = a["value"]
        if a["attr"] == "status":
            v = LS(int(v))
        return ctl.ControlAction(obj, a["attr"], v)

    def mk_cond(c):
        t = c["t"]
        if t == "simtime":
            return ctl.SimTimeCondition(wn, c["op"], c["thr"])
        if t == "value":
            obj = wn.get_node(c["node"]) if "node" in c else wn.get_link(c["link"])
            return ctl.ValueCondition(obj, c["attr"], c["op"], c["thr"])
        if t == "and":
            return ctl.AndCondition(mk_cond(c["a"]), mk_cond(c["b"]))
        if t == "or":
            return ctl.OrCondition(mk_cond(c["a"]), mk_cond(c["b"]))
        raise ValueError(t)

    for tname, pts in (spec.get("vol_curves") or {}).items():
        # the curve is stored exactly as given (add_curve / Curve.__init__ keep the order; only the Curve.points SETTER sorts)
        wn.add_curve("vol_" + tname, "VOLUME", [tuple(p_) for p_ in pts])
        wn.get_node(tname).vol_curve_name = "vol_" + tname
    for o_ in spec.get("outages") or []:
        wn.get_link(o_["pump"]).add_outage(wn, o_["start"], o_.get("end"))
    for i, c in enumerate(spec.get("controls", [])):
        if c["kind"] == "time":
            ctrl = ctl.Control._time_control(wn, c["time"], "SIM_TIME", bool(c.get("repeat", False)), mk_action(c["action"]))
        elif c["kind"] == "cond":
            ctrl = ctl.Control(mk_cond(c["cond"]), mk_action(c["action"]))
        else:
            ctrl = ctl.Rule(mk_cond(c["cond"]), [mk_action(a) for a in c["then"]], [mk_action(a) for a in c["else"]],
                            priority=c["priority"], name=(c["name"] or None))
        wn.add_control(c.get("key") or "ctl%d" % i, ctrl)
    if not fresh:
        wn.reset_initial_values()
    return wn


def spec_features(spec):
    f = set()
    net = spec["net"]
    f.add(net["options"]["demand_model"])
    if spec.get("opt_kind") and spec["opt_kind"] != "plain":
        f.add("opt:" + spec["opt_kind"])
    if spec.get("opt_overrides"):
        f.add("opt:overrides")
    for l in net["links"]:
        f.add(l["type"] + (":" + (l.get("pump_type") or l.get("valve_type") or "") if l["type"] != "pipe" else ""))
        if l["type"] == "valve" and l.get("initial_status", "ACTIVE") != "ACTIVE":
            f.add("valve-initial-" + l["initial_status"].lower())
        if l.get("check_valve"):
            f.add("cv")
        if l["type"] == "pipe" and l.get("initial_status") == "CLOSED":
            f.add("pipe-initially-closed")
    for n in net["nodes"]:
        if n.get("leak"):
            f.add("leak:" + n["type"])
        if n["type"] == "tank":
            f.add("tank")
    for c in spec.get("controls", []):
        f.add("ctl:" + c["kind"])
        acts = [c["action"]] if "action" in c else c["then"] + c["else"]
        for a in acts:
            f.add("act:" + a["attr"])
        if c["kind"] == "rule":
            if c["else"]:
                f.add("rule:else")
            if c["cond"]["t"] in ("and", "or"):
                f.add("rule:" + c["cond"]["t"])
            if not c["name"]:
                f.add("rule:unnamed")
    return sorted(f)


def norm(v):
    """JSON-like normal form with NaN-safe, type-stable comparison (numpy scalars/arrays -> python, tuples -> lists, enums -> str)"""
    import enum
    import numpy as np

    if isinstance(v, dict):
        return {str(k): norm(x) for k, x in v.items()}
    if isinstance(v, (list, tuple)):
        return [norm(x) for x in v]
    if isinstance(v, np.ndarray):
        return [norm(x) for x in v.tolist()]
    if isinstance(v, (np.floating, float)):
        f = float(v)
        return "NaN" if f != f else f
    if isinstance(v, (np.bool_, bool)):
        return bool(v)
    if isinstance(v, (np.integer, int)) and not isinstance(v, enum.Enum):
        return int(v)
    if isinstance(v, enum.Enum):
        return "%s.%s" % (type(v).__name__, v.name)
    if v is None or isinstance(v, str):
        return v
    if hasattr(v, "to_dict") and not isinstance(v, type):
        try:
            return {"<%s>" % type(v).__name__: norm(v.to_dict())}
        except Exception:
            pass
    return "<%s>" % type(v).__name__


def dict_diff(a, b, path=""):
    """first differences between two normalised structures: list of (path, old, new)"""
    out = []
    if type(a) != type(b):
        return [(path, a, b)]
    if isinstance(a, dict):
        for k in sorted(set(a) | set(b)):
            if k not in a or k not in b:
                out.append((path + "/" + k, a.get(k, "<absent>"), b.get(k, "<absent>")))
            else:
                out += dict_diff(a[k], b[k], path + "/" + k)
    elif isinstance(a, list):
        if len(a) != len(b):
            out.append((path + "#len", len(a), len(b)))
        else:
            for i, (x, y) in enumerate(zip(a, b)):
                out += dict_diff(x, y, "%s[%d]" % (path, i))
    elif a != b:
        out.append((path, a, b))
    return out


def to_dict_norm(wn):
    return norm(copy.deepcopy(wn.to_dict()))


def _elem_class(e):
    if "node_type" in e:
        return e["node_type"]
    if e.get("link_type") == "Pump":
        return "HeadPump" if e.get("pump_type") == "HEAD" else "PowerPump"
    if e.get("link_type") == "Valve":
        return {"PRV": "PRValve", "PSV": "PSValve", "PBV": "PBValve", "FCV": "FCValve", "TCV": "TCValve", "GPV": "GPValve"}.get(e.get("valve_type"), "Valve")
    return e.get("link_type", "?")


def classify_dict_diff(d0, path):
    """(class, key) of a difference path like /links[3]/base_speed"""
    import re

    m = re.match(r"^/(nodes|links|curves|patterns|sources|controls)\[(\d+)\]/?([^/\[#]*)", path)
    if m:
        sec, i, key = m.group(1), int(m.group(2)), m.group(3)
        e = d0[sec][i] if i < len(d0[sec]) else {}
        if sec in ("nodes", "links"):
            return _elem_class(e), key
        if sec == "controls":
            return ("Rule" if e.get("type") == "rule" else "Control"), key
        return sec[:-1].capitalize(), key
    m = re.match(r"^/options/([^/]+)/?([^/\[#]*)", path)
    if m:
        return "Options", m.group(1) + ("." + m.group(2) if m.group(2) else "")
    return "WaterNetworkModel", path.strip("/").split("/")[0].split("[")[0].split("#")[0]


TABLES = (("node", "head"), ("node", "pressure"), ("node", "demand"), ("node", "leak_demand"),
          ("link", "flowrate"), ("link", "velocity"), ("link", "status"), ("link", "setting"))


class quiet_fds:
    """SuperLU prints `dgstrf info N` from C on singular trial matrices: keep the check's stdout clean"""

    def __enter__(self):
        sys.stdout.flush()
        sys.stderr.flush()
        self.null = os.open(os.devnull, os.O_WRONLY)
        self.saved = (os.dup(1), os.dup(2))
        os.dup2(self.null, 1)
        os.dup2(self.null, 2)

    def __exit__(self, *a):
        os.dup2(self.saved[0], 1)
        os.dup2(self.saved[1], 2)
        for fd in self.saved + (self.null,):
            os.close(fd)
        return False


def run_wntr(wntr, wn, hw="default", holder=None):
    """outcome of one WNTRSimulator run: ('ok', tables) | ('raised', type, message).
    `holder` (a dict) keeps the simulator OBJECT: a second call with the same holder reuses it (sim.run_sim(); reset; sim.run_sim())"""
    import warnings
    import numpy as np

    with warnings.catch_warnings(), quiet_fds():
        warnings.simplefilter("ignore")
        try:
            if holder is not None and holder.get("sim") is not None:
                sim = holder["sim"]
            else:
                sim = wntr.sim.WNTRSimulator(wn)
                if holder is not None:
                    holder["sim"] = sim
            res = sim.run_sim(HW_approx=hw)
        except Exception as e:  # the statement covers failing runs too: the outcome must repeat
            return ("raised", type(e).__name__, str(e)[:160])
    tabs = {}
    for grp, nm in TABLES:
        df = getattr(res, grp)[nm]
        tabs[grp + "." + nm] = (list(df.index), list(df.columns), np.array(df.values, dtype=float))
    return ("ok", tabs, str(res.error_code))


def run_epanet(wntr, wn, prefix):
    import warnings
    import numpy as np

    with warnings.catch_warnings(), quiet_fds():
        warnings.simplefilter("ignore")
        try:
            res = wntr.sim.EpanetSimulator(wn).run_sim(file_prefix=prefix)
        except Exception as e:
            return ("raised", type(e).__name__, str(e)[:160])
    tabs = {}
    for grp, d in (("node", res.node), ("link", res.link)):
        for nm, df in d.items():
            try:
                tabs[grp + "." + nm] = (list(df.index), list(df.columns), np.array(df.values, dtype=float))
            except Exception:
                pass
    return ("ok", tabs, str(getattr(res, "error_code", None)))


# physical scale below which a table is 'all zeros' for the absolute part of the tolerance (a stagnant network has velocities of
# 1e-6 m/s whose last-bit flow noise, multiplied by 4/(pi d^2), is 1e-12 m/s)
SCALE_FLOOR = {"head": 1.0, "pressure": 1.0, "velocity": 0.1, "flowrate": 1e-3, "demand": 1e-3, "leak_demand": 1e-3, "setting": 1e-3}
RTOL = 1e-9  # see the module docstring: the evaluator orders unknowns by heap address, so reruns agree to ~1e-13, not bit for bit


def cmp_outcomes(a, b, rtol=RTOL):
    """None when equal, else a short description of the first difference (table, column, time, values).
    Continuous tables: |x - y| <= rtol * max(|x|, |y|) + rtol * max(SCALE_FLOOR[table], max|table|); status tables and the time index: exact."""
    import numpy as np

    if a[0] != b[0]:
        return "outcome %s vs %s (%s | %s)" % (a[0], b[0], a[1:] if a[0] == "raised" else "", b[1:] if b[0] == "raised" else "")
    if a[0] == "raised":
        return None if a[1:] == b[1:] else "raised %s vs %s" % (a[1:], b[1:])
    if a[2] != b[2]:
        return "error_code %s vs %s" % (a[2], b[2])
    for k in a[1]:
        if k not in b[1]:
            return "table %s missing" % k
        ia, ca, va = a[1][k]
        ib, cb, vb = b[1][k]
        if ia != ib:
            return "table %s: time index %s vs %s" % (k, ia[:8], ib[:8])
        if ca != cb:
            return "table %s: columns differ" % k
        if va.shape != vb.shape:
            return "table %s: shape %s vs %s" % (k, va.shape, vb.shape)
        both_nan = np.isnan(va) & np.isnan(vb)
        if rtol == 0.0 or k.endswith(".status"):
            eq = (va == vb) | both_nan
        else:
            fin = np.where(np.isfinite(va), np.abs(va), 0.0)
            scale = max(SCALE_FLOOR.get(k.split('.')[-1], 1e-3), float(fin.max()) if fin.size else 0.0)
            with np.errstate(invalid="ignore"):
                eq = (np.abs(va - vb) <= rtol * np.maximum(np.abs(va), np.abs(vb)) + rtol * scale) | both_nan | (va == vb)
        if not eq.all():
            i, j = np.argwhere(~eq)[0]
            return "table %s[t=%s, %s]: %r vs %r" % (k, ia[i], ca[j], float(va[i, j]), float(vb[i, j]))
    return None


def max_rel_diff(a, b):
    """largest |x - y| / (max(|x|, |y|) + max(1e-3, max|table|)) over the continuous tables: the observed rerun noise on the
    scale the comparison uses"""
    import numpy as np

    m = 0.0
    if a[0] != "ok" or b[0] != "ok":
        return m
    for k in a[1]:
        if k.endswith(".status"):
            continue
        if k in b[1] and a[1][k][2].shape == b[1][k][2].shape:
            va, vb = a[1][k][2], b[1][k][2]
            fin = np.where(np.isfinite(va), np.abs(va), 0.0)
            scale = max(SCALE_FLOOR.get(k.split('.')[-1], 1e-3), float(fin.max()) if fin.size else 0.0)
            with np.errstate(invalid="ignore", divide="ignore"):
                d = np.abs(va - vb) / (np.maximum(np.abs(va), np.abs(vb)) + scale)
            d = np.where(np.isfinite(d), d, 0.0)
            if d.size:
                m = max(m, float(d.max()))
    return m


# =================================================================================================== write trace (tie d)


class WriteTrace:
    """records every attribute assignment on objects OWNED by the model while active (recording `__setattr__` wrappers on
    the concrete classes of those objects; removed on exit)"""

    def __init__(self, wntr, wn):
        el = wntr.network.elements
        self.owned = {}
        self.observed = {}
        self._patched = []
        TS, DM = el.TimeSeries, el.Demands
        R = Resolver({})
        self.ts_rev = {}
        for pn in dir(TS):
            if isinstance(getattr(TS, pn, None), property) and getattr(TS, pn).fset is not None:
                for f in R.setter_storage(TS, pn):
                    self.ts_rev[f] = pn

        def own(o, cls, prefix):
            self.owned[id(o)] = (cls, prefix, o)

        def nested(o, cls):
            for f, v in list(vars(o).items()):
                if isinstance(v, TS):
                    own(v, cls, f + ".")
                elif isinstance(v, DM):
                    own(v, cls, f + ".")
                    for ts in v._list:
                        own(ts, cls, f + ".")

        for name, o in list(wn.nodes()) + list(wn.links()):
            own(o, type(o).__name__, "")
            nested(o, type(o).__name__)
        own(wn, "WaterNetworkModel", "")
        own(wn._options, "Options", "")
        for f, v in vars(wn._options).items():
            if hasattr(v, "__dict__") and type(v).__module__.endswith("options"):
                own(v, "Options", f.lstrip("_") + ".")
        for name, c in wn.controls():
            cn = type(c).__name__
            own(c, cn, "")

            def walk(cond):
                if cond is None:
                    return
                own(cond, cn, "_condition.")
                for k in ("_condition_1", "_condition_2"):
                    if hasattr(cond, k):
                        walk(getattr(cond, k))

            walk(getattr(c, "_condition", None))
            for a in getattr(c, "_then_actions", []) or []:
                own(a, cn, "_then_actions.")
            for a in getattr(c, "_else_actions", []) or []:
                own(a, cn, "_else_actions.")
        for name, p in wn.patterns():
            own(p, "Pattern", "")
        for name, c in wn.curves():
            own(c, "Curve", "")
        for name, s in wn.sources():
            own(s, "Source", "")
            nested(s, "Source")

    def __enter__(self):
        classes = []
        for (cls, prefix, o) in self.owned.values():
            if type(o) not in classes:
                classes.append(type(o))
        owned, observed, ts_rev = self.owned, self.observed, self.ts_rev
        for K in classes:
            had = "__setattr__" in K.__dict__
            orig = K.__setattr__
            prev = K.__dict__.get("__setattr__")

            def make(orig, K):
                def rec(self, name, value):
                    ent = owned.get(id(self))
                    if ent is not None and ent[2] is self:
                        cls, prefix, _ = ent
                        if not isinstance(getattr(type(self), name, None), property):
                            field = prefix + (ts_rev.get(name, name) if prefix and type(self).__name__ == "TimeSeries" else name)
                            key = (cls, field)
                            if key not in observed:
                                fr = sys._getframe(1)
                                chain = []
                                while fr is not None and len(chain) < 4:
                                    chain.append("%s:%d %s" % (os.path.relpath(fr.f_code.co_filename, vlib.REPO), fr.f_lineno, fr.f_code.co_name))
                                    fr = fr.f_back
                                observed[key] = " <- ".join(chain)
                    return orig(self, name, value)
                return rec

            K.__setattr__ = make(orig, K)
            self._patched.append((K, had, prev))
        return self

    def __exit__(self, *exc):
        for K, had, prev in reversed(self._patched):
            if had:
                K.__setattr__ = prev
            else:
                try:
                    del K.__setattr__
                except AttributeError:
                    pass
        self._patched = []
        return False


def _canon(v, depth=0):
    """canonical, comparable form of a container value; model objects / simulator objects are replaced by their type (and name)"""
    import enum
    import numpy as np

    if v is None or isinstance(v, (str, bool, int)) and not isinstance(v, enum.Enum):
        return v
    if isinstance(v, (float, np.floating)):
        return "NaN" if v != v else float(v)
    if isinstance(v, (np.integer,)):
        return int(v)
    if isinstance(v, enum.Enum):
        return "%s.%s" % (type(v).__name__, v.name)
    if depth > 6:
        return "<deep>"
    if isinstance(v, np.ndarray):
        return [_canon(x, depth + 1) for x in v.tolist()]
    if isinstance(v, dict):
        return {str(_canon(k, depth + 1)): _canon(x, depth + 1) for k, x in v.items()}
    if isinstance(v, (list, tuple)):
        return [_canon(x, depth + 1) for x in v]
    if isinstance(v, (set, frozenset)):
        return sorted((json.dumps(_canon(x, depth + 1), sort_keys=True, default=str) for x in v))
    nm = getattr(v, "_name", None) or getattr(v, "_link_name", None)
    if type(v).__name__ == "TimeSeries":
        return {"<TimeSeries>": [_canon(getattr(v, "_base", None)), _canon(getattr(v, "_pattern", None)), _canon(getattr(v, "_category", None))]}
    if type(v).__name__ in ("OrderedSet", "Demands") or (hasattr(v, "__iter__") and hasattr(v, "__len__") and not hasattr(v, "keys")
                                                         and type(v).__module__.startswith("wntr.utils")):
        return [_canon(x, depth + 1) for x in v]
    return "<%s%s>" % (type(v).__name__, (" " + str(nm)) if isinstance(nm, str) else "")


def container_snapshot(trace_owned, wn):
    """{(cls, field): canonical content of every container-valued entry of the __dict__ of every model-owned object} + the registries'
    key lists and usage tables: in-place mutation (list.sort, dict update, set add ...) does not go through __setattr__"""
    import numpy as np

    snap = {}
    shared = set(id(getattr(wn, rn, None)) for rn in ("_node_reg", "_link_reg", "_curve_reg", "_pattern_reg", "_controls", "_sources", "_options"))
    for (cls, prefix, o) in trace_owned.values():
        try:
            items = list(vars(o).items())
        except TypeError:
            continue
        for f, v in items:
            if isinstance(v, (list, tuple, dict, set, frozenset, np.ndarray)) or type(v).__name__ in ("OrderedSet", "Demands"):
                if id(v) in shared or (type(v).__module__.startswith("wntr.network") and type(v).__name__.endswith(("Registry", "Options"))):
                    continue
                key = (cls, prefix + f)
                snap.setdefault(key, []).append(json.dumps(_canon(v), sort_keys=True, default=str))
    for rn in ("_node_reg", "_link_reg", "_curve_reg", "_pattern_reg", "_controls", "_sources"):
        reg = getattr(wn, rn, None)
        if reg is None:
            continue
        try:
            keys = list(reg.keys())
            usage = {str(k): sorted(str(x) for x in (u or [])) for k, u in getattr(reg, "_usage", {}).items()}
        except Exception:
            continue
        snap[("WaterNetworkModel", rn)] = [json.dumps({"keys": [str(k) for k in keys], "usage": usage}, sort_keys=True)]
    return snap


def snapshot_changes(a, b):
    return sorted(k for k in set(a) | set(b) if a.get(k) != b.get(k))


class ReadTrace(WriteTrace):
    """records which STORAGE fields (entries of the instance __dict__) of model-owned objects are read while active
    (used around one wn.to_dict() call to cross-check Gen.toDictReads, whose entries come from ast of the property getters)"""

    def __init__(self, wntr, wn):
        WriteTrace.__init__(self, wntr, wn)
        TS = wntr.network.elements.TimeSeries
        R = Resolver({})
        self.ts_get = {}
        for pn in dir(TS):
            if isinstance(getattr(TS, pn, None), property):
                for f in R.getter_storage(TS, pn):
                    self.ts_get.setdefault(f.split(".")[0], []).append(pn)

    def __enter__(self):
        classes = []
        for (cls, prefix, o) in self.owned.values():
            if type(o) not in classes:
                classes.append(type(o))
        owned, observed, ts_get = self.owned, self.observed, self.ts_get
        oga = object.__getattribute__
        for K in classes:
            had = "__getattribute__" in K.__dict__
            prev = K.__dict__.get("__getattribute__")
            orig = K.__getattribute__

            def make(orig):
                def rec(self, name):
                    v = orig(self, name)
                    if name[:2] != "__":
                        ent = owned.get(id(self))
                        if ent is not None and ent[2] is self and name in oga(self, "__dict__"):
                            cls, prefix, _ = ent
                            if (cls, prefix + name) not in observed:
                                if prefix and type(self).__name__ == "TimeSeries":
                                    observed[(cls, prefix + name)] = [prefix + pn for pn in ts_get.get(name, [])] + [prefix + name]
                                else:
                                    observed[(cls, prefix + name)] = [prefix + name]
                    return v
                return rec

            K.__getattribute__ = make(orig)
            self._patched.append((K, had, prev))
        return self

    def __exit__(self, *exc):
        for K, had, prev in reversed(self._patched):
            if had:
                K.__getattribute__ = prev
            else:
                try:
                    del K.__getattribute__
                except AttributeError:
                    pass
        self._patched = []
        return False


def read_covered(slot, reads_by_cls):
    """an observed storage read is covered when the table lists it, an ancestor path of it, or a path below it"""
    c, f = slot
    for e in reads_by_cls.get(c, ()):
        if e == f or e.startswith(f + ".") or f.startswith(e + "."):
            return True
    return False


def state_dump(wn, slots):
    """value of every run-time slot (the static `written` table) of every object of the model"""
    by_cls = {}
    for c, f in slots:
        by_cls.setdefault(c, []).append(f)

    def get(o, field):
        cur = o
        for part in field.split("."):
            cur = getattr(cur, part)
        return cur

    out = {}
    for name, o in list(wn.nodes()) + list(wn.links()):
        cn = type(o).__name__
        for f in by_cls.get(cn, []):
            try:
                out[(cn, f, name)] = norm(get(o, f))
            except AttributeError:
                out[(cn, f, name)] = "<unset>"
    for f in by_cls.get("WaterNetworkModel", []):
        try:
            out[("WaterNetworkModel", f, "")] = norm(get(wn, f))
        except AttributeError:
            out[("WaterNetworkModel", f, "")] = "<unset>"
    for f in by_cls.get("Options", []):
        try:
            out[("Options", f, "")] = norm(get(wn.options, f))
        except AttributeError:
            out[("Options", f, "")] = "<unset>"
    for name, c in wn.controls():
        cn = type(c).__name__
        for f in by_cls.get(cn, []):
            if f.startswith("_condition."):
                vals = []

                def walk(cond):
                    if cond is None:
                        return
                    if hasattr(cond, f.split(".", 1)[1]):
                        vals.append(norm(getattr(cond, f.split(".", 1)[1])))
                    for k in ("_condition_1", "_condition_2"):
                        if hasattr(cond, k):
                            walk(getattr(cond, k))

                walk(getattr(c, "_condition", None))
                out[(cn, f, name)] = vals
            else:
                try:
                    out[(cn, f, name)] = norm(get(c, f))
                except AttributeError:
                    out[(cn, f, name)] = "<unset>"
    return out


def wn_reset_twin(wntr, spec):
    w = build_model(wntr, spec, fresh=True)
    w.reset_initial_values()
    return w


def copy_slots(src, dst, groups):
    """copy the raw values of the slot groups [(cls, field)] from model src to model dst (same spec)"""
    gs = set(groups)

    def objs(wn):
        d = {("WaterNetworkModel", ""): wn}
        for name, o in list(wn.nodes()) + list(wn.links()):
            d[(type(o).__name__, name)] = o
        for name, c in wn.controls():
            d[(type(c).__name__, name)] = c
        return d

    so, do = objs(src), objs(dst)
    for (cls, field) in gs:
        for (c, name), o in do.items():
            if c != cls or (c, name) not in so:
                continue
            parts = field.split(".")
            a, b = so[(c, name)], o
            try:
                for p_ in parts[:-1]:
                    a, b = getattr(a, p_), getattr(b, p_)
                setattr(b, parts[-1], getattr(a, parts[-1]))
            except AttributeError:
                pass


def dump_diff(a, b):
    """{(cls, field): [(element, old, new)...]} for slots whose value differs"""
    out = {}
    for k in sorted(set(a) | set(b), key=str):
        if a.get(k, "<absent>") != b.get(k, "<absent>"):
            out.setdefault((k[0], k[1]), []).append((k[2], a.get(k, "<absent>"), b.get(k, "<absent>")))
    return out


def family(classes):
    cs = set(classes)
    if cs and cs <= set(VALVE_CLASSES):
        return "Valve"
    if cs and cs <= set(PUMP_CLASSES):
        return "Pump"
    if cs and cs <= set(PUMP_CLASSES + VALVE_CLASSES):
        return "Pump+Valve"
    return "+".join(sorted(cs))


# =================================================================================================== the oracle for one model

# written slots allowed to be absent from resetAssigns / present in toDictReads on the unchanged tree (mirror of the
# hypotheses of Props/C11.lean; anything NEW in these sets is a broken tie that triggers the failing-input search)
KNOWN_OVERLAP = {("HeadPump", "_speed_timeseries.base_value"), ("PowerPump", "_speed_timeseries.base_value"),  # known finding (speed control)
                 ("Rule", "_name")}  # InpFile._write_rules names an unnamed rule after its registry key; io.to_dict emits the key for an empty name
# run-time-writable slots the INP writer legitimately reads on the unchanged tree (mirror of the list Props/C11.lean pins)
KNOWN_INP_READS_WRITTEN = {("HeadPump", "_speed_timeseries.base_value"), ("PowerPump", "_speed_timeseries.base_value"),  # [PUMPS] SPEED: definition slot that a speed control writes
                           ("Rule", "_name"),  # _write_rules tests / names an unnamed rule
                           ("WaterNetworkModel", "_inpfile")}  # write_inpfile's own handle
KNOWN_MISSING = {("HeadPump", "_speed_timeseries.base_value"), ("PowerPump", "_speed_timeseries.base_value"),
                 ("Reservoir", "_leak_status"),  # never read for reservoirs
                 ("Control", "_condition._backtrack"), ("Rule", "_condition._backtrack"), ("Control", "_which"), ("Rule", "_which"),
                 ("Rule", "_name"),
                 ("HeadPump", "_coeffs_curve_points"), ("HeadPump", "_curve_coeffs"),  # memo of get_head_curve_coefficients keyed on the curve points
                 ("WaterNetworkModel", "_inpfile")}


class Judge:
    def __init__(self, wntr, tabs, tmpdir, ctx=None):
        self.wntr, self.tabs, self.tmpdir, self.ctx = wntr, tabs, tmpdir, ctx
        self.written = set(tabs["writtenByActions"]) | set(tabs["writtenBySim"])
        self.written_epanet = set(tabs["writtenByEpanet"])
        self.inp_by_cls = {}
        for c, f in tabs.get("inpWriterReads", []):
            self.inp_by_cls.setdefault(c, set()).add(f)
        self.uncovered_inp_reads = {}
        self.nmodels = 0
        self.mutated = set(tabs.get("mutatedInPlace", []))
        self.uncovered_mut = {}
        self.uncovered = {}  # slot -> where (tie d)
        self.uncovered_reads = {}
        self.reads_by_cls = {}
        for c, f in tabs["toDictReads"]:
            self.reads_by_cls.setdefault(c, set()).add(f)
        self.nruns = 0

    def count(self, k, n=1):
        if self.ctx is not None:
            self.ctx.count(k, n)

    # ---------------------------------------------------------------- helpers
    def _run(self, wn, spec, trace=False):
        self.nruns += 1
        if not trace:
            return run_wntr(self.wntr, wn, spec["net"].get("hw_approx", "default"))
        with WriteTrace(self.wntr, wn) as tr:
            s0 = container_snapshot(tr.owned, wn)
            out = run_wntr(self.wntr, wn, spec["net"].get("hw_approx", "default"))
            s1 = container_snapshot(tr.owned, wn)
        self._cover(tr, "WNTRSimulator")
        self._cover_snapshot(s0, s1, "WNTRSimulator")
        return out

    def _cover(self, tr, simname):
        allowed = self.written_epanet if simname == "EpanetSimulator" else self.written
        for slot, where in tr.observed.items():
            self.count(("epanet-write:%s.%s" if simname == "EpanetSimulator" else "write:%s.%s") % slot)
            if slot not in allowed:
                self.uncovered.setdefault(slot, "%s: %s" % (simname, where))

    def _cover_snapshot(self, s0, s1, simname):
        """container-valued slots whose CONTENT changed during the run must be assigned slots (Gen.written) or flagged in-place mutations
        (Gen.mutatedInPlace)"""
        allowed = (self.written_epanet if simname == "EpanetSimulator" else self.written) | self.mutated
        for slot in snapshot_changes(s0, s1):
            self.count("content-changed:%s.%s" % slot)
            if slot not in allowed and not any(slot[0] == a[0] and (slot[1].startswith(a[1] + ".") or a[1].startswith(slot[1] + ".")) for a in allowed):
                self.uncovered_mut.setdefault(slot, simname)

    def _epanet(self, wn, trace=True):
        prefix = os.path.join(self.tmpdir, "ep")
        if trace:
            with WriteTrace(self.wntr, wn) as tr:
                s0 = container_snapshot(tr.owned, wn)
                out = run_epanet(self.wntr, wn, prefix)
                s1 = container_snapshot(tr.owned, wn)
            self._cover(tr, "EpanetSimulator")
            self._cover_snapshot(s0, s1, "EpanetSimulator")
        else:
            out = run_epanet(self.wntr, wn, prefix)
        for f in os.listdir(self.tmpdir):
            try:
                os.remove(os.path.join(self.tmpdir, f))
            except OSError:
                pass
        return out

    def _diff(self, ref, other, spec, tag):
        """None when the two outcomes agree (1e-9 relative); a difference that is small (<= 1e-6 on the comparison's scale) is
        measured against the model's own noise floor -- two never-run, reset-only twins of the same spec simulated one after the
        other -- and accepted when it is within 1000 x that floor (ill-conditioned networks amplify the ordering noise)."""
        d = cmp_outcomes(ref, other)
        if d is None or ref[0] != "ok" or other[0] != "ok":
            return d
        m = max_rel_diff(ref, other)
        if m > 1e-6 or cmp_outcomes(ref, other, rtol=1e-6) is not None:
            return d
        key = json.dumps(spec, sort_keys=True)
        if getattr(self, "_floor_key", None) != key:
            a = self._run(wn_reset_twin(self.wntr, spec), spec)
            b = self._run(wn_reset_twin(self.wntr, spec), spec)
            self._floor_key, self._floor = key, max_rel_diff(a, b)
        if m <= 1e3 * max(self._floor, 1e-15):
            self.count("within-model-noise-floor:" + tag)
            return None
        return d + " (noise floor of this model %.1e, difference %.1e)" % (self._floor, m)

    def _used_model(self, spec):
        """a model that has been run once and reset (carries whatever reset_initial_values leaves behind)"""
        w = build_model(self.wntr, spec, fresh=True)
        w.reset_initial_values()
        self._run(w, spec)
        w.reset_initial_values()
        return w

    def _causal(self, make, twin, groups, ref, spec):
        """slot groups that change the outcome on their own: every OTHER group is set to the twin's (reset-only) value"""
        out = []
        for g in groups[:8]:
            w = make()
            copy_slots(twin, w, [h for h in groups if h != g])
            if self._diff(ref, self._run(w, spec), spec, "causal") is not None:
                out.append(g)
        return out

    # ---------------------------------------------------------------- the oracles; returns list of (key, what, extra)
    def _reloaded(self, wn):
        """(model re-created from the JSON text of wn.to_dict(), dictionaries equal?)"""
        wntr = self.wntr
        try:
            wj = wntr.network.from_dict(json.loads(json.dumps(wn.to_dict())))
            return wj, not dict_diff(to_dict_norm(wn), to_dict_norm(wj))
        except Exception as e:
            self.count("reload:raises-" + type(e).__name__)
            return None, False

    def edit_cycle(self, spec, edits, used=None):
        """run; edit the definition through public setters; reset; run  ==  the run of the model reloaded from the edited dictionary.
        `used`: a model object of this spec that has already been simulated (saves the first run)"""
        wntr = self.wntr
        we = used
        if we is None:
            we = build_model(wntr, spec, fresh=False)
            self._run(we, spec)
        try:
            for e in edits:
                apply_edit(wntr, we, e)
        except Exception as ex:
            self.count("edit-cycle:edit-raises-" + type(ex).__name__)
            return None
        we.reset_initial_values()
        re1 = self._run(we, spec)
        wj, same = self._reloaded(we)
        if wj is None or not same:
            self.count("edit-cycle:reload-not-equal(C13)")
            return None
        wj.reset_initial_values()
        rj = self._run(wj, spec)
        d = self._diff(rj, re1, spec, "edit")
        self.count("edit-cycle:" + ("same" if d is None else "differs"))
        return d

    def judge(self, spec, light=False, third=False, force=False):
        """light: only what the shrinker needs (to_dict + rerun oracles); force: run every optional cycle (replay)"""
        wntr = self.wntr
        out = []
        self.nmodels += 1
        wn = build_model(wntr, spec, fresh=True)
        F = state_dump(wn, self.written)
        wn.reset_initial_values()
        R0 = state_dump(wn, self.written)
        fresh_diff = dump_diff(F, R0)
        if light:
            d0 = to_dict_norm(wn)
        else:
            with ReadTrace(wntr, wn) as rt:
                d0 = to_dict_norm(wn)
            for slot, cands in rt.observed.items():
                self.count("to_dict-read:" + slot[0])
                if not any(read_covered((slot[0], f), self.reads_by_cls) for f in cands):
                    self.uncovered_reads.setdefault(slot, "wn.to_dict() reads storage field %s.%s (as any of %s)" % (slot[0], slot[1], cands))
        # ---- a. WNTRSimulator leaves to_dict alone
        r1 = self._run(wn, spec, trace=not light)
        d1 = to_dict_norm(wn)
        out += self._dict_failures(d0, d1, "WNTRSimulator", spec)
        # ---- b. run / reset / run
        wn.reset_initial_values()
        R1 = state_dump(wn, self.written)
        d1r = to_dict_norm(wn)
        if not out:
            out += self._dict_failures(d0, d1r, "WNTRSimulator+reset", spec)
        r2 = self._run(wn, spec)
        diff12 = self._diff(r1, r2, spec, "rerun")
        self.count("outcome:" + r1[0] + (":" + r1[1] if r1[0] == "raised" else ""))
        self.count("rerun:" + ("same" if diff12 is None else "differs"))
        left = dump_diff(R0, R1)
        mr = max_rel_diff(r1, r2)
        self.count("rerun-noise:" + ("0" if mr == 0 else "<=1e-14" if mr <= 1e-14 else "<=1e-12" if mr <= 1e-12 else "<=1e-10" if mr <= 1e-10
                                     else "<=1e-9" if mr <= 1e-9 else ">1e-9"))
        if self.ctx is not None:
            self.ctx.cov["max_rerun_noise"] = max(self.ctx.cov.get("max_rerun_noise", 0.0), mr if diff12 is None else 0.0)
        dict_changed = [k for k, _, _ in out if k.startswith("to_dict-changed")]
        reads = set(self.tabs["toDictReads"])
        causal_left = []
        if diff12 is not None and left:
            causal_left = self._causal(lambda: self._used_model(spec), wn_reset_twin(wntr, spec), sorted(left), r1, spec)
        if diff12 is not None and not causal_left:
            out.append(("rerun-differs-after-reset", "run / reset_initial_values / run gives different results: " + diff12,
                        {"reset_leaves": {"%s.%s" % k: v[:3] for k, v in left.items()}}))
        for (c, f), items in left.items():
            self.count("reset-leaves:%s.%s" % (c, f))
            why = None
            if (c, f) in causal_left:
                why = "run / reset_initial_values / run differs because of it (%s)" % diff12
            elif dict_changed and (c, f) in reads and any((":%s." % family([c])) in k for k in dict_changed):
                why = "to_dict reads it and differs"
            if why:
                out.append(("reset-does-not-restore:%s.%s" % (family([c]), f),
                            "after run + reset_initial_values the slot %s.%s differs from its value in a model that was only reset "
                            "(%s: %r -> %r); %s" % (c, f, items[0][0], items[0][1], items[0][2], why), {}))
        if third or (not light and len(spec.get("controls", [])) % 3 == 0):
            wn.reset_initial_values()
            r3 = self._run(wn, spec)
            d3 = self._diff(r2, r3, spec, "third")
            self.count("third-cycle:" + ("same" if d3 is None else "differs"))
            if d3 is not None and diff12 is None:
                out.append(("rerun-differs-after-reset", "third run / reset / run cycle gives different results: " + d3, {"cycle": 3}))
        # ---- the SAME simulator object reused over run / reset / run (state kept on the simulator, e.g. the sets of
        # previously isolated junctions / links, must not leak into the rerun)
        closed0 = any(l["type"] == "pipe" and l.get("initial_status") == "CLOSED" for l in spec["net"]["links"])
        if spec.get("same_sim") or (not light and (closed0 or len(spec.get("controls", [])) % 2 == 0)):
            ws = build_model(wntr, spec, fresh=False)
            holder = {}
            hw = spec["net"].get("hw_approx", "default")
            self.nruns += 2
            s1 = run_wntr(wntr, ws, hw, holder)
            ws.reset_initial_values()
            s2 = run_wntr(wntr, ws, hw, holder)
            ds = self._diff(s1, s2, spec, "same-simulator")
            self.count("same-simulator-rerun:" + ("same" if ds is None else "differs"))
            if s1[0] == "ok" and s2[0] == "raised":
                self.count("same-simulator-rerun:raises-" + s2[1])
            if ds is not None:
                # attribute it to the simulator object only when fresh simulators reproduce (else the cause is reported above)
                if diff12 is None:
                    out.append(("rerun-differs-after-reset:same-simulator-object",
                                "sim.run_sim(); wn.reset_initial_values(); sim.run_sim() with the SAME WNTRSimulator object does not "
                                "reproduce the first run (a new simulator per run does): " + ds, {}))
        # ---- the API-built model, simulated as built (no reset first), against the same model after reset
        if fresh_diff:
            wf = build_model(wntr, spec, fresh=True)
            rf = self._run(wf, spec)
            dfr = self._diff(r1, rf, spec, "fresh")
            for (c, f), items in fresh_diff.items():
                self.count("fresh-differs-from-reset:%s.%s" % (c, f))
            if dfr is not None:
                # which of the differing slots is responsible: make every OTHER differing slot equal to the reset model's
                causal = self._causal(lambda: build_model(wntr, spec, fresh=True), wn_reset_twin(wntr, spec), sorted(fresh_diff), r1, spec)
                causal = causal or sorted(fresh_diff)
                fam = family([c for (c, f) in causal])
                flds = sorted(set(f for (c, f) in causal))
                out.append(("rerun-differs-after-reset:fresh-model:%s.%s" % (fam, "+".join(flds)),
                            "build / run / reset_initial_values / run: the first run of the API-built model differs from the run after reset "
                            "(%s); responsible: %s is %r in the model as built and %r after reset_initial_values"
                            % (dfr, "%s.%s" % causal[0], fresh_diff[causal[0]][0][1], fresh_diff[causal[0]][0][2]),
                            {"fresh_vs_reset": {"%s.%s" % k: v[:3] for k, v in fresh_diff.items()}, "responsible": ["%s.%s" % k for k in causal]}))
        if light:
            return out
        # ---- c. equal models give equal results
        # reference for "an equal model": the original's own run from the SAME state. When run 1 and the run after reset
        # already differ (reported above with its cause, e.g. a base_speed action that reset does not undo), the copy of the
        # reset model is equal to the model that produced run 2, not to the one that produced run 1.
        ref = r1 if diff12 is None else r2
        wn.reset_initial_values()
        wc = copy.deepcopy(wn)
        rc = self._run(wc, spec)
        dc = self._diff(ref, rc, spec, "deepcopy")
        self.count("deepcopy:" + ("same" if dc is None else "differs"))
        if dc is not None:
            out.append(("copy-differs:deepcopy", "a deepcopy of the (reset) model simulates differently: " + dc, {}))
        try:
            dj = json.loads(json.dumps(wn.to_dict()))
            wj = wntr.network.from_dict(dj)
            same_def = not dict_diff(d0, to_dict_norm(wj))
        except Exception as e:
            wj, same_def = None, False
            self.count("json-copy:raises-" + type(e).__name__)
        if wj is not None and not same_def:
            self.count("json-copy:not-an-equal-model(C13)")
        if wj is not None and same_def:
            rj = self._run(wj, spec)  # as reloaded, no reset
            dj_ = self._diff(r1, rj, spec, "json")
            self.count("json-copy:" + ("same" if dj_ is None else "differs"))
            if dj_ is not None:
                wj.reset_initial_values()
                rj2 = self._run(wj, spec)
                if self._diff(r1, rj2, spec, "json-reset") is None:
                    mk = lambda: wntr.network.from_dict(json.loads(json.dumps(wn.to_dict())))
                    Fj = dump_diff(state_dump(mk(), self.written), R0)
                    groups = sorted(g for g in Fj if g[0] in ELEMENT_CLASSES)
                    causal = self._causal(mk, wn_reset_twin(wntr, spec), groups, r1, spec) or groups
                    fam = family([c for (c, f) in causal])
                    flds = sorted(set(f for (c, f) in causal))
                    out.append(("rerun-differs-after-reset:fresh-model:%s.%s" % (fam, "+".join(flds)),
                                "a model reloaded through to_dict / JSON / from_dict has the same dictionary but simulates differently until "
                                "reset_initial_values is called: %s; responsible: %s" % (dj_, ["%s.%s" % k for k in causal]),
                                {"reloaded_vs_reset": {"%s.%s" % k: v[:3] for k, v in Fj.items()}}))
                else:
                    out.append(("copy-differs:json-roundtrip", "a model reloaded through to_dict / JSON / from_dict (equal dictionary) simulates "
                                "differently: " + dj_, {}))
        # ---- c'. equal models modulo control NAMES: the same spec with its controls registered as 'control 1..N' in insertion order
        # (what from_dict / read_inpfile call simple controls); wn.to_dict() lists simple controls without any name, so the two
        # dictionaries are equal whenever no named rule is renamed -- compared here: the whole normalised to_dict
        if spec.get("conflict") or any(c.get("key") for c in spec.get("controls", [])) or len(spec.get("controls", [])) >= 10:
            sp2 = copy.deepcopy(spec)
            for i, c in enumerate(sp2["controls"]):
                if c["kind"] != "rule":   # a reload keeps a rule's name (= its key when it had none) and renames simple controls
                    c["key"] = "control %d" % (i + 1)
            try:
                wr = build_model(wntr, sp2, fresh=False)
                same = not dict_diff(d0, to_dict_norm(wr))
            except Exception as ex:
                wr, same = None, False
                self.count("renamed-controls:build-raises-" + type(ex).__name__)
            if wr is not None and not same:
                self.count("renamed-controls:dictionary-differs(not judged)")
            if wr is not None and same:
                rr = self._run(wr, spec)
                dr = self._diff(r1, rr, spec, "renamed-controls")
                self.count("renamed-controls:" + ("same" if dr is None else "differs"))
                if dr is not None and diff12 is None:
                    out.append(("reloaded-model-differs:control-order",
                                "the same model with its controls registered under the names a reload gives them ('control 1..N' in insertion order; "
                                "equal to_dict) simulates differently: " + dr, {"controls": [(c.get("key"), c.get("time"), c.get("action")) for c in spec["controls"]][:14]}))
        # ---- a'. EpanetSimulator leaves to_dict (and the run-time state) alone; two runs agree
        wn.reset_initial_values()
        Rb = state_dump(wn, self.written)
        db = to_dict_norm(wn)
        e1 = self._epanet(wn)
        de = to_dict_norm(wn)
        out += self._dict_failures(db, de, "EpanetSimulator", spec)
        self.count("epanet:" + e1[0] + (":" + e1[1] if e1[0] == "raised" else ""))
        Ra = state_dump(wn, self.written)
        for (c, f), items in dump_diff(Rb, Ra).items():
            self.count("epanet-run-changes:%s.%s" % (c, f))
        if e1[0] == "ok":
            e2 = self._epanet(wn, trace=False)
            dee = cmp_outcomes(e1, e2)
            self.count("epanet-rerun:" + ("same" if dee is None else "differs"))
            if dee is not None:
                out.append(("epanet-rerun-differs", "two consecutive EpanetSimulator runs of the same model differ: " + dee, {}))
            # WNTRSimulator after an EPANET run (no reset in between) still reproduces
            r4 = self._run(wn, spec)
            d4 = self._diff(ref, r4, spec, "after-epanet")
            self.count("wntr-after-epanet:" + ("same" if d4 is None else "differs"))
            if d4 is not None:
                out.append(("rerun-differs-after-EpanetSimulator", "a WNTRSimulator run after an EpanetSimulator run of the reset model differs: " + d4, {}))
        # ---- f. EpanetSimulator after a WNTRSimulator run (no reset) == EpanetSimulator on the model reloaded from the dictionary
        setting_ctl = any(a.get("attr") == "setting" for c in spec.get("controls", [])
                          for a in ([c["action"]] if "action" in c else c["then"] + c["else"]))
        if force or spec.get("epanet_after_wntr") or setting_ctl:
            ww = build_model(wntr, spec, fresh=False)
            self._run(ww, spec)
            wj, same = self._reloaded(ww)
            if wj is None or not same:
                self.count("epanet-after-wntr:reload-not-equal(C13)")
            else:
                eA = self._epanet(ww, trace=False)
                eB = self._epanet(wj, trace=False)
                if eA[0] != "ok" or eB[0] != "ok":
                    self.count("epanet-after-wntr:not-judged")
                else:
                    dd = cmp_outcomes(eA, eB)
                    self.count("epanet-after-wntr:" + ("same" if dd is None else "differs"))
                    if dd is not None:
                        out.append(("epanet-after-wntr-differs-from-reloaded",
                                    "EpanetSimulator on a model object that WNTRSimulator has just simulated (no reset) differs from "
                                    "EpanetSimulator on the model re-created from its dictionary (equal to_dict): " + dd, {}))
        # ---- tie: what write_inpfile really reads is inside Gen.inpWriterReads
        if self.inp_by_cls:
            wn.reset_initial_values()
            with ReadTrace(wntr, wn) as rt:
                try:
                    with quiet_fds():
                        wntr.network.write_inpfile(wn, os.path.join(self.tmpdir, "rt.inp"), units=wn.options.hydraulic.inpfile_units)
                except Exception as ex:
                    self.count("inp-read-trace:writer-raises-" + type(ex).__name__)
            for slot, cands in rt.observed.items():
                if not any(read_covered((slot[0], f), self.inp_by_cls) for f in cands):
                    self.uncovered_inp_reads.setdefault(slot, "write_inpfile reads storage field %s.%s (as any of %s)" % (slot[0], slot[1], cands))
            for f in os.listdir(self.tmpdir):
                try:
                    os.remove(os.path.join(self.tmpdir, f))
                except OSError:
                    pass
        # ---- e. edit cycle: equal dictionaries => equal results also for a model object that was simulated BEFORE it was edited
        edits = spec.get("edits") or []
        head_pump = any(l["type"] == "pump" and l.get("pump_type") == "HEAD" for l in spec["net"]["links"])
        if edits and (force or spec.get("edit_cycle") or head_pump or self.nmodels % 2 == 0):
            for e in edits:
                self.count("edit:" + e["what"])
            d = self.edit_cycle(spec, edits, used=wn)   # wn has been simulated several times above; it is edited here, last
            if d is not None and self.edit_cycle(spec, []) is not None:
                # the already-simulated model differs from its reloaded twin even WITHOUT an edit: what the run left behind is the
                # cause (reported by the rerun oracles above), not the edit
                self.count("edit-cycle:differs-without-edit")
                if not out:
                    out.append(("used-model-differs-from-reloaded", "run; reset_initial_values; run differs from the run of the model "
                                "re-created from the simulated model's dictionary (equal to_dict): " + d, {}))
            elif d is not None:
                resp = [e for e in edits if len(edits) == 1 or self.edit_cycle(spec, [e]) is not None] or edits
                what = "+".join(sorted(set(e["what"] for e in resp)))
                out.append(("edited-model-differs-from-reloaded:" + what,
                            "run; edit %s through the public setter(s); reset_initial_values; run  differs from the run of the model re-created "
                            "from the edited model's own dictionary (equal to_dict): %s" % (what, d), {"edits": resp}))
        return out

    def _dict_failures(self, d0, d1, simname, spec):
        out = []
        seen = set()
        for (path, old, new) in dict_diff(d0, d1):
            cls, key = classify_dict_diff(d0, path)
            k = "to_dict-changed-after-%s:%s.%s" % (simname.split("+")[0], family([cls]), key)
            if k in seen:
                continue
            seen.add(k)
            out.append((k, "wn.to_dict() differs after %s at %s: %r -> %r" % (simname, path, old, new), {"where": path, "observed": new, "expected": old}))
        return out


def shrink(judge, spec, key):
    """drop controls / leaks / elements' optional features one at a time while the failure with `key` persists"""
    def fails(sp):
        try:
            return any(k == key for k, _, _ in judge.judge(sp, light=not key.startswith(("copy-", "epanet", "to_dict-changed-after-Epanet", "rerun-differs-after-Epanet"))))
        except Exception:
            return False

    cur = copy.deepcopy(spec)
    changed = True
    budget = 60
    while changed and budget > 0:
        changed = False
        for i in range(len(cur["controls"]) - 1, -1, -1):
            t = copy.deepcopy(cur)
            del t["controls"][i]
            budget -= 1
            if fails(t):
                cur, changed = t, True
        for nd in cur["net"]["nodes"]:
            if nd.get("leak"):
                t = copy.deepcopy(cur)
                for n2 in t["net"]["nodes"]:
                    if n2["name"] == nd["name"]:
                        del n2["leak"]
                budget -= 1
                if fails(t):
                    cur, changed = t, True
                    break
        for c in cur["controls"]:
            if c["kind"] == "rule" and (len(c["then"]) > 1 or c["else"]):
                t = copy.deepcopy(cur)
                for c2 in t["controls"]:
                    if c2 is not None and c2.get("name") == c.get("name") and c2["kind"] == "rule":
                        if len(c2["then"]) > 1:
                            c2["then"] = c2["then"][:1]
                        else:
                            c2["else"] = []
                        break
                budget -= 1
                if fails(t):
                    cur, changed = t, True
                    break
    return cur


def feature_key(spec):
    """class-level name of what is left after shrinking"""
    acts = set()
    kinds = set()
    for c in spec.get("controls", []):
        kinds.add(c["kind"])
        for a in ([c["action"]] if "action" in c else c["then"] + c["else"]):
            acts.add(a["attr"])
    leaks = any(n.get("leak") for n in spec["net"]["nodes"])
    parts = []
    if "base_speed" in acts:
        parts.append("base_speed-control")
    else:
        if acts:
            parts.append("+".join(sorted(acts)) + "-control")
        if "rule" in kinds:
            parts.append("rule")
    if leaks:
        parts.append("leak")
    return "+".join(parts) if parts else "no-controls"


# =================================================================================================== the check


class C11(Check):
    pid = "C11"
    level = "proof"
    prop_modules = ["WntrModel.Props.C11"]
    manifest = dict(
        category="proof",
        text="Frame argument in Lean (Model/Frame.lean, Props/C11.lean) over slot tables regenerated from the current source on every "
        "run (Gen/FrameC11.lean: what control actions and the simulator code paths can assign, what to_dict reads, what "
        "reset_initial_values re-assigns): a run is any sequence of writes inside `written`, so to_dict is invariant when "
        "written and toDictReads are disjoint, and run/reset/run reproduces when every written slot is re-assigned or run-initialised. EpanetSimulator's write-set on the "
        "model is extracted separately (Gen.writtenByEpanet = {Rule._name, WaterNetworkModel._inpfile}: epanet_write_set, epanet_run_preserves_definition for every write "
        "sequence, no exclusion). The full statements for WNTRSimulator are "
        "FALSE of the code (run_preserves_definition_counterexample, reset_restores_initial_counterexample: a base_speed control action writes a slot to_dict reads "
        "and reset does not restore); the theorems proved for every write sequence are the _partial ones excluding exactly the slots `definition_overlap` / "
        "`reset_missing_that_matters` decide on the regenerated tables (run_preserves_definition_partial, reset_restores_initial_partial, rerun_deterministic_partial). "
        "The real simulators are run on generated models (controls on status / setting / base_speed, rules, leaks, PDD): to_dict deep "
        "equality before/after WNTRSimulator and EpanetSimulator, reproduction of every results table over run/reset/run cycles (continuous tables at 1e-9 relative, statuses / time index / error codes exact), "
        "deepcopy and JSON-reloaded models, and every attribute write observed at run time must be inside the generated `written` table.",
        design_ref="DESIGN.md §5 C11",
        note="the completeness of the generated tables (every assignment a run performs is in `written`) is CHECKED by the run-time write "
        "trace on every generated model, not proved; `checkedIgnorable` (Control/Rule._which, HeadPump._curve_coeffs/_coeffs_curve_points) is shown by the translator (Gen.notReadBeforeWrite: never read / "
        "write-dominates-read protocol / key-guarded memo, evidence in the generated comment lines); `_condition._backtrack` is discharged by generated facts (Gen.backtrackKinds / presolveConditionClasses / backtrackConsumers / backtrackReaders, "
        "decided in backtrack_facts, with the And/Or short-circuit model of Lemmas/FrameBacktrack.lean); Reservoir._leak_status turned out to be real state "
        "(known finding, repair proposed); Rule._name is discharged by rule_name_facts (the INP writer assigns a nameless rule exactly its registry key, which to_dict already reports: Gen.ruleNameAssignedIsRegistryKey, "
        "toDictSubstitutesKeyForEmptyName); in-place mutation of containers is covered by Gen.mutatedInPlace (ast) + a deep container snapshot around every run (in_place_mutation_invisible_to_toDict); "
        "`assumedIgnorable` (WaterNetworkModel._inpfile only: written, not reset, not shown irrelevant because inpfile_units may be None) is a "
        "hypothesis of the Lean theorems that only the rerun oracle checks. Modelled, not verified: the numerical solver (equal stores give "
        "equal results is an assumption of the frame theorem; reruns agree to ~1e-13, compared at 1e-9 relative because evaluator.cpp orders "
        "unknowns by heap address); registries / OrderedSets mutated in place (observer lists) are not slots; tables are class-level "
        "over-approximations (hasattr reflection on a zoo model). Known: a base_speed control rewrites the pump definition; add_pump/add_valve "
        "do not initialise _user_status (fix proposed).",
        technique="Lean 4 frame theorems over translator-regenerated read/write tables + run-time write trace + differential reruns on the implementation",
    )
    rule = ("obligations: theorems of Props/C11.lean over Gen/FrameC11.lean. correspondence cases: one per generated model (directed "
            "scenarios + seeded random networks with controls); per model: to_dict before/after both simulators, run/reset/run (1e-9 relative, statuses exact), third "
            "cycle, deepcopy, JSON reload, write trace within `written`, fresh/reset/run+reset state dumps. distinct = distinct (network "
            "signature, feature set); non-trivial = the model has at least one control, rule or leak")
    trusted_base = ["translator harness/props/c11.py (ast of the simulator code paths / controls / reset_initial_values, reflection of to_dict on a zoo model)",
                    "recording __setattr__ wrappers see attribute assignments only (in-place container mutation is covered by the to_dict / rerun oracles, not by the trace)",
                    "EPANET 2.2 toolkit binary; scipy sparse solver (determinism is observed, not modelled)"]
    assumptions = ["a simulation is a function of the store: equal stores (all slots) give equal results",
                   "class-level tables: a slot stands for that field on every object of the concrete class"]

    def translate(self, ctx):
        tabs = build_tables()
        self.tabs = tabs
        w = tabs["writtenByActions"] + tabs["writtenBySim"]
        ctx.cov["tables"] = {k: len(tabs[k]) for k in ("writtenByActions", "writtenBySim", "toDictReads", "resetAssigns", "runInitialises")}
        ctx.cov["overlap_written_toDictReads"] = ["%s.%s" % s for s in overlap(w, tabs["toDictReads"])]
        ctx.cov["missing_written_resetAssigns"] = ["%s.%s" % s for s in missing(w, tabs["resetAssigns"])]
        ctx.cov["dropped_assignments"] = tabs["dropped"][:40]
        ctx.cov["tables"].update({k: len(tabs[k]) for k in ("notReadBeforeWrite", "writtenByEpanet")})
        ctx.cov["notReadBeforeWrite"] = ["%s.%s" % x for x in tabs["notReadBeforeWrite"]]
        ctx.cov["writtenByEpanet"] = ["%s.%s" % x for x in tabs["writtenByEpanet"]]
        ctx.cov["overlap_writtenByEpanet_toDictReads"] = ["%s.%s" % x for x in overlap(tabs["writtenByEpanet"], tabs["toDictReads"])]
        ctx.cov["tables"]["inpWriterReads"] = len(tabs["inpWriterReads"])
        ctx.cov["overlap_written_inpWriterReads"] = ["%s.%s" % x for x in overlap(w, tabs["inpWriterReads"])]
        ctx.cov["controlRegistration"] = [tabs["controlRegistrationOrder"], tabs["controlsRegisteredInInsertionOrder"], tabs["generatedControlSources"]]
        ctx.cov["mutatedInPlace"] = tabs["mutatedInPlaceWhy"]
        ctx.cov["ruleName"] = [tabs["ruleNameAssignedValue"], tabs["ruleNameAssignedIsRegistryKey"], tabs["toDictSubstitutesKeyForEmptyName"]]
        ctx.cov["backtrack_facts"] = {k: v for k, v in tabs["backtrack"].items()}
        ctx.cov["inpfileUnitsAlwaysPassed"] = tabs["inpfileUnitsAlwaysPassed"]
        ctx.cov["ruleNameReaders"] = tabs["ruleNameReaders"]
        ctx.cov["not_reset_decisions"] = {k: v for k, v in tabs["nrbwDecisions"].items()
                                          if tuple(k.split(".", 1)) in set(missing(w, tabs["resetAssigns"]))}
        vlib.write_if_changed(os.path.join(vlib.GEN, "FrameC11.lean"), gen_lean(tabs))

    # ---------------------------------------------------------------- static guard (what Props/C11.lean decides, mirrored)
    def _static_broken(self, tabs):
        w = tabs["writtenByActions"] + tabs["writtenBySim"]
        ri = set(tabs["runInitialises"])
        broken = []
        ov = [s for s in overlap(w, tabs["toDictReads"]) if s not in KNOWN_OVERLAP]
        if ov:
            where = {("%s.%s" % s): tabs["where"]["written"].get("%s.%s" % s, [])[:3] for s in ov}
            broken.append(Broken("proof", "Gen.written ∩ Gen.toDictReads grew",
                                 "slots a run can assign that to_dict reads: %s" % json.dumps(where, sort_keys=True)))
        if not tabs["controlsRegisteredInInsertionOrder"]:
            broken.append(Broken("proof", "the simulator no longer registers the model's controls in insertion order",
                                 "equal-priority controls firing together run in registration order; a reload renames simple controls, so any order "
                                 "derived from the registry NAMES differs between equal models: " + "; ".join(tabs["controlRegistrationEvidence"])))
        mo = overlap(tabs["mutatedInPlace"], tabs["toDictReads"])
        if mo:
            broken.append(Broken("proof", "Gen.mutatedInPlace ∩ Gen.toDictReads is not empty",
                                 "a simulator run mutates in place a container that to_dict reads: %s"
                                 % {("%s.%s" % x): tabs["mutatedInPlaceWhy"]["%s.%s" % x][:3] for x in mo}))
        if not tabs["ruleNameAssignedIsRegistryKey"] or not tabs["toDictSubstitutesKeyForEmptyName"]:
            broken.append(Broken("proof", "Rule._name: the INP writer no longer assigns exactly the registry key to a nameless rule (or to_dict no longer "
                                 "substitutes the key)", "; ".join(tabs["ruleNameEvidence"])))
        bf = tabs["backtrack"]
        kd = dict(bf["kinds"])
        ok_kinds = ("assignsAllPaths", "neverAssigns")
        bad1 = [c for c in bf["presolve"] if kd.get(c) not in ok_kinds]
        bad1 += [c for c in bf["feasTop"] if not (kd.get(c) in ok_kinds or (kd.get(c) == "composite" and all(kd.get(l) == "neverAssigns" for l in bf["feasLeaf"])))]
        if bad1:
            broken.append(Broken("proof", "backtrack: a presolve / feasibility condition class does not assign _backtrack on every path of evaluate()",
                                 "classes %s (kinds %s): the backtrack a presolve control reports may be left over from an earlier evaluation / run"
                                 % (bad1, {c: kd.get(c) for c in bad1})))
        bad2 = [r for r in bf["readers"] if not r[1]]
        if bad2:
            broken.append(Broken("proof", "backtrack: read without a preceding evaluate() on the same object", "readers %s" % bad2))
        exp = [v for v in bf["consumerCheckers"].values()]
        if len(bf["consumers"]) != 2 or sorted(exp) != ["self._feasibility_controls.check", "self._presolve_controls.check"] \
                or not any(h.startswith("assert ") for _, h in bf["consumers"]):
            broken.append(Broken("proof", "backtrack: the consumers of ControlChecker.check()[1] changed",
                                 "expected the presolve loop and the feasibility assert only, found %s (from %s)" % (bf["consumers"], bf["consumerCheckers"])))
        ir = [x for x in overlap(w, tabs["inpWriterReads"]) if x not in KNOWN_INP_READS_WRITTEN]
        if ir:
            where = {("%s.%s" % x): tabs["where"]["inpReads"].get("%s.%s" % x, [])[:3] for x in ir}
            broken.append(Broken("proof", "INP writer reads a run-time slot that is not in the known list (Gen.written ∩ Gen.inpWriterReads grew)",
                                 "the INP file EpanetSimulator writes would depend on what a previous run left behind: %s" % json.dumps(where, sort_keys=True)))
        for nm in ("notReadBeforeWrite", "writtenByEpanet"):
            extra = [x for x in tabs[nm] if x not in set(w)]
            if extra:
                broken.append(Broken("translator", "Gen.%s is not a subset of Gen.written" % nm, "slots %s" % extra))
        eo = [x for x in overlap(tabs["writtenByEpanet"], tabs["toDictReads"]) if x not in KNOWN_OVERLAP]
        if eo:
            broken.append(Broken("proof", "Gen.writtenByEpanet ∩ Gen.toDictReads grew", "slots %s" % eo))
        ms = [s for s in missing(w, tabs["resetAssigns"]) if s not in KNOWN_MISSING and s not in ri]
        if ms:
            where = {("%s.%s" % s): tabs["where"]["written"].get("%s.%s" % s, [])[:3] for s in ms}
            broken.append(Broken("proof", "Gen.written \\ Gen.resetAssigns grew",
                                 "slots a run can assign that reset_initial_values does not re-assign: %s" % json.dumps(where, sort_keys=True)))
        return broken

    def _cases(self, ctx, wide=False):
        for fn, item in vlib.corpus_items("C11"):
            yield ("corpus:" + fn, item["spec"])
        for nm, sp in scenario_specs(ctx.rng):
            yield ("scenario:" + nm, sp)
        n = (30 if ctx.quick else 450) if not wide else (120 if ctx.quick else 600)
        for i in range(n):
            yield ("gen%d" % i, gen_spec(ctx.rng, quick=ctx.quick, wide=wide or (i % 7 == 6)))

    def _evaluate(self, ctx, wide=False):
        wntr = vlib.import_wntr()
        if not hasattr(self, "tabs"):
            self.tabs = build_tables()
        tmpdir = os.path.join(vlib.BUILD, "c11-tmp-%d" % os.getpid())
        os.makedirs(tmpdir, exist_ok=True)
        J = Judge(wntr, self.tabs, tmpdir, ctx)
        failures = []
        seen_keys = {}
        shrunk = {}
        t0 = time.time()
        limit = (45 if ctx.quick else 780)  # wall budget of the case loop: directed cases first, random ones until the budget is used
        try:
            for label, sp in self._cases(ctx, wide):
                if time.time() - t0 > limit:
                    ctx.count("stopped-at-time-limit")
                    break
                feats = spec_features(sp)
                for f in feats:
                    ctx.count("feat:" + f)
                nontriv = any(f.startswith(("ctl:", "leak:")) for f in feats)
                ctx.case((G.spec_signature(sp["net"]), tuple(feats)), nontriv)
                try:
                    res = J.judge(sp)
                except vlib.Infra:
                    raise
                except Exception as e:
                    raise vlib.Infra("C11 oracle crashed on %s: %s\n%s" % (label, e, traceback.format_exc()[-1500:]))
                if len(ctx.samples) < 5:
                    ctx.sample({"case": label, "features": feats, "nodes": len(sp["net"]["nodes"]), "links": len(sp["net"]["links"]),
                                "controls": len(sp.get("controls", [])), "failures": [k for k, _, _ in res]})
                for key, what, extra in res:
                    full, small = key, sp
                    if key == "rerun-differs-after-reset":
                        # name the failure after the model FEATURE that causes it: shrink (once per feature combination)
                        fk = (key, feature_key(sp))
                        if fk not in shrunk:
                            small = shrink(J, sp, key)
                            shrunk[fk] = key + ":" + feature_key(small)
                        full = shrunk[fk]
                    elif key.startswith(("to_dict-changed", "reset-does-not-restore")) and key not in seen_keys:
                        small = shrink(J, sp, key)
                    if full in seen_keys:
                        ctx.count("failure-repeat:" + full)
                        continue
                    seen_keys[full] = True
                    failures.append(Failure(full, what, {"case": label, "spec": small, "oracle": key, "detail": extra,
                                                         "features": spec_features(small)}))
        finally:
            try:
                for f in os.listdir(tmpdir):
                    os.remove(os.path.join(tmpdir, f))
                os.rmdir(tmpdir)
            except OSError:
                pass
        ctx.cov["simulator_runs"] = ctx.cov.get("simulator_runs", 0) + J.nruns
        broken = []
        for slot, where in sorted(J.uncovered.items()):
            tab = "Gen.writtenByEpanet" if where.startswith("EpanetSimulator") else "Gen.written"
            broken.append(Broken("correspondence", "C11 write trace not covered by " + tab,
                                 "run-time assignment to slot %s.%s observed at %s; %s does not list it" % (slot[0], slot[1], where, tab)))
        for slot, where in sorted(J.uncovered_mut.items()):
            broken.append(Broken("correspondence", "in-place mutation of %s.%s not covered by Gen.written / Gen.mutatedInPlace" % slot,
                                 "the content of the container held by slot %s.%s changed during a %s run although no assignment to it was "
                                 "observed and the translator flags no in-place mutator for it" % (slot[0], slot[1], where)))
        for slot, where in sorted(J.uncovered_inp_reads.items()):
            broken.append(Broken("correspondence", "C11 INP writer read trace not covered by Gen.inpWriterReads",
                                 "%s; slot %s.%s is not in the static table (nor a path above / below it)" % (where, slot[0], slot[1])))
        for slot, where in sorted(J.uncovered_reads.items()):
            broken.append(Broken("correspondence", "C11 to_dict read trace not covered by Gen.toDictReads",
                                 "%s; slot %s.%s is not in the static table (nor a path above / below it)" % (where, slot[0], slot[1])))
        return failures, broken

    def correspondence(self, ctx):
        if not hasattr(self, "tabs"):
            self.tabs = build_tables()
        failures, broken = self._evaluate(ctx)
        broken = self._static_broken(self.tabs) + broken
        return failures, broken

    def search(self, ctx, broken):
        fs, _ = self._evaluate(ctx, wide=True)
        return fs

    def replay(self, ctx, path):
        wntr = vlib.import_wntr()
        r = json.load(open(path if os.path.isabs(path) else os.path.join(vlib.VERIF, path)))
        rp = r.get("replay", r)
        print(json.dumps({k: v for k, v in r.items() if k != "replay"}, indent=1)[:1500])
        if "spec" not in rp:
            print("replay: no model in the replay file (broken tie without a failing input)")
            return 0
        tabs = build_tables()
        tmpdir = os.path.join(vlib.BUILD, "c11-tmp-%d" % os.getpid())
        os.makedirs(tmpdir, exist_ok=True)
        try:
            res = Judge(wntr, tabs, tmpdir).judge(rp["spec"], third=True, force=True)
        finally:
            try:
                for f in os.listdir(tmpdir):
                    os.remove(os.path.join(tmpdir, f))
                os.rmdir(tmpdir)
            except OSError:
                pass
        want = rp.get("oracle") or r.get("key")
        hit = [(k, w) for k, w, _ in res if want is None or k == want or k == r.get("key") or (r.get("key") or "").startswith(k + ":")]
        for k, w, _ in res:
            print("  oracle: %s -- %s" % (k, w[:200]))
        print("replay: %s" % ("REPRODUCED " + hit[0][1][:300] if hit else "not reproduced on the current tree"))
        return 1 if hit else 0


if __name__ == "__main__":
    if len(sys.argv) > 1 and sys.argv[1] == "tables":
        tb = build_tables()
        print(gen_lean(tb))
        w = tb["writtenByActions"] + tb["writtenBySim"]
        print("sizes", {k: len(tb[k]) for k in ("writtenByActions", "writtenBySim", "toDictReads", "resetAssigns", "runInitialises")})
        print("overlap", overlap(w, tb["toDictReads"]))
        print("missing", missing(w, tb["resetAssigns"]))
    else:
        vlib.run_check(C11)
