"""C11 -- simulating never alters the model definition; reset + rerun reproduces; equal models give equal results.

Tie (T): `Gen/FrameC11.lean` is regenerated on every run from /repo's CURRENT source (Python `ast` + reflection on a populated
zoo model that holds one element of every concrete class):
  * `writtenByActions`  slots a ControlAction / _InternalControlAction can assign (attribute -> private field mapping of
                        ControlAction.__init__, the attribute names the simulators and the INP reader use, the internal attribute
                        literals of every _InternalControlAction(...) construction site in wntr/sim/core.py),
  * `writtenBySim`      every `X.attr = ...`, `X.attr op= ...`, `setattr(X, 'attr', ...)` of the simulator code paths
                        (wntr/sim/core.py, hydraulics.py, epanet.py, write_inpfile + the InpFile.write call closure, the run-time
                        methods of the control classes) whose X can be a network object,
  * `toDictReads`       storage fields behind every key `to_dict` emits (property getter -> storage by ast),
  * `resetAssigns`      storage fields `reset_initial_values` (and `control._reset()`) assigns,
  * `runInitialises`    written slots a run provably assigns before it reads them.
A Slot is (concrete class name, storage field); a write through a property is resolved to what the setter assigns
(`Pump.base_speed` -> `_speed_timeseries.base_value`).

Tie (C) + oracle on the REAL code, per generated model (seeded small networks from harness/gen_networks.py + controls, rules,
leaks, PDD added here):
  a. wn.to_dict() is deep-equal before / after WNTRSimulator.run_sim and EpanetSimulator.run_sim,
  b. run -> reset_initial_values -> run (and sometimes a third cycle) reproduces every results table EXACTLY,
  c. a deepcopy and a from_dict(to_dict) / JSON copy simulate to the same tables (exact / 1e-9 relative),
  d. every attribute write on a network object observed during the runs (recording `__setattr__` wrappers, removed afterwards)
     is covered by Gen.written; fresh == reset == run+reset on the written slots, slot by slot.

Tolerance decision (b, c): the unchanged WNTRSimulator is deterministic bit for bit on the same Python objects (same
dict/registry iteration order, same scipy/SuperLU calls), so run/reset/run and deepcopy comparisons are EXACT
(`np.array_equal`, NaN == NaN).  The dictionary / JSON copy rebuilds registries through the API; element order is kept, floats
travel as Python floats (exact), so it is compared exactly as well and falls back to 1e-9 relative only for the statement's
"up to floating-point noise" (counted as `copy:float-noise` in the histogram, never silently).
"""
import ast
import copy
import inspect
import json
import math
import os
import sys
import textwrap
import time
import traceback

sys.path.insert(0, os.path.dirname(os.path.dirname(os.path.abspath(__file__))))
sys.path.insert(0, os.path.dirname(os.path.abspath(__file__)))
import vlib
from vlib import BrokenTie, Broken, Failure, Check

ELEMENT_CLASSES = ["Junction", "Tank", "Reservoir", "Pipe", "HeadPump", "PowerPump",
                   "PRValve", "PSValve", "PBValve", "FCValve", "TCValve", "GPValve"]
NODE_CLASSES = ELEMENT_CLASSES[:3]
LINK_CLASSES = ELEMENT_CLASSES[3:]
PUMP_CLASSES = ["HeadPump", "PowerPump"]
VALVE_CLASSES = ELEMENT_CLASSES[6:]
CONTROL_CLASSES = ["Control", "Rule"]

# iterator methods of WaterNetworkModel -> concrete classes they yield
ITERATORS = {
    "nodes": NODE_CLASSES, "junctions": ["Junction"], "tanks": ["Tank"], "reservoirs": ["Reservoir"],
    "links": LINK_CLASSES, "pipes": ["Pipe"], "pumps": PUMP_CLASSES, "head_pumps": ["HeadPump"], "power_pumps": ["PowerPump"],
    "valves": VALVE_CLASSES, "prvs": ["PRValve"], "psvs": ["PSValve"], "pbvs": ["PBValve"], "fcvs": ["FCValve"],
    "tcvs": ["TCValve"], "gpvs": ["GPValve"], "controls": CONTROL_CLASSES,
    "patterns": ["Pattern"], "curves": ["Curve"], "sources": ["Source"],
}
GETTERS = {"get_node": NODE_CLASSES, "get_link": LINK_CLASSES, "get_control": CONTROL_CLASSES,
           "get_pattern": ["Pattern"], "get_curve": ["Curve"], "get_source": ["Source"]}
ABSTRACT = {"Node": NODE_CLASSES, "Link": LINK_CLASSES, "Pump": PUMP_CLASSES, "Valve": VALVE_CLASSES}
WN_NAMES = {"wn", "wnm", "model", "water_network", "self._wn", "self.wn", "self._model_wn"}

# control-class methods that are definition-time API, not run-time
CONTROL_DEF_METHODS = {"__init__", "__new__", "__getnewargs__", "_reset", "_compare", "update_condition", "update_then_actions",
                       "update_else_actions", "update_priority"}


# =================================================================================================== zoo model


def build_zoo(wntr):
    """a populated model with one element of every concrete class (+ pattern, curve, source, control, rule)"""
    wn = wntr.network.WaterNetworkModel()
    wn.add_pattern("p1", [1.0, 1.2, 0.8])
    wn.add_curve("hc", "HEAD", [(0.0, 40.0), (0.05, 30.0), (0.1, 10.0)])
    wn.add_curve("gc", "HEADLOSS", [(0.0, 0.0), (0.1, 5.0)])
    wn.add_reservoir("R1", base_head=50.0, head_pattern="p1")
    wn.add_tank("T1", elevation=30.0, init_level=3.0, min_level=0.5, max_level=6.0, diameter=8.0)
    for i in range(1, 9):
        wn.add_junction("J%d" % i, base_demand=0.002, demand_pattern="p1", elevation=1.0 * i)
    wn.add_pipe("P1", "J1", "J2", length=100.0, diameter=0.3, roughness=100.0)
    wn.add_pipe("P2", "J2", "T1", length=100.0, diameter=0.3, roughness=100.0)
    wn.add_pump("PUH", "R1", "J1", "HEAD", "hc")
    wn.add_pump("PUP", "R1", "J1", "POWER", 2000.0)
    for k, (vt, a, b) in enumerate([("PRV", "J2", "J3"), ("PSV", "J3", "J4"), ("PBV", "J4", "J5"), ("FCV", "J5", "J6"),
                                    ("TCV", "J6", "J7")]):
        wn.add_valve("V" + vt, a, b, diameter=0.2, valve_type=vt, initial_setting=5.0 if vt != "FCV" else 0.001)
    wn.add_valve("VGPV", "J7", "J8", diameter=0.2, valve_type="GPV", initial_setting="gc")
    wn.add_source("S1", "J1", "CONCEN", 1.0, "p1")
    ctl = wntr.network.controls
    act = ctl.ControlAction(wn.get_link("P1"), "status", wntr.network.LinkStatus.Closed)
    act2 = ctl.ControlAction(wn.get_link("P1"), "status", wntr.network.LinkStatus.Open)
    wn.add_control("c1", ctl.Control(ctl.ValueCondition(wn.get_node("T1"), "level", ">", 5.0), act))
    wn.add_control("r1", ctl.Rule(ctl.SimTimeCondition(wn, ">=", 3600.0), [act], [act2], priority=3, name="r1"))
    inst = {}
    for n, o in list(wn.nodes()) + list(wn.links()):
        inst.setdefault(type(o).__name__, o)
    missing = [c for c in ELEMENT_CLASSES if c not in inst]
    if missing:
        raise BrokenTie("zoo model has no instance of %s" % missing)
    inst["Control"] = wn.get_control("c1")
    inst["Rule"] = wn.get_control("r1")
    inst["Pattern"] = wn.get_pattern("p1")
    inst["Curve"] = wn.get_curve("hc")
    inst["Source"] = wn.get_source("S1")
    inst["WaterNetworkModel"] = wn
    return wn, inst


# =================================================================================================== ast helpers


def _read_src(rel):
    p = os.path.join(vlib.REPO, rel)
    try:
        with open(p) as f:
            return f.read()
    except OSError as e:
        raise BrokenTie("cannot read %s: %s" % (rel, e))


def _parse(rel):
    try:
        return ast.parse(_read_src(rel))
    except SyntaxError as e:
        raise BrokenTie("cannot parse %s: %s" % (rel, e))


def _func_ast(fn):
    """ast.FunctionDef of a python function object (from its current source)"""
    try:
        src = textwrap.dedent(inspect.getsource(fn))
        t = ast.parse(src)
    except (OSError, TypeError, SyntaxError) as e:
        raise BrokenTie("cannot read the source of %r: %s" % (fn, e))
    for n in t.body:
        if isinstance(n, (ast.FunctionDef, ast.AsyncFunctionDef)):
            return n
    raise BrokenTie("no function definition in the source of %r" % (fn,))


def _chain(node):
    """Attribute/Subscript/Name chain -> list of names, subscripts skipped: a.b[0].c -> ['a','b','c']; None if the root is
    not a Name (e.g. a call result)"""
    out = []
    while True:
        if isinstance(node, ast.Attribute):
            out.append(node.attr)
            node = node.value
        elif isinstance(node, ast.Subscript):
            node = node.value
        elif isinstance(node, ast.Name):
            out.append(node.id)
            return out[::-1]
        else:
            return None


def _always_raises(fn_node):
    """the function body (docstring aside) starts with `raise`"""
    body = [s for s in fn_node.body if not (isinstance(s, ast.Expr) and isinstance(s.value, ast.Constant))]
    return bool(body) and isinstance(body[0], ast.Raise)


class Resolver:
    """public attribute -> storage field(s), per concrete class, by ast of the property getter / setter"""

    def __init__(self, inst):
        self.inst = inst
        self._sc, self._gc = {}, {}

    def _prop(self, cls, attr):
        for k in cls.__mro__:
            if attr in k.__dict__:
                v = k.__dict__[attr]
                return v if isinstance(v, property) else None
        return None

    # ------------------------------------------------------------------ writes
    def setter_storage(self, cls, attr, depth=0):
        """storage fields assigned by `obj.attr = v` for an instance of cls; [] when the assignment raises"""
        key = (cls, attr)
        if key in self._sc:
            return self._sc[key]
        if depth > 4:
            raise BrokenTie("property setter recursion too deep at %s.%s" % (cls.__name__, attr))
        p = self._prop(cls, attr)
        if p is None:
            res = [attr]
        elif p.fset is None:
            res = []  # AttributeError: can't set
        else:
            fn = _func_ast(p.fset)
            if _always_raises(fn):
                res = []
            else:
                res = []
                for tgt, _ in _store_targets(fn):
                    ch = _chain(tgt)
                    if ch is None or ch[0] != "self":
                        continue
                    if len(ch) == 2:
                        res += self.setter_storage(cls, ch[1], depth + 1) if ch[1] != attr else [ch[1]]
                    elif len(ch) >= 3:
                        for root in self.getter_storage(cls, ch[1]):
                            res.append(root.split(".")[0] + "." + ch[2])
                if not res:
                    raise BrokenTie("setter of %s.%s assigns nothing the translator can see" % (cls.__name__, attr))
        res = sorted(set(res))
        self._sc[key] = res
        return res

    # ------------------------------------------------------------------ reads
    def getter_storage(self, cls, attr, depth=0):
        """storage fields read by `obj.attr`"""
        key = (cls, attr)
        if key in self._gc:
            return self._gc[key]
        if depth > 5:
            return [attr]
        p = self._prop(cls, attr)
        if p is None:
            v = None
            for k in cls.__mro__:
                if attr in k.__dict__:
                    v = k.__dict__[attr]
                    break
            if inspect.isfunction(v):
                self._gc[key] = []  # guard against recursion
                res = self.reads_of(cls, _func_ast(v), depth + 1)
            else:
                res = [attr]
        else:
            self._gc[key] = []
            res = self.reads_of(cls, _func_ast(p.fget), depth + 1)
        res = sorted(set(res))
        self._gc[key] = res
        return res

    def reads_of(self, cls, fn_node, depth=0):
        """storage paths behind every maximal `self.a.b` chain loaded in the function"""
        res = []
        seen_inner = set()
        for n in ast.walk(fn_node):
            if isinstance(n, ast.Call) and isinstance(n.func, ast.Attribute):
                ch = _chain(n.func)
                if ch and ch[0] == "self":
                    seen_inner.add(id(n.func))
                    if len(ch) == 2:
                        res += self.getter_storage(cls, ch[1], depth + 1)  # self.method()
                    else:
                        res += self._path(cls, ch[1:-1], depth)  # self.a.b.method() reads self.a.b
        # maximal chains: attribute nodes that are not the .value of another attribute/subscript chain
        parents = {}
        for n in ast.walk(fn_node):
            for c in ast.iter_child_nodes(n):
                parents[id(c)] = n
        for n in ast.walk(fn_node):
            if not isinstance(n, ast.Attribute) or id(n) in seen_inner:
                continue
            par = parents.get(id(n))
            if isinstance(par, ast.Attribute) and par.value is n:
                continue
            if isinstance(par, ast.Subscript) and par.value is n:
                pp = parents.get(id(par))
                if isinstance(pp, (ast.Attribute,)) and pp.value is par:
                    continue
            ch = _chain(n)
            if ch and ch[0] == "self" and len(ch) >= 2:
                res += self._path(cls, ch[1:], depth)
        return res

    def _path(self, cls, names, depth):
        roots = self.getter_storage(cls, names[0], depth + 1)
        if len(names) == 1:
            return list(roots)
        out = []
        for r in roots:
            out.append(r if "." in r else r + "." + names[1])
        return out


def _store_targets(fn_node):
    """(target expression, statement) for every attribute store in the function: Assign, AugAssign, AnnAssign, for-targets,
    with-as, and setattr(X, 'const', v) (returned as a synthetic Attribute)"""
    out = []
    for n in ast.walk(fn_node):
        tgts = []
        if isinstance(n, ast.Assign):
            tgts = n.targets
        elif isinstance(n, (ast.AugAssign, ast.AnnAssign)):
            tgts = [n.target]
        elif isinstance(n, (ast.For, ast.AsyncFor)):
            tgts = [n.target]
        elif isinstance(n, ast.withitem) and n.optional_vars is not None:
            tgts = [n.optional_vars]
        for t in tgts:
            for y in ast.walk(t):
                if isinstance(y, ast.Attribute) and isinstance(y.ctx, ast.Store):
                    out.append((y, n))
                elif isinstance(y, ast.Subscript) and isinstance(y.ctx, ast.Store):
                    # x.a[i] = v / x.a.b[i] = v mutates what x.a holds
                    inner = y.value
                    if isinstance(inner, (ast.Attribute, ast.Subscript)) and _chain(inner) and len(_chain(inner)) >= 2:
                        if isinstance(inner, ast.Attribute):
                            out.append((inner, n))
        if isinstance(n, ast.Call) and isinstance(n.func, ast.Name) and n.func.id == "setattr" and len(n.args) >= 2:
            if isinstance(n.args[1], ast.Constant) and isinstance(n.args[1].value, str):
                out.append((ast.Attribute(value=n.args[0], attr=n.args[1].value, ctx=ast.Store()), n))
            else:
                out.append((("dynamic-setattr", n.args[0], n.args[1]), n))
    return out


# =================================================================================================== WRITTEN


class WriteScanner:
    """collects the attribute stores of a set of functions and resolves them to slots"""

    def __init__(self, wntr, inst, resolver):
        self.wntr, self.inst, self.R = wntr, inst, resolver
        self.slots = {}  # slot -> set of "file:function:line"
        self.dropped = {}  # text -> why
        self.nself = 0

    def add(self, cls, field, where):
        self.slots.setdefault((cls, field), set()).add(where)

    def classes_with(self, attr, among=None):
        out = []
        for c in (among or (ELEMENT_CLASSES + CONTROL_CLASSES + ["Pattern", "Curve", "Source", "WaterNetworkModel"])):
            o = self.inst.get(c)
            if o is None:
                continue
            try:
                has = hasattr(o, attr)
            except Exception:
                has = True
            if has or attr in getattr(o, "__dict__", {}):
                out.append(c)
        return out

    def _cls_obj(self, name):
        return type(self.inst[name])

    # -------------------------------------------------------------- variable typing inside one function
    def _env(self, fn, self_cls):
        """bindings of local names: list of (name, what, line, scope_end) with what = list of concrete class names | 'wn' |
        'fresh'; `lookup(name, line)` picks the latest binding before the line (loop variables only inside their loop)"""
        binds = []
        for a in fn.args.args:
            if a.arg in ("wn", "wnm", "water_network"):
                binds.append((a.arg, "wn", 0, None))
        for n in ast.walk(fn):
            if isinstance(n, (ast.For, ast.comprehension)):
                it, tg = n.iter, n.target
                cl = self._iter_classes(it)
                if cl is not None and isinstance(tg, ast.Tuple) and len(tg.elts) == 2 and isinstance(tg.elts[1], ast.Name):
                    if isinstance(n, ast.For):
                        binds.append((tg.elts[1].id, sorted(set(cl)), n.lineno, n.end_lineno))
                    else:
                        binds.append((tg.elts[1].id, sorted(set(cl)), getattr(it, "lineno", 0), getattr(it, "end_lineno", None)))
                elif isinstance(n, ast.For):
                    for m in ast.walk(tg):
                        if isinstance(m, ast.Name):
                            binds.append((m.id, None, n.lineno, n.end_lineno))  # unknown objects
            if isinstance(n, ast.Assign) and len(n.targets) == 1 and isinstance(n.targets[0], ast.Name):
                var, v = n.targets[0].id, n.value
                what = None
                if isinstance(v, ast.Call):
                    f = v.func
                    if isinstance(f, ast.Attribute) and f.attr in GETTERS:
                        what = list(GETTERS[f.attr])
                    elif (isinstance(f, ast.Name) and f.id[:1].isupper()) or (isinstance(f, ast.Attribute) and f.attr[:1].isupper()):
                        what = "fresh"  # X = SomeClass(...)
                    elif isinstance(f, ast.Call) and isinstance(f.func, ast.Name) and f.func.id == "type":
                        what = "fresh"  # X = type(obj)(...)
                elif isinstance(v, ast.Subscript) and isinstance(v.value, ast.Attribute) and v.value.attr in ("links", "nodes"):
                    what = list(LINK_CLASSES if v.value.attr == "links" else NODE_CLASSES)  # wn.links[name]
                elif isinstance(v, ast.Attribute) and _chain(v) and ".".join(_chain(v)) in WN_NAMES:
                    what = "wn"
                binds.append((var, what, n.lineno, None))

        def lookup(name, line):
            best = None
            for (nm, what, l0, l1) in binds:
                if nm != name or l0 > line:
                    continue
                if l1 is not None and line > l1:
                    continue
                if best is None or l0 >= best[1]:
                    best = (what, l0)
            return best[0] if best else None

        return lookup

    def _iter_classes(self, it):
        """classes yielded by `wn.pipes()`, `self._wn.nodes(Junction)`, itertools.chain(...) of those"""
        if isinstance(it, ast.Call) and isinstance(it.func, ast.Attribute) and it.func.attr in ITERATORS:
            if it.args and isinstance(it.args[0], (ast.Name, ast.Attribute)):
                nm = it.args[0].id if isinstance(it.args[0], ast.Name) else it.args[0].attr
                if nm in ELEMENT_CLASSES:
                    return [nm]
                if nm in ABSTRACT:
                    return list(ABSTRACT[nm])
                raise BrokenTie("iterator %s restricted to an unknown class %s" % (ast.unparse(it), nm))
            return list(ITERATORS[it.func.attr])
        if isinstance(it, ast.Call) and isinstance(it.func, ast.Attribute) and it.func.attr == "chain":
            out = []
            for a in it.args:
                c = self._iter_classes(a)
                if c is None:
                    return None
                out += c
            return out
        return None

    # -------------------------------------------------------------- scanning
    def scan_function(self, fn, where, self_kind, self_classes=None, guards_for=None):
        """self_kind: 'internal' (simulator / solver object: self.x dropped), 'wn' (method of WaterNetworkModel),
        'element' (method of an element / control class: self.x is a slot of self_classes)"""
        env = self._env(fn, self_kind)
        isinst = _isinstance_guards(fn)
        for tgt, stmt in _store_targets(fn):
            line = getattr(stmt, "lineno", 0)
            w = "%s:%d" % (where, line)
            if isinstance(tgt, tuple):  # dynamic setattr: handled by the action tables when it is one of the action classes
                _, xo, an = tgt
                if self_kind == "action":
                    continue
                raise BrokenTie("setattr with a computed attribute name at %s: %s" % (w, ast.unparse(stmt)[:120]))
            ch = _chain(tgt)
            if ch is None:
                # target object is a call result etc.: X unknown -> every class that has the attribute
                self._generic(tgt.attr, None, w, ast.unparse(tgt))
                continue
            root = ch[0]
            text = ".".join(ch)
            # --- self.<...>
            if root == "self":
                if len(ch) == 2:
                    if self_kind in ("internal", "action"):
                        self.nself += 1
                        continue
                    if self_kind == "wn":
                        self._wn_field(ch[1:], w)
                        continue
                    if self_kind == "element":
                        for c in self_classes:
                            for f in self.R.setter_storage(self._cls_obj(c), ch[1]) if c in self.inst and c in ELEMENT_CLASSES else [ch[1]]:
                                self.add(c, f, w)
                        continue
                    if self_kind == "control":
                        for c, pre in self_classes:
                            self.add(c, pre + ch[1], w)
                        continue
                # self._wn.x..., self.wn.x
                if ".".join(ch[:2]) in WN_NAMES:
                    self._wn_field(ch[2:], w)
                    continue
                if self_kind == "wn":
                    # self.options.time.x = ..., self._node_reg.x = ...
                    self._wn_field(ch[1:], w)
                    continue
                if self_kind == "element":
                    for c in self_classes:
                        for r in self.R.getter_storage(self._cls_obj(c), ch[1]):
                            self.add(c, r.split(".")[0] + "." + ch[2], w)
                    continue
                if self_kind == "control":
                    for c, pre in self_classes:
                        self.add(c, pre + ch[1] + "." + ch[2], w)
                    continue
                # self.<internal>.<attr> = ...: the internal object may HOLD a network object (self._pump.x = ...)
                self._generic(ch[-1], None, w, text, via=ch[1:-1])
                continue
            # --- wn.<...>
            what = env(root, line)
            if what == "wn" or root in WN_NAMES:
                self._wn_field(ch[1:], w)
                continue
            if what == "fresh":
                self.dropped[text] = "object created in the same function (%s)" % w
                continue
            among = what if isinstance(what, list) else None
            g = isinst.get((root, line))
            if g:
                among = [c for c in (among or ELEMENT_CLASSES) if c in g]
            self._generic(ch[1], among, w, text, rest=ch[2:])

    def _wn_field(self, names, w):
        if not names:
            return
        if names[0] in ("options", "_options"):
            if len(names) == 1:
                self.add("WaterNetworkModel", "_options", w)
            else:
                self.add("Options", ".".join(names[1:]), w)
            return
        wncls = self._cls_obj("WaterNetworkModel")
        if len(names) == 1:
            for f in self.R.setter_storage(wncls, names[0]):
                self.add("WaterNetworkModel", f, w)
        else:
            for r in self.R.getter_storage(wncls, names[0]):
                self.add("WaterNetworkModel", r.split(".")[0] + "." + names[1], w)

    def _generic(self, attr, among, w, text, rest=(), via=()):
        cands = self.classes_with(attr, among)
        if not cands:
            self.dropped[text] = "no network / control / options class has attribute %r (%s)" % (attr, w)
            return
        for c in cands:
            co = self._cls_obj(c)
            if rest:
                for r in self.R.getter_storage(co, attr):
                    self.add(c, r.split(".")[0] + "." + rest[0], w)
            else:
                st = self.R.setter_storage(co, attr)
                if not st:
                    self.dropped[text + " on " + c] = "assignment raises (read-only / deprecated property) (%s)" % w
                for f in st:
                    self.add(c, f, w)


def _isinstance_guards(fn):
    """(var, line) -> set of concrete classes, for statements inside `if isinstance(var, C):` bodies"""
    out = {}

    def classes_of(node):
        names = []
        for e in (node.elts if isinstance(node, ast.Tuple) else [node]):
            nm = e.id if isinstance(e, ast.Name) else (e.attr if isinstance(e, ast.Attribute) else None)
            if nm in ELEMENT_CLASSES:
                names.append(nm)
            elif nm in ABSTRACT:
                names += ABSTRACT[nm]
            else:
                return None
        return names

    for n in ast.walk(fn):
        if isinstance(n, ast.If):
            t = n.test
            if (isinstance(t, ast.Call) and isinstance(t.func, ast.Name) and t.func.id == "isinstance" and len(t.args) == 2
                    and isinstance(t.args[0], ast.Name)):
                cl = classes_of(t.args[1])
                if cl is not None:
                    for s in n.body:
                        for m in ast.walk(s):
                            if hasattr(m, "lineno"):
                                out[(t.args[0].id, m.lineno)] = set(cl)
    return out


def _functions_of(tree):
    """(qualified name, FunctionDef, enclosing class name or None) for every function in a module (nested included once)"""
    out = []

    def visit(body, prefix, cls):
        for n in body:
            if isinstance(n, ast.ClassDef):
                visit(n.body, prefix + n.name + ".", n.name)
            elif isinstance(n, (ast.FunctionDef, ast.AsyncFunctionDef)):
                out.append((prefix + n.name, n, cls))

    visit(tree.body, "", None)
    return out


def _class_bases(tree):
    return {n.name: [(b.id if isinstance(b, ast.Name) else (b.attr if isinstance(b, ast.Attribute) else None)) for b in n.bases]
            + [a.id for b in n.bases if isinstance(b, ast.Call) for a in b.args if isinstance(a, ast.Name)]
            for n in ast.walk(tree) if isinstance(n, ast.ClassDef)}


def _derives(bases, cls, root):
    seen = set()
    todo = [cls]
    while todo:
        c = todo.pop()
        if c == root:
            return True
        if c in seen:
            continue
        seen.add(c)
        todo += [b for b in bases.get(c, []) if b]
    return False


def _closure_in_module(tree, start_names):
    """functions of the module reachable (by bare / attribute call NAME) from the start functions"""
    fns = _functions_of(tree)
    byname = {}
    for q, n, c in fns:
        byname.setdefault(n.name, []).append((q, n, c))
    todo = list(start_names)
    seen = []
    while todo:
        nm = todo.pop()
        for q, n, c in byname.get(nm, []):
            if q in [s[0] for s in seen]:
                continue
            seen.append((q, n, c))
            for m in ast.walk(n):
                if isinstance(m, ast.Call):
                    f = m.func
                    cn = f.id if isinstance(f, ast.Name) else (f.attr if isinstance(f, ast.Attribute) else None)
                    if cn in byname:
                        todo.append(cn)
                    if cn == "str" or cn == "format":
                        todo.append("__str__")
    return seen


def control_action_tables(wntr, inst, R):
    """(slots, notes): what ControlAction / _InternalControlAction.run_control_action can assign"""
    slots, notes = {}, []
    ctree = _parse("wntr/network/controls.py")
    fns = {q: n for q, n, c in _functions_of(ctree)}
    for q in ("ControlAction.__init__", "ControlAction.run_control_action", "_InternalControlAction.__init__",
              "_InternalControlAction.run_control_action"):
        if q not in fns:
            raise BrokenTie("wntr/network/controls.py has no %s" % q)
    # --- run_control_action must be `setattr(self._target_obj, self.<F>, self._value)`
    def dyn_field(fn, q):
        found = None
        for tgt, stmt in _store_targets(fn):
            if isinstance(tgt, tuple):
                _, xo, an = tgt
                if ast.unparse(xo) != "self._target_obj" or not (isinstance(an, ast.Attribute) and ast.unparse(an.value) == "self"):
                    raise BrokenTie("%s: setattr target not of the form setattr(self._target_obj, self.<field>, ...): %s" % (q, ast.unparse(stmt)))
                if found and found != an.attr:
                    raise BrokenTie("%s uses two different attribute-name fields" % q)
                found = an.attr
            else:
                ch = _chain(tgt)
                if ch and ch[0] == "self" and len(ch) == 2:
                    continue
                raise BrokenTie("%s assigns %s: not understood by the translator" % (q, ast.unparse(tgt)))
        if not found:
            raise BrokenTie("%s performs no setattr(self._target_obj, ...)" % q)
        return found

    pf = dyn_field(fns["ControlAction.run_control_action"], "ControlAction.run_control_action")
    inf = dyn_field(fns["_InternalControlAction.run_control_action"], "_InternalControlAction.run_control_action")
    # --- ControlAction.__init__: self.<pf> = attribute ; if attribute == 'status': self.<pf> = '_user_status' ...
    init = fns["ControlAction.__init__"]
    argn = [a.arg for a in init.args.args]
    if len(argn) < 3:
        raise BrokenTie("ControlAction.__init__ signature changed: %s" % argn)
    attr_arg = argn[2]
    mapping, identity = {}, False

    def walk_if(node):
        t = node.test
        if not (isinstance(t, ast.Compare) and len(t.ops) == 1 and isinstance(t.ops[0], (ast.Eq, ast.In))
                and isinstance(t.left, ast.Name) and t.left.id == attr_arg):
            return False
        keys = []
        comp = t.comparators[0]
        if isinstance(comp, ast.Constant) and isinstance(comp.value, str):
            keys = [comp.value]
        elif isinstance(comp, (ast.List, ast.Tuple, ast.Set)) and all(isinstance(e, ast.Constant) for e in comp.elts):
            keys = [e.value for e in comp.elts]
        else:
            return False
        for s in node.body:
            if (isinstance(s, ast.Assign) and len(s.targets) == 1 and ast.unparse(s.targets[0]) == "self." + pf):
                if isinstance(s.value, ast.Constant) and isinstance(s.value.value, str):
                    for k in keys:
                        mapping[k] = s.value.value
                else:
                    raise BrokenTie("ControlAction.__init__: %s is not a string literal" % ast.unparse(s))
        for o in node.orelse:
            if isinstance(o, ast.If):
                if not walk_if(o):
                    raise BrokenTie("ControlAction.__init__: branch test not understood: %s" % ast.unparse(o.test))
            elif isinstance(o, ast.Assign) and ast.unparse(o.targets[0]) == "self." + pf:
                raise BrokenTie("ControlAction.__init__: else-branch assignment of %s not understood" % pf)
        return True

    for s in init.body:
        if isinstance(s, ast.Assign) and len(s.targets) == 1 and ast.unparse(s.targets[0]) == "self." + pf:
            if isinstance(s.value, ast.Name) and s.value.id == attr_arg:
                identity = True
            else:
                raise BrokenTie("ControlAction.__init__: default of %s is not the attribute argument: %s" % (pf, ast.unparse(s)))
        elif isinstance(s, ast.If):
            touches = any(isinstance(m, ast.Attribute) and m.attr == pf and isinstance(m.ctx, ast.Store) for m in ast.walk(s))
            if touches and not walk_if(s):
                raise BrokenTie("ControlAction.__init__: cannot read the attribute -> private attribute mapping: %s" % ast.unparse(s.test))
    if not identity:
        raise BrokenTie("ControlAction.__init__ no longer initialises %s with the attribute name" % pf)
    if not mapping:
        raise BrokenTie("ControlAction.__init__: empty attribute -> private attribute mapping")
    # --- attribute names in use: the mapping's keys, string comparisons with target_attr in the simulators, and the
    #     literal second argument of every ControlAction(...) construction in the simulators / INP reader
    names = {k: {"ControlAction.__init__ mapping"} for k in mapping}
    internal = {}
    for rel in ("wntr/sim/core.py", "wntr/sim/epanet.py", "wntr/sim/hydraulics.py", "wntr/epanet/io.py", "wntr/network/elements.py",
                "wntr/network/model.py", "wntr/network/controls.py"):
        t = _parse(rel)
        for n in ast.walk(t):
            if isinstance(n, ast.Compare) and len(n.ops) == 1 and isinstance(n.ops[0], (ast.Eq, ast.NotEq)):
                sides = [n.left, n.comparators[0]]
                nm = [s for s in sides if isinstance(s, ast.Name) and s.id in ("target_attr", "attr", "attribute")]
                cs = [s for s in sides if isinstance(s, ast.Constant) and isinstance(s.value, str)]
                if nm and cs and rel.startswith("wntr/sim/") and nm[0].id == "target_attr":
                    names.setdefault(cs[0].value, set()).add("%s:%d compares target_attr" % (rel, n.lineno))
            if isinstance(n, ast.Call):
                f = n.func
                fn_name = f.id if isinstance(f, ast.Name) else (f.attr if isinstance(f, ast.Attribute) else None)
                if fn_name == "ControlAction" and len(n.args) >= 2:
                    a = n.args[1]
                    if isinstance(a, ast.Constant) and isinstance(a.value, str):
                        names.setdefault(a.value, set()).add("%s:%d ControlAction(...)" % (rel, n.lineno))
                    elif rel.startswith("wntr/sim/"):
                        raise BrokenTie("%s:%d ControlAction with a computed attribute name: %s" % (rel, n.lineno, ast.unparse(n)[:100]))
                if fn_name == "_InternalControlAction":
                    a = n.args[1] if len(n.args) >= 2 else next((k.value for k in n.keywords if k.arg == "internal_attribute"), None)
                    if isinstance(a, ast.Constant) and isinstance(a.value, str):
                        internal.setdefault(a.value, set()).add("%s:%d" % (rel, n.lineno))
                    else:
                        raise BrokenTie("%s:%d _InternalControlAction with a computed internal attribute: %s" % (rel, n.lineno, ast.unparse(n)[:100]))
    if not internal:
        raise BrokenTie("no _InternalControlAction(...) construction site found in the simulators")
    for a, why in sorted(names.items()):
        priv = mapping.get(a, a)
        hit = False
        for c in ELEMENT_CLASSES:
            o = inst[c]
            if not hasattr(o, a):  # ControlAction.__init__ refuses
                continue
            st = R.setter_storage(type(o), priv)
            if not st:
                notes.append("ControlAction(%s, %r): setattr(%r) raises -- nothing written" % (c, a, priv))
            for f in st:
                slots.setdefault((c, f), set()).add("ControlAction %r -> %r (%s)" % (a, priv, "; ".join(sorted(why))[:80]))
                hit = True
        if not hit:
            notes.append("ControlAction attribute %r: no element class accepts it" % a)
    for a, why in sorted(internal.items()):
        hit = False
        for c in ELEMENT_CLASSES:
            o = inst[c]
            if not hasattr(o, a):
                continue
            for f in R.setter_storage(type(o), a):
                slots.setdefault((c, f), set()).add("_InternalControlAction %r (%s)" % (a, sorted(why)[0]))
                hit = True
        if not hit:
            raise BrokenTie("_InternalControlAction attribute %r: no element class has it" % a)
    return slots, notes, mapping, sorted(names), sorted(internal)


def sim_write_tables(wntr, inst, R):
    S = WriteScanner(wntr, inst, R)
    # 1. the simulator modules: every function
    for rel in ("wntr/sim/core.py", "wntr/sim/hydraulics.py", "wntr/sim/epanet.py"):
        t = _parse(rel)
        fns = _functions_of(t)
        if not fns:
            raise BrokenTie("%s defines no functions" % rel)
        for q, n, c in fns:
            S.scan_function(n, "%s:%s" % (rel.split("wntr/")[1], q), "internal")
    # 2. EpanetSimulator.run_sim -> write_inpfile -> InpFile.write -> _write_* (call closure inside wntr/epanet/io.py)
    t = _parse("wntr/network/io.py")
    f = [n for q, n, c in _functions_of(t) if q == "write_inpfile"]
    if not f:
        raise BrokenTie("wntr/network/io.py has no write_inpfile")
    S.scan_function(f[0], "network/io.py:write_inpfile", "internal")
    t = _parse("wntr/epanet/io.py")
    cl = _closure_in_module(t, ["write"])
    if not any(q == "InpFile.write" for q, n, c in cl):
        raise BrokenTie("wntr/epanet/io.py has no InpFile.write")
    for q, n, c in cl:
        if c in ("InpFile", "_EpanetRule") or c is None:
            if q.split(".")[-1].startswith("_read") or q.split(".")[-1] in ("read",):
                continue
            S.scan_function(n, "epanet/io.py:%s" % q, "internal")
    # 3. run-time methods of the control / condition / action classes
    t = _parse("wntr/network/controls.py")
    bases = _class_bases(t)
    for q, n, c in _functions_of(t):
        if c is None or n.name in CONTROL_DEF_METHODS:
            continue
        if any(isinstance(d, ast.Name) and d.id in ("classmethod", "staticmethod") for d in n.decorator_list):
            continue
        if _derives(bases, c, "ControlBase"):
            S.scan_function(n, "controls.py:%s" % q, "control", [(k, "") for k in CONTROL_CLASSES])
        elif _derives(bases, c, "ControlCondition"):
            S.scan_function(n, "controls.py:%s" % q, "control", [(k, "_condition.") for k in CONTROL_CLASSES])
        elif _derives(bases, c, "BaseControlAction"):
            S.scan_function(n, "controls.py:%s" % q, "action")
        else:
            S.scan_function(n, "controls.py:%s" % q, "internal")
    # 4. element methods the simulators call that assign to self (found by name: any method of an element class called from
    #    the simulator modules, except property access)
    called = set()
    for rel in ("wntr/sim/core.py", "wntr/sim/hydraulics.py", "wntr/sim/epanet.py", "wntr/sim/models/param.py",
                "wntr/sim/models/constraint.py", "wntr/network/controls.py"):
        for n in ast.walk(_parse(rel)):
            if isinstance(n, ast.Call) and isinstance(n.func, ast.Attribute):
                called.add(n.func.attr)
    et = _parse("wntr/network/elements.py")
    bt = _parse("wntr/network/base.py")
    for tree, rel in ((et, "elements.py"), (bt, "base.py")):
        bases = dict(_class_bases(et))
        bases.update(_class_bases(bt))
        for q, n, c in _functions_of(tree):
            if c is None or n.name not in called or n.name.startswith("__") or n.name in ("add_leak", "remove_leak", "add_outage",
                                                                                           "remove_outage", "add_demand",
                                                                                           "add_fire_fighting_demand",
                                                                                           "remove_fire_fighting_demand"):
                continue
            if any(isinstance(d, ast.Attribute) and d.attr == "setter" for d in n.decorator_list):
                continue
            conc = [k for k in ELEMENT_CLASSES if _derives(bases, k, c)]
            if conc:
                S.scan_function(n, "%s:%s" % (rel, q), "element", conc)
            elif c in ("TimeSeries", "Pattern", "Curve", "Demands"):
                for tgt, stmt in _store_targets(n):
                    if not isinstance(tgt, tuple) and _chain(tgt) and _chain(tgt)[0] == "self":
                        raise BrokenTie("%s.%s (called by the simulators) assigns %s: nested storage write not modelled"
                                        % (c, n.name, ast.unparse(tgt)))
    return S


# =================================================================================================== TO_DICT READS


def to_dict_reads(wntr, wn, inst, R):
    slots = {}

    def add(c, f, why):
        slots.setdefault((c, f), set()).add(why)

    nested_props = {}
    for c in ELEMENT_CLASSES + ["Pattern", "Curve", "Source"]:
        o = inst[c]
        try:
            d = o.to_dict()
        except Exception as e:
            raise BrokenTie("%s.to_dict() raises on the zoo instance: %s: %s" % (c, type(e).__name__, e))
        if c in ELEMENT_CLASSES:
            for k in d:
                if not hasattr(o, k):
                    raise BrokenTie("%s.to_dict() emits key %r that is not an attribute" % (c, k))
                for f in R.getter_storage(type(o), k):
                    add(c, f, "key " + k)
                v = getattr(o, k)
                # nested containers (Demands -> TimeSeries): the public properties of the nested element class
                items = list(v) if hasattr(v, "to_list") else ([v] if hasattr(v, "to_dict") and not isinstance(v, dict) else [])
                roots = R.getter_storage(type(o), k)
                for it in (items[:1] if len(roots) == 1 else []):
                    for pn in dir(type(it)):
                        if pn.startswith("_") or not isinstance(getattr(type(it), pn, None), property):
                            continue
                        for f in R.getter_storage(type(o), k):
                            add(c, f.split(".")[0] + "." + pn, "key %s (nested %s.%s)" % (k, type(it).__name__, pn))
        else:
            # Pattern / Curve / Source: ast of their own to_dict
            fn = _func_ast(type(o).to_dict)
            for f in R.reads_of(type(o), fn):
                add(c, f, "to_dict")
    # controls: ast of Rule.to_dict (Control inherits it)
    ctl = wntr.network.controls
    for c in CONTROL_CLASSES:
        o = inst[c]
        fn = _func_ast(type(o).to_dict)
        for f in R.reads_of(type(o), fn):
            add(c, f, "to_dict")
    # wn level: ast of wntr/network/io.py:to_dict
    t = _parse("wntr/network/io.py")
    f = [n for q, n, c in _functions_of(t) if q == "to_dict"]
    if not f:
        raise BrokenTie("wntr/network/io.py has no to_dict")
    argn = f[0].args.args[0].arg
    wncls = type(wn)
    got = False
    for n in ast.walk(f[0]):
        if isinstance(n, ast.Attribute) and isinstance(n.ctx, ast.Load):
            ch = _chain(n)
            if ch and ch[0] == argn and len(ch) >= 2:
                for r in R.getter_storage(wncls, ch[1]):
                    add("WaterNetworkModel", r, "io.to_dict reads wn.%s" % ch[1])
                    got = True
    if not got:
        raise BrokenTie("io.to_dict reads no attribute of its argument")
    # options: reflection
    od = wn.options.to_dict()
    for sec, v in od.items():
        if isinstance(v, dict):
            for k in v:
                add("Options", "%s.%s" % (sec, k), "options.to_dict")
        else:
            add("Options", sec, "options.to_dict")
    return slots


# =================================================================================================== RESET


def reset_assigns(wntr, wn, inst, R):
    S = WriteScanner(wntr, inst, R)
    fn = _func_ast(type(wn).reset_initial_values)
    S.scan_function(fn, "model.py:reset_initial_values", "wn")
    # control._reset(): ControlBase._reset / overriding _reset of control classes, and every condition's _reset
    calls_reset = any(isinstance(n, ast.Call) and isinstance(n.func, ast.Attribute) and n.func.attr == "_reset" for n in ast.walk(fn))
    if calls_reset:
        t = _parse("wntr/network/controls.py")
        bases = _class_bases(t)
        for q, n, c in _functions_of(t):
            if n.name != "_reset" or c is None:
                continue
            if _derives(bases, c, "ControlBase"):
                S.scan_function(n, "controls.py:%s" % q, "control", [(k, "") for k in CONTROL_CLASSES])
            elif _derives(bases, c, "ControlCondition"):
                S.scan_function(n, "controls.py:%s" % q, "control", [(k, "_condition.") for k in CONTROL_CLASSES])
    if not S.slots:
        raise BrokenTie("reset_initial_values assigns nothing the translator can see")
    return S


# =================================================================================================== runInitialises


def run_initialises(written):
    """written slots a run provably assigns before reading.  Criterion (ast, deliberately narrow): the slot is a
    WaterNetworkModel field assigned by a top-level statement of WNTRSimulator.run_sim (not nested in if/while/for/try) that
    precedes every other mention of the field in run_sim and every call that could read it.  Nothing in the current source
    meets it (sim_time is READ first: `if self._wn.sim_time == 0`; `_prev_sim_time = -1` is under `if first_step`), so the
    list is normally empty; it is computed, not assumed."""
    t = _parse("wntr/sim/core.py")
    fn = [n for q, n, c in _functions_of(t) if q == "WNTRSimulator.run_sim"]
    if not fn:
        raise BrokenTie("wntr/sim/core.py has no WNTRSimulator.run_sim")
    out, why = [], {}
    mentioned = set()
    for st in fn[0].body:
        tg = []
        if isinstance(st, ast.Assign):
            tg = st.targets
        fields_here = set()
        for n in ast.walk(st):
            if isinstance(n, ast.Attribute):
                ch = _chain(n)
                if ch and ".".join(ch[:2]) in WN_NAMES and len(ch) == 3:
                    fields_here.add(ch[2])
        has_call = any(isinstance(n, ast.Call) for n in ast.walk(st))
        for x in tg:
            ch = _chain(x) if isinstance(x, ast.Attribute) else None
            if ch and ".".join(ch[:2]) in WN_NAMES and len(ch) == 3 and ch[2] not in mentioned:
                reads_in_value = any(isinstance(n, ast.Attribute) and _chain(n) and _chain(n)[-1] == ch[2] for n in ast.walk(st.value))
                if not reads_in_value and not mentioned.intersection({"<call>"}) and ("WaterNetworkModel", ch[2]) in written:
                    out.append(("WaterNetworkModel", ch[2]))
                    why[("WaterNetworkModel", ch[2])] = "core.py:%d unconditional first statement touching it" % st.lineno
        mentioned |= fields_here
        if has_call:
            mentioned.add("<call>")
    return sorted(set(out)), why


# =================================================================================================== Lean output


def _ls(s):
    return json.dumps(s, ensure_ascii=False)


def _lean_list(name, doc, slots):
    out = ["/-- %s -/" % doc, "def %s : List Slot := [" % name]
    items = sorted(set(slots))
    for i, (c, f) in enumerate(items):
        out.append("  ⟨%s, %s⟩%s" % (_ls(c), _ls(f), "," if i < len(items) - 1 else ""))
    out.append("]")
    return out


def gen_lean(tabs):
    out = ["-- GENERATED by harness/props/c11.py from /repo (ast + reflection). Do not edit.",
           "import WntrModel.Model.Frame", "namespace Wntr.Frame.Gen", "open Wntr.Frame"]
    for k in ("notes", "dropped"):
        for line in tabs[k]:
            out.append("-- " + line.replace("\n", " ")[:220])
    out += _lean_list("writtenByActions",
                      "slots a ControlAction can write when its attribute is one the simulators accept (status, setting, leak_status → the "
                      "private field that run_control_action really assigns; base_speed → through the property setter) and slots an "
                      "_InternalControlAction writes (internal attributes used by the simulator-generated controls in wntr/sim/core.py)",
                      tabs["writtenByActions"])
    out += _lean_list("writtenBySim",
                      "slots assigned by the simulator code paths (core.py time loop, isolation, hydraulics.store_results_in_network, tank "
                      "head updates, epanet.py), other than through control actions", tabs["writtenBySim"])
    out.append("def written : List Slot := writtenByActions ++ writtenBySim")
    out += _lean_list("toDictReads", "slots to_dict reads", tabs["toDictReads"])
    out += _lean_list("resetAssigns", "slots reset_initial_values assigns (incl. what control._reset() assigns, class \"Control\"/\"Rule\"...)",
                      tabs["resetAssigns"])
    ev = "; ".join("%s.%s: %s" % (c, f, w) for (c, f), w in sorted(tabs["runInitialisesWhy"].items())) or "none qualifies in the current source"
    out += _lean_list("runInitialises",
                      "written slots that a run only ever writes before reading within the same run (pure outputs), with the evidence; "
                      "may be empty. Evidence: " + ev.replace("-/", "- /"), tabs["runInitialises"])
    out.append("end Wntr.Frame.Gen")
    return "\n".join(out) + "\n"


def build_tables():
    wntr = vlib.import_wntr()
    wn, inst = build_zoo(wntr)
    R = Resolver(inst)
    act, notes, mapping, attr_names, internal = control_action_tables(wntr, inst, R)
    S = sim_write_tables(wntr, inst, R)
    reads = to_dict_reads(wntr, wn, inst, R)
    RS = reset_assigns(wntr, wn, inst, R)
    written = set(act) | set(S.slots)
    ri, riwhy = run_initialises(written)
    tabs = {
        "writtenByActions": sorted(act), "writtenBySim": sorted(S.slots), "toDictReads": sorted(reads),
        "resetAssigns": sorted(RS.slots), "runInitialises": ri, "runInitialisesWhy": riwhy,
        "notes": ["ControlAction attribute -> private attribute: %s; attribute names in use: %s; internal attributes: %s"
                  % (json.dumps(mapping, sort_keys=True), attr_names, internal)] + notes
                 + ["assignments to `self.<x>` of simulator-internal objects not listed: %d" % S.nself],
        "dropped": ["dropped (not a slot): %s -- %s" % (k, v) for k, v in sorted(S.dropped.items())],
        "where": {"written": {("%s.%s" % k): sorted(v) for k, v in list(act.items()) + list(S.slots.items())},
                  "reset": {("%s.%s" % k): sorted(v) for k, v in RS.slots.items()},
                  "reads": {("%s.%s" % k): sorted(v) for k, v in reads.items()}},
        "mapping": mapping,
    }
    return tabs


def overlap(w, r):
    r = set(r)
    return [x for x in w if x in r]


def missing(w, a):
    a = set(a)
    return [x for x in w if x not in a]


if __name__ == "__main__":
    if len(sys.argv) > 1 and sys.argv[1] == "tables":
        tb = build_tables()
        print(gen_lean(tb))
        w = tb["writtenByActions"] + tb["writtenBySim"]
        print("sizes", {k: len(tb[k]) for k in ("writtenByActions", "writtenBySim", "toDictReads", "resetAssigns", "runInitialises")})
        print("overlap", overlap(w, tb["toDictReads"]))
        print("missing", missing(w, tb["resetAssigns"]))
