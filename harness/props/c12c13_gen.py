"""Shared by C12 and C13: seeded generator of model *specs* (JSON-serialisable plans), their realisation through the
public WNTR API, and a structural diff of `to_dict` dictionaries.

A spec is a dict of lists (patterns, curves, junctions, tanks, reservoirs, pipes, pumps, valves, sources, controls) and
an `options` dict; `realise(wntr, spec)` performs exactly the API calls the spec describes, so that a replay / corpus
file is the spec itself."""
import json
import math

VALVE_TYPES = ["PRV", "PSV", "PBV", "FCV", "TCV", "GPV"]


def _r(rng, lo, hi, nd=3):
    return round(rng.uniform(lo, hi), nd)


def gen_spec(rng, size=1, inp_only=False, exotic=0.0, share_curves=False, control_attrs=False, clock_boundaries=False, option_thresholds=False):
    """inp_only: restrict to what the INP format has a place for (C12).  exotic: probability of control forms that
    neither the [CONTROLS] syntax nor the dict 'simple' form can express (reported under their own keys).
    share_curves: let 2-3 elements refer to ONE curve of every type (volume: tanks, head / efficiency: pumps, headloss:
    GPVs); decided by a generator of its own seeded from the spec, so that the main random stream (and every spec
    generated without the flag) is unchanged.
    control_attrs: simple controls also on a junction's HEAD and a tank's HEAD / PRESSURE (the [CONTROLS] syntax says level
    for a tank and pressure for a junction: the same condition in another datum); again decided by a private generator."""
    sp = {}
    npat = rng.randint(1, 3)
    pats = []
    for i in range(npat):
        n = rng.choice([1, 2, 3, 6, 7, 13])
        pats.append({"name": "pat%d" % i, "mult": [_r(rng, 0.1, 2.0) for _ in range(n)]})
    if rng.random() < 0.4:
        pats.append({"name": "1", "mult": [_r(rng, 0.5, 1.5) for _ in range(rng.choice([1, 4]))]})
    sp["patterns"] = pats
    pnames = [p["name"] for p in pats]

    def anypat(p=0.5):
        return rng.choice(pnames) if rng.random() < p else None

    curves = []

    def head_curve(name):
        k = rng.choice([1, 3, 4])
        q = sorted(_r(rng, 0.005, 0.2, 4) for _ in range(k))
        q = sorted(set(q))
        if k == 3 and len(q) == 3:
            q[0] = 0.0
        h0 = _r(rng, 30, 80, 2)
        pts = [[x, round(h0 - 150.0 * x * (1 + i * 0.3), 3)] for i, x in enumerate(q)]
        curves.append({"name": name, "type": "HEAD", "pts": pts})

    nj = rng.randint(2, 3 + 3 * size)
    nt = rng.randint(0, 2)
    nr = rng.randint(1, 2)
    cats = ["dom", "ind", "Res_1", None]
    junctions, tanks, reservoirs = [], [], []
    for i in range(nj):
        j = {"name": "J%d" % i, "elev": _r(rng, 0, 100, 2), "coords": [_r(rng, 0, 100, 2), _r(rng, 0, 100, 2)]}
        nd = rng.choice([0, 1, 1, 1, 2, 3])
        if nd == 0:
            j["demands"] = None  # API default: base_demand 0, no pattern
        else:
            j["demands"] = [[_r(rng, 0, 0.05, 5), anypat(), rng.choice(cats)] for _ in range(nd)]
            if rng.random() < 0.3:
                j["demands"][0][2] = None
        if rng.random() < 0.15 and not inp_only:
            j["clear_demands"] = True  # junction without demands
        if rng.random() < 0.4:
            j["iq"] = _r(rng, 0.0001, 0.002, 6)
        if rng.random() < 0.4:
            j["tag"] = rng.choice(["tagA", "zone-1", "x"])
        if rng.random() < 0.3:
            j["emitter"] = _r(rng, 0.0001, 0.01, 6)
        if not inp_only:
            if rng.random() < 0.3:
                j["pdd"] = [_r(rng, 0, 5, 2), _r(rng, 10, 30, 2), rng.choice([0.5, 0.6])]
            if rng.random() < 0.3:
                j["leak"] = [_r(rng, 0.001, 0.05, 4), rng.choice([0.75, 0.6])] + rng.choice([[None, None], [3600, 7200], [1800, None]])
        junctions.append(j)
    for i in range(nt):
        mn = _r(rng, 0, 2, 2)
        mx = round(mn + _r(rng, 2, 6, 2), 2)
        t = {"name": "T%d" % i, "elev": _r(rng, 20, 120, 2), "min": mn, "max": mx, "init": round(rng.uniform(mn, mx), 2),
             "diam": _r(rng, 5, 30, 2), "minvol": rng.choice([0.0, 0.0, _r(rng, 1, 50, 2)]), "overflow": rng.random() < 0.3,
             "coords": [_r(rng, 0, 100, 2), _r(rng, 0, 100, 2)]}
        if rng.random() < 0.4:
            cn = "vc%d" % i
            lv = [0.0, round(mx / 2, 3), round(mx + 1.0, 3)]
            curves.append({"name": cn, "type": "VOLUME", "pts": [[lv[0], 0.0], [lv[1], _r(rng, 50, 100, 2)], [lv[2], _r(rng, 200, 400, 2)]]})
            t["volcurve"] = cn
        if rng.random() < 0.5:
            t["mix"] = rng.choice(["MIXED", "2COMP", "FIFO", "LIFO"])
            if t["mix"] == "2COMP":
                t["frac"] = _r(rng, 0.1, 0.9, 2)
        if rng.random() < 0.3:
            t["bulk"] = -_r(rng, 0.1, 2.0, 2) / 86400.0
        if rng.random() < 0.4:
            t["iq"] = _r(rng, 0.0001, 0.002, 6)
        if rng.random() < 0.3:
            t["tag"] = "tk"
        if not inp_only and rng.random() < 0.4:
            t["leak"] = [_r(rng, 0.001, 0.05, 4), 0.75] + rng.choice([[None, None], [3600, 7200]])
        tanks.append(t)
    for i in range(nr):
        r = {"name": "R%d" % i, "head": _r(rng, 50, 150, 2), "pat": anypat(0.3), "coords": [_r(rng, 0, 100, 2), _r(rng, 0, 100, 2)]}
        if rng.random() < 0.3:
            r["iq"] = _r(rng, 0.0001, 0.002, 6)
        if rng.random() < 0.3:
            r["tag"] = "src"
        reservoirs.append(r)
    nodes = [j["name"] for j in junctions] + [t["name"] for t in tanks] + [r["name"] for r in reservoirs]
    jn = [j["name"] for j in junctions]

    def verts():
        if rng.random() < 0.35:
            return [[_r(rng, 0, 100, 2), _r(rng, 0, 100, 2)] for _ in range(rng.randint(1, 3))]
        return []

    def pair():
        a = rng.choice(nodes)
        b = rng.choice([n for n in nodes if n != a])
        return a, b

    pipes, pumps, valves = [], [], []
    for i in range(rng.randint(2, 3 + 3 * size)):
        a, b = pair()
        p = {"name": "P%d" % i, "a": a, "b": b, "len": _r(rng, 10, 1000, 2), "diam": _r(rng, 0.05, 1.0, 3),
             "rough": rng.choice([100.0, 130.0, 85.5]), "mloss": rng.choice([0.0, 0.0, 0.5, 2.25]),
             "status": rng.choice(["OPEN", "OPEN", "CLOSED"]), "cv": False, "vertices": verts()}
        if rng.random() < 0.2:
            p["cv"], p["status"] = True, "OPEN"
        if rng.random() < 0.3:
            p["tag"] = rng.choice(["old", "PVC"])
        if rng.random() < 0.25:
            p["bulk"] = -_r(rng, 0.1, 2.0, 2) / 86400.0
        if rng.random() < 0.25:
            p["wall"] = -_r(rng, 0.1, 2.0, 2) / 86400.0
        if not inp_only and rng.random() < 0.4:
            p["iq"] = _r(rng, 0.0001, 0.002, 6)
        pipes.append(p)
    for i in range(rng.randint(1, 1 + size)):
        a, b = pair()
        pu = {"name": "PU%d" % i, "a": a, "b": b, "type": rng.choice(["HEAD", "POWER"]), "speed": rng.choice([1.0, 1.0, 0.8, 1.2]),
              "pat": anypat(0.3), "status": rng.choice(["OPEN", "OPEN", "CLOSED"]), "vertices": verts()}
        if pu["type"] == "HEAD":
            cn = "hc%d" % i
            head_curve(cn)
            pu["param"] = cn
        else:
            pu["param"] = _r(rng, 1000, 50000, 1)
        if rng.random() < 0.3:
            pu["setting"] = rng.choice([0.5, 1.0, 1.5])
        if rng.random() < 0.35:
            cn = "ec%d" % i
            curves.append({"name": cn, "type": "EFFICIENCY", "pts": [[0.0, 50.0], [_r(rng, 0.01, 0.05, 4), 75.0], [_r(rng, 0.06, 0.2, 4), 60.0]]})
            pu["eff"] = cn
        if rng.random() < 0.3:
            pu["eprice"] = rng.choice([0.1, 0.25]) / 3.6e6
        if rng.random() < 0.3:
            pu["epat"] = rng.choice(pnames)
        if rng.random() < 0.3:
            pu["tag"] = "pmp"
        if not inp_only and rng.random() < 0.4:
            pu["iq"] = _r(rng, 0.0001, 0.002, 6)
        pumps.append(pu)
    vts = list(VALVE_TYPES)
    rng.shuffle(vts)
    for i, vt in enumerate(vts[: rng.randint(1, 2 + 2 * size)]):
        a = rng.choice(jn)  # PRV/PSV/FCV may not touch a tank or reservoir
        b = rng.choice([n for n in jn if n != a])
        v = {"name": "V%d" % i, "a": a, "b": b, "diam": _r(rng, 0.05, 0.6, 3), "type": vt, "mloss": rng.choice([0.0, 0.3]),
             "status": rng.choice(["ACTIVE", "ACTIVE", "OPEN", "CLOSED"]), "vertices": verts()}
        if vt in ("PRV", "PSV", "PBV"):
            v["setting"] = _r(rng, 5, 60, 2)
        elif vt == "FCV":
            v["setting"] = _r(rng, 0.001, 0.1, 4)
        elif vt == "TCV":
            v["setting"] = _r(rng, 0.5, 50, 2)
        else:
            cn = "gc%d" % i
            curves.append({"name": cn, "type": "HEADLOSS", "pts": [[0.0, 0.0], [_r(rng, 0.01, 0.05, 4), _r(rng, 1, 5, 2)], [_r(rng, 0.06, 0.2, 4), _r(rng, 6, 20, 2)]]})
            v["setting"] = cn
        if rng.random() < 0.4:
            v["tag"] = "vlv"
        if not inp_only and rng.random() < 0.4:
            v["iq"] = _r(rng, 0.0001, 0.002, 6)
        valves.append(v)
    if not inp_only and rng.random() < 0.3:
        curves.append({"name": "unused", "type": rng.choice(["HEAD", "EFFICIENCY", None]), "pts": [[0.0, 1.0], [1.0, 2.0]]})
    sp.update(curves=curves, junctions=junctions, tanks=tanks, reservoirs=reservoirs, pipes=pipes, pumps=pumps, valves=valves)
    sources = []
    for i in range(rng.choice([0, 1, 2])):
        sources.append({"name": "INP%d" % (i + 1) if inp_only else "src%d" % i, "node": rng.choice(nodes),
                        "type": rng.choice(["CONCEN", "MASS", "FLOWPACED", "SETPOINT"]), "strength": _r(rng, 0.0001, 0.01, 6), "pat": anypat(0.5)})
    sp["sources"] = sources

    # ---------------------------------------------------------------- controls and rules
    links = [(p["name"], "pipe", None) for p in pipes] + [(p["name"], "pump", None) for p in pumps] + [(v["name"], "valve", v["type"]) for v in valves]

    def action():
        name, kind, vt = rng.choice(links)
        if kind == "pipe" or rng.random() < 0.4:
            st = ["OPEN", "CLOSED"] + (["ACTIVE"] if kind == "valve" else [])
            return [name, "status", rng.choice(st)]
        if kind == "pump":
            return [name, "base_speed", rng.choice([0.5, 0.8, 1.0, 1.25])]
        if vt in ("PRV", "PSV", "PBV"):
            return [name, "setting", _r(rng, 5, 60, 2)]
        if vt == "FCV":
            return [name, "setting", _r(rng, 0.001, 0.1, 4)]
        if vt == "TCV":
            return [name, "setting", _r(rng, 0.5, 50, 2)]
        return [name, "status", rng.choice(["OPEN", "CLOSED"])]

    def rule_action():
        a = action()
        if a[1] == "base_speed":  # rules act on pump SETTING in EPANET syntax
            a[1] = "setting" if rng.random() < 0.5 else "status"
            if a[1] == "status":
                a[2] = rng.choice(["OPEN", "CLOSED"])
        return a

    times = [0, 3600, 5400, 7200, 45000, 3661, 4140, 86400 + 1800, 30 * 3600, 43200, 1800]

    def atom(for_rule):
        r = rng.random()
        if r < 0.2:
            rel = rng.choice(["=", ">=", ">", "<", "<="]) if for_rule else "="
            return ["time", rel, rng.choice(times)]
        if r < 0.4:
            rel = rng.choice(["=", ">=", ">", "<", "<="]) if for_rule else "="
            return ["clock", rel, rng.choice([0, 1800, 6 * 3600, 43200, 45000, 13 * 3600 + 60, 86399, 3661])]
        if r < 0.65 and tanks:
            t = rng.choice(tanks)
            attr = "level"
            if for_rule and rng.random() < 0.3:
                attr = rng.choice(["head", "pressure"])
            rel = rng.choice([">", "<", ">=", "<="]) if for_rule else rng.choice([">", "<"])  # TankLevelCondition refuses = and <>
            return ["val", "node", t["name"], attr, rel, round(rng.uniform(t["min"], t["max"]), 2)]
        if r < 0.85 or not for_rule:
            attr = "pressure"
            if for_rule and rng.random() < 0.3:
                attr = rng.choice(["head", "demand"])
            rel = rng.choice([">", "<", ">=", "<="]) if for_rule else rng.choice([">", "<"])
            val = _r(rng, 5, 60, 2) if attr != "demand" else _r(rng, 0.001, 0.05, 4)
            return ["val", "node", rng.choice(jn), attr, rel, val]
        name, kind, vt = rng.choice(links)
        if rng.random() < 0.5:
            return ["val", "link", name, "status", rng.choice(["=", "<>"]), rng.choice(["OPEN", "CLOSED"])]
        if rng.random() < 0.5:
            return ["val", "link", name, "flow", rng.choice([">", "<", ">="]), _r(rng, 0.001, 0.05, 4)]
        if kind == "pump":
            return ["val", "link", name, "setting", rng.choice([">", "<"]), rng.choice([0.5, 1.0])]
        if kind == "valve" and vt in ("PRV", "PSV", "PBV", "FCV", "TCV"):
            return ["val", "link", name, "setting", rng.choice([">", "<"]), _r(rng, 5, 50, 2) if vt != "FCV" else _r(rng, 0.001, 0.05, 4)]
        return ["val", "link", name, "status", "=", "OPEN"]

    def cond(depth):
        if depth == 0 or rng.random() < 0.35:
            return atom(True)
        return [rng.choice(["and", "or"]), cond(depth - 1), cond(depth - 1) if rng.random() < 0.3 else atom(True)]

    controls = []
    for i in range(rng.randint(1, 2 + 2 * size)):
        c = {"name": "control %d" % (i + 1), "kind": "control", "cond": atom(False), "then": [action()], "else": [], "priority": 3}
        if rng.random() < exotic:
            x = rng.choice(["rel", "attr", "prio"])
            if x == "prio":
                c["priority"] = 5
            elif c["cond"][0] == "val":
                if x == "rel":
                    c["cond"][4] = rng.choice([">=", "<="])
                elif c["cond"][2].startswith("T"):
                    c["cond"][3] = "head"
        controls.append(c)
    for i in range(rng.randint(1, 2 + 2 * size)):
        c = {"name": "rule%d" % i, "kind": "rule", "cond": cond(2), "then": [rule_action() for _ in range(rng.choice([1, 1, 2, 3]))],
             "else": [rule_action() for _ in range(rng.choice([0, 0, 1, 2]))], "priority": rng.choice([3, 3, 1, 5, 0, 7])}
        controls.append(c)
    sp["controls"] = controls

    # ---------------------------------------------------------------- options
    o = {"time": {}, "hydraulic": {}, "quality": {}, "reaction": {}, "energy": {}}
    if rng.random() < 0.8:
        hts = rng.choice([900, 1800, 3600])
        o["time"] = {"duration": rng.choice([0, 3600 * 24, 3600 * 30 + 1800]), "hydraulic_timestep": hts, "quality_timestep": rng.choice([60, 300]),
                     "rule_timestep": rng.choice([60, 360]), "pattern_timestep": rng.choice([1800, 3600, 7200]), "pattern_start": rng.choice([0, 3600]),
                     "report_timestep": hts * rng.choice([1, 2]), "report_start": rng.choice([0, 3600]),
                     "start_clocktime": rng.choice([0, 3600 * 6, 3600 * 12, 3600 * 13 + 1800, 1800]), "statistic": rng.choice(["NONE", "AVERAGED", "MAXIMUM"])}
    if rng.random() < 0.8:
        h = {"headloss": rng.choice(["H-W", "H-W", "D-W", "C-M"]), "viscosity": rng.choice([1.0, 1.1]), "specific_gravity": rng.choice([1.0, 0.98]),
             "demand_multiplier": rng.choice([1.0, 1.5]), "trials": rng.choice([40, 200]), "accuracy": rng.choice([0.001, 0.0001]),
             "unbalanced": rng.choice(["STOP", "CONTINUE"]), "checkfreq": rng.choice([2, 3]), "maxcheck": rng.choice([10, 12]),
             "damplimit": rng.choice([0.0, 0.01]), "emitter_exponent": rng.choice([0.5, 0.6]), "headerror": rng.choice([0.0, 0.001]),
             "flowchange": rng.choice([0.0, 0.0001])}
        if h["unbalanced"] == "CONTINUE":
            h["unbalanced_value"] = rng.choice([None, 10])
        if rng.random() < 0.5:
            h["pattern"] = rng.choice(pnames + [None])
        if rng.random() < 0.5:
            h.update(demand_model="PDA", minimum_pressure=rng.choice([0.0, 3.0]), required_pressure=rng.choice([15.0, 21.0]), pressure_exponent=rng.choice([0.5, 0.7]))
        o["hydraulic"] = h
    qp = rng.choice(["NONE", "CHEMICAL", "AGE", "TRACE"])
    q = {"parameter": qp, "diffusivity": rng.choice([1.0, 1.2]), "tolerance": rng.choice([0.01, 0.05])}
    if qp == "CHEMICAL":
        q["chemical_name"] = rng.choice(["Chlorine", "CHEMICAL"])
        q["inpfile_units"] = rng.choice(["mg/L", "ug/L"])
    if qp == "TRACE":
        q["trace_node"] = rng.choice(nodes)
    o["quality"] = q
    if rng.random() < 0.6:
        o["reaction"] = {"bulk_order": rng.choice([1, 1, 2, 0]), "wall_order": rng.choice([1, 0]), "tank_order": rng.choice([1, 2]),
                         "bulk_coeff": -rng.choice([0.0, 0.5, 1.0]) / 86400.0, "wall_coeff": -rng.choice([0.0, 0.3]) / 86400.0,
                         "limiting_potential": rng.choice([None, 0.5]), "roughness_correl": rng.choice([None, -0.1])}
    if rng.random() < 0.6:
        o["energy"] = {"global_price": rng.choice([None, 0.0, 0.12 / 3.6e6]), "global_pattern": rng.choice([None] + pnames),
                       "global_efficiency": rng.choice([None, 75.0, 65.5]), "demand_charge": rng.choice([None, 0.0, 2.5])}
    if not inp_only and rng.random() < 0.3:
        o["time"]["pattern_interpolation"] = True
    sp["options"] = o
    if share_curves:
        _share_curves(sp)
    if control_attrs:
        _control_attrs(sp)
    if clock_boundaries:
        _clock_boundaries(sp)
    if option_thresholds:
        _option_thresholds(sp)
    return sp


# required pressure around EPANET's lower limit 0.1 in FILE units: 0.1 psi = 0.07034 m (US systems), 0.1 m (metric)
REQUIRED_PRESSURES = [0.0705, 0.072, 0.08, 0.09, 0.0965, 0.0995, 0.1, 0.1005, 0.105, 0.12, 0.15, 0.35, 1.0, 14.0]


def _option_thresholds(sp):
    """option VALUES near the writer's limits, in both unit families (private generator): PDA with a required pressure around
    0.1 psi and 0.1 m, small minimum pressures, solver options at / next to the values that are not written (0)"""
    import random
    r2 = random.Random("opts" + json.dumps(sp, sort_keys=True))
    h = sp["options"].setdefault("hydraulic", {})
    if r2.random() < 0.7:
        h.update(demand_model=r2.choice(["PDA", "PDD"]), required_pressure=r2.choice(REQUIRED_PRESSURES), minimum_pressure=r2.choice([0.0, 0.0, 0.004, 0.03, 0.05]),
                 pressure_exponent=r2.choice([0.5, 0.45, 1.0, 0.501]))
    if r2.random() < 0.5:
        h.update(headerror=r2.choice([0.0, 1e-6, 0.0001]), flowchange=r2.choice([0.0, 1e-7, 0.0001]), damplimit=r2.choice([0.0, 1e-5, 0.01]),
                 emitter_exponent=r2.choice([0.5, 0.499, 1.0]), accuracy=r2.choice([0.001, 1e-5, 0.0099]))


CLOCK_BOUNDARIES = [0, 1, 1800, 3599, 3600, 11 * 3600 + 3599, 43199, 43200, 43201, 45000, 46799, 46800, 46801, 13 * 3600 + 1800, 86399]


def _clock_boundaries(sp):
    """every clock-time field (START CLOCKTIME, CLOCKTIME controls, SYSTEM CLOCKTIME premises) drawn over the whole day with
    the AM/PM boundaries (midnight, 11:59:59, noon, 12:30, 12:59:59, 13:00, 23:59:59) — private generator"""
    import random
    r2 = random.Random("clock" + json.dumps(sp, sort_keys=True))

    def draw():
        return r2.choice(CLOCK_BOUNDARIES) if r2.random() < 0.8 else r2.randrange(0, 86400)
    sp["options"].setdefault("time", {})["start_clocktime"] = draw()

    def walk(c):
        if c[0] in ("and", "or"):
            walk(c[1]); walk(c[2])
        elif c[0] == "clock":
            c[2] = draw()
    for c in sp["controls"]:
        walk(c["cond"])


def _control_attrs(sp):
    import random
    r2 = random.Random("attrs" + json.dumps(sp, sort_keys=True))
    elev = {n["name"]: n["elev"] for n in sp["junctions"] + sp["tanks"]}
    tanks = {t["name"] for t in sp["tanks"]}
    for c in sp["controls"]:
        a = c["cond"]
        if c["kind"] != "control" or a[0] != "val" or a[1] != "node" or a[2] not in elev:
            continue
        attr = r2.choice(["level", "head", "pressure"] if a[2] in tanks else ["pressure", "head", "pressure"])
        if attr == "head":
            a[5] = round(a[5] + elev[a[2]], 2)
        a[3] = attr


def _share_curves(sp):
    import random
    r2 = random.Random(json.dumps(sp, sort_keys=True))
    nodes = [j["name"] for j in sp["junctions"]]
    # volume curve: 1-2 further tanks on the curve of a tank that has one (levels inside the curve's range)
    for t in [t for t in sp["tanks"] if "volcurve" in t][:1]:
        if r2.random() < 0.7:
            for k in range(r2.randint(1, 2)):
                t2 = dict(t, name="%sS%d" % (t["name"], k), elev=round(t["elev"] + 1.5 * (k + 1), 2), coords=[round(t["coords"][0] + k + 1, 2), t["coords"][1]])
                t2.pop("tag", None)
                sp["tanks"].append(t2)
                sp["pipes"].append({"name": "PS%s" % t2["name"], "a": r2.choice(nodes), "b": t2["name"], "len": 50.0, "diam": 0.2, "rough": 100.0, "mloss": 0.0,
                                    "status": "OPEN", "cv": False, "vertices": []})
    # efficiency and head curves: further pumps on the curves of an existing pump
    for key, typ in (("eff", None), ("param", "HEAD")):
        src = [p for p in sp["pumps"] if key in p and (typ is None or p["type"] == typ)][:1]
        for p in src:
            if r2.random() < 0.7:
                for k in range(r2.randint(1, 2)):
                    a = r2.choice(nodes)
                    p2 = {"name": "%sS%s%d" % (p["name"], key[0], k), "a": a, "b": r2.choice([n for n in nodes if n != a]), "type": p["type"], "param": p["param"],
                          "speed": 1.0, "pat": None, "status": "OPEN", "vertices": []}
                    if "eff" in p and (key == "eff" or r2.random() < 0.5):
                        p2["eff"] = p["eff"]
                    sp["pumps"].append(p2)
    # headloss curve: further GPVs on the curve of an existing GPV
    for v in [v for v in sp["valves"] if v["type"] == "GPV"][:1]:
        if r2.random() < 0.8:
            for k in range(r2.randint(1, 2)):
                a = r2.choice(nodes)
                sp["valves"].append({"name": "%sS%d" % (v["name"], k), "a": a, "b": r2.choice([n for n in nodes if n != a]), "diam": v["diam"], "type": "GPV",
                                     "mloss": 0.0, "setting": v["setting"], "status": "ACTIVE", "vertices": []})


REL = {"=": "=", ">": ">", "<": "<", ">=": ">=", "<=": "<=", "<>": "<>"}


def realise(wntr, sp):
    """perform the API calls of a spec; returns the WaterNetworkModel"""
    C = wntr.network.controls
    LS = wntr.network.LinkStatus
    wn = wntr.network.WaterNetworkModel()
    for sec, kv in sp.get("options", {}).items():
        # options first: the default-pattern option decides what a demand without pattern refers to
        for k, v in kv.items():
            setattr(getattr(wn.options, sec), k, v)
    for p in sp["patterns"]:
        wn.add_pattern(p["name"], list(p["mult"]))
    for c in sp["curves"]:
        wn.add_curve(c["name"], c["type"], [tuple(pt) for pt in c["pts"]])
    for j in sp["junctions"]:
        if j["demands"]:
            b, p, c = j["demands"][0]
            wn.add_junction(j["name"], base_demand=b, demand_pattern=p, elevation=j["elev"], coordinates=tuple(j["coords"]), demand_category=c)
            n = wn.get_node(j["name"])
            for b, p, c in j["demands"][1:]:
                n.add_demand(b, p, c)
        else:
            wn.add_junction(j["name"], elevation=j["elev"], coordinates=tuple(j["coords"]))
            n = wn.get_node(j["name"])
        if j.get("clear_demands"):
            n.demand_timeseries_list.clear()
        if "iq" in j:
            n.initial_quality = j["iq"]
        if "tag" in j:
            n.tag = j["tag"]
        if "emitter" in j:
            n.emitter_coefficient = j["emitter"]
        if "pdd" in j:
            n.minimum_pressure, n.required_pressure, n.pressure_exponent = j["pdd"]
    for t in sp["tanks"]:
        wn.add_tank(t["name"], elevation=t["elev"], init_level=t["init"], min_level=t["min"], max_level=t["max"], diameter=t["diam"],
                    min_vol=t["minvol"], vol_curve=t.get("volcurve"), overflow=t["overflow"], coordinates=tuple(t["coords"]))
        n = wn.get_node(t["name"])
        if "mix" in t:
            n.mixing_model = t["mix"]
        if "frac" in t:
            n.mixing_fraction = t["frac"]
        if "bulk" in t:
            n.bulk_coeff = t["bulk"]
        if "iq" in t:
            n.initial_quality = t["iq"]
        if "tag" in t:
            n.tag = t["tag"]
    for r in sp["reservoirs"]:
        wn.add_reservoir(r["name"], base_head=r["head"], head_pattern=r["pat"], coordinates=tuple(r["coords"]))
        n = wn.get_node(r["name"])
        if "iq" in r:
            n.initial_quality = r["iq"]
        if "tag" in r:
            n.tag = r["tag"]
    for p in sp["pipes"]:
        wn.add_pipe(p["name"], p["a"], p["b"], length=p["len"], diameter=p["diam"], roughness=p["rough"], minor_loss=p["mloss"],
                    initial_status=p["status"], check_valve=p["cv"])
        l = wn.get_link(p["name"])
        _link_common(l, p)
        if "bulk" in p:
            l.bulk_coeff = p["bulk"]
        if "wall" in p:
            l.wall_coeff = p["wall"]
    for p in sp["pumps"]:
        wn.add_pump(p["name"], p["a"], p["b"], pump_type=p["type"], pump_parameter=p["param"], speed=p["speed"], pattern=p["pat"],
                    initial_status=p["status"])
        l = wn.get_link(p["name"])
        _link_common(l, p)
        if "setting" in p:
            l.initial_setting = p["setting"]
        if "eff" in p:
            l.efficiency = wn.get_curve(p["eff"])
        if "eprice" in p:
            l.energy_price = p["eprice"]
        if "epat" in p:
            l.energy_pattern = p["epat"]
    for v in sp["valves"]:
        wn.add_valve(v["name"], v["a"], v["b"], diameter=v["diam"], valve_type=v["type"], minor_loss=v["mloss"],
                     initial_setting=v["setting"], initial_status=v["status"])
        _link_common(wn.get_link(v["name"]), v)
    for s in sp["sources"]:
        wn.add_source(s["name"], s["node"], s["type"], s["strength"], s["pat"])

    def mk_cond(c):
        k = c[0]
        if k == "and":
            return C.AndCondition(mk_cond(c[1]), mk_cond(c[2]))
        if k == "or":
            return C.OrCondition(mk_cond(c[1]), mk_cond(c[2]))
        if k == "time":
            return C.SimTimeCondition(wn, c[1], c[2])
        if k == "clock":
            return C.TimeOfDayCondition(wn, c[1], c[2])
        _, ok, name, attr, rel, val = c
        obj = wn.get_node(name) if ok == "node" else wn.get_link(name)
        if attr == "status":
            val = int(LS[val.capitalize() if val != "CV" else val])
        return C.ValueCondition(obj, attr, rel, val)

    def mk_act(a):
        name, attr, val = a
        l = wn.get_link(name)
        if attr == "status":
            val = LS[val.capitalize()]
        return C.ControlAction(l, attr, val)

    # leaks after the elements, before user controls? add_leak appends its own controls: keep user order deterministic
    for j in sp["junctions"] + sp["tanks"]:
        if "leak" in j:
            area, cd, st, et = j["leak"]
            wn.get_node(j["name"]).add_leak(wn, area, cd, start_time=st, end_time=et)
    for c in sp["controls"]:
        if c["kind"] == "control":
            pr = c.get("priority", 3)
            obj = C.Control(mk_cond(c["cond"]), mk_act(c["then"][0]), priority=C.ControlPriority(pr), name=c["name"])
        else:
            obj = C.Rule(mk_cond(c["cond"]), [mk_act(a) for a in c["then"]], [mk_act(a) for a in c["else"]], priority=c["priority"], name=c["name"])
        wn.add_control(c["name"], obj)
    return wn


def _link_common(l, p):
    if p.get("vertices"):
        l.vertices = [tuple(v) for v in p["vertices"]]
    if "tag" in p:
        l.tag = p["tag"]
    if "iq" in p:
        l.initial_quality = p["iq"]


# ------------------------------------------------------------------------------------------------ dict comparison


def jsonify(d):
    """what JSON does to a dictionary: tuples -> lists, int/float kept, keys -> str"""
    return json.loads(json.dumps(d))


def diff(a, b, path="", out=None, tol=None):
    """list of (path, old, new); `tol(path, x, y) -> bool` may accept numeric differences"""
    if out is None:
        out = []
    if isinstance(a, dict) and isinstance(b, dict):
        for k in sorted(set(a) | set(b), key=str):
            if k not in a:
                out.append((path + "/" + str(k), "<absent>", b[k]))
            elif k not in b:
                out.append((path + "/" + str(k), a[k], "<absent>"))
            else:
                diff(a[k], b[k], path + "/" + str(k), out, tol)
    elif isinstance(a, (list, tuple)) and isinstance(b, (list, tuple)):
        if len(a) != len(b):
            out.append((path + "#len", a, b))
        else:
            for i, (x, y) in enumerate(zip(a, b)):
                lab = x.get("name", i) if isinstance(x, dict) and isinstance(x.get("name", i), (str, int)) else i
                diff(x, y, "%s[%s]" % (path, lab), out, tol)
    else:
        if isinstance(a, bool) or isinstance(b, bool) or a is None or b is None or isinstance(a, str) or isinstance(b, str):
            if a != b or type(a) != type(b) and not (isinstance(a, (int, float)) and isinstance(b, (int, float))):
                out.append((path, a, b))
        elif isinstance(a, (int, float)) and isinstance(b, (int, float)):
            if a != b and not (isinstance(a, float) and isinstance(b, float) and math.isnan(a) and math.isnan(b)):
                if tol is None or not tol(path, a, b):
                    out.append((path, a, b))
        elif a != b:
            out.append((path, a, b))
    return out


def features(sp):
    """coverage signature of a spec (for the evidence histogram)"""
    f = set()
    for j in sp["junctions"]:
        f.add("junction:demands=%s" % (len(j["demands"]) if j["demands"] else 0))
        if j.get("clear_demands"):
            f.add("junction:no-demands")
        for k in ("iq", "tag", "emitter", "pdd", "leak"):
            if k in j:
                f.add("junction:" + k)
    for t in sp["tanks"]:
        f.add("tank")
        for k in ("volcurve", "mix", "bulk", "iq", "tag", "leak"):
            if k in t:
                f.add("tank:" + k + ("=" + str(t[k]) if k == "mix" else ""))
        if t["overflow"]:
            f.add("tank:overflow")
    for r in sp["reservoirs"]:
        f.add("reservoir" + (":pattern" if r["pat"] else ""))
    for p in sp["pipes"]:
        f.add("pipe:" + ("CV" if p["cv"] else p["status"]))
        for k in ("tag", "bulk", "wall", "iq"):
            if k in p:
                f.add("pipe:" + k)
        if p["vertices"]:
            f.add("pipe:vertices")
    for p in sp["pumps"]:
        f.add("pump:%s:%s" % (p["type"], p["status"]))
        for k in ("setting", "eff", "eprice", "epat", "tag", "iq"):
            if k in p:
                f.add("pump:" + k)
        if p["vertices"]:
            f.add("pump:vertices")
        if p["pat"]:
            f.add("pump:pattern")
        if p["speed"] != 1.0:
            f.add("pump:speed")
    for v in sp["valves"]:
        f.add("valve:%s:%s" % (v["type"], v["status"]))
        for k in ("tag", "iq"):
            if k in v:
                f.add("valve:" + k)
        if v["vertices"]:
            f.add("valve:vertices")
    for s in sp["sources"]:
        f.add("source:" + s["type"])
    for c in sp["curves"]:
        f.add("curve:%s:%dpt" % (c["type"], len(c["pts"])))
        users = ([t for t in sp["tanks"] if t.get("volcurve") == c["name"]] + [p for p in sp["pumps"] if p.get("eff") == c["name"]]
                 + [p for p in sp["pumps"] if p["type"] == "HEAD" and p.get("param") == c["name"]] + [v for v in sp["valves"] if v["type"] == "GPV" and v.get("setting") == c["name"]])
        if len(users) > 1:
            f.add("curve:%s:shared" % c["type"])

    def walk(c):
        if c[0] in ("and", "or"):
            f.add("cond:" + c[0])
            if c[0] == "or" and c[1][0] == "and":
                f.add("cond:(a and b) or c")
            if c[0] == "and" and c[2][0] == "or":
                f.add("cond:a and (b or c)")
            walk(c[1])
            walk(c[2])
        elif c[0] in ("time", "clock"):
            f.add("cond:%s %s" % (c[0], c[1]))
        else:
            f.add("cond:%s.%s %s" % (c[1], c[3], c[4]))

    for c in sp["controls"]:
        f.add(c["kind"])
        walk(c["cond"])
        for a in c["then"] + c["else"]:
            f.add("action:" + a[1])
        if c["else"]:
            f.add("rule:else")
        if c["kind"] == "rule":
            f.add("rule:priority=%s" % c["priority"])
            f.add("rule:then=%d" % len(c["then"]))
    for sec, kv in sp["options"].items():
        if kv:
            f.add("options:" + sec)
    q = sp["options"].get("quality", {})
    f.add("quality:" + str(q.get("parameter")))
    h = sp["options"].get("hydraulic", {})
    if h.get("demand_model"):
        f.add("hydraulic:PDA")
    if h.get("headloss"):
        f.add("headloss:" + h["headloss"])
    return f
