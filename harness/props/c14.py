"""C14 -- all views of the model stay mutually consistent under any edit history.

Model M3 (`lean/WntrModel/Model/Registry.lean`) mirrors the registries of `WaterNetworkModel` line by line
(`Registry/NodeRegistry/LinkRegistry/CurveRegistry/SourceRegistry.__setitem__/__delitem__`, `add_usage`,
`remove_usage`, `Link.__init__`, the element setters, `add_*`/`remove_*` with `with_control`/`force`).
`Props/C14.lean` proves the invariant for every finite history.

Tie (C): seeded random edit histories (valid stream + separate malformed stream) are executed on a real
`wntr.network.WaterNetworkModel` and on the Lean driver; after EVERY op the outcome class and a canonical snapshot
(name lists in order, typed sets, typed iterators incl. whether they raise, get_links_for_node ALL/INLET/OUTLET,
to_graph nodes/edges, the three usage maps, orphaned/unused) are compared as strings.
Oracle: the Lean `Inv` boolean + `viewsOk` evaluated by the driver on the snapshot OBSERVED on the implementation,
plus "a refused removal leaves the snapshot unchanged".

Development aid: VERIF_C14_VARIANT=coded runs the correspondence against the model of the tree before the C14 repairs.
"""
import json
import logging
import os
import sys

sys.path.insert(0, os.path.dirname(os.path.dirname(os.path.abspath(__file__))))
import vlib
from vlib import Broken, Failure, Check

DRIVER = "Drivers/RegistryDriver.lean"
VALVES = ["prv", "psv", "pbv", "tcv", "fcv", "gpv"]
CTYPES = ["HEAD", "HEADLOSS", "VOLUME", "EFFICIENCY"]
PTS = [(0.0, 0.0), (5.0, 50.0), (10.0, 100.0)]
TSETS = ["junctions", "reservoirs", "tanks", "pipes", "pumps", "head_pumps", "power_pumps", "prvs", "psvs", "pbvs",
         "tcvs", "fcvs", "gpvs", "valves", "pump_curves", "efficiency_curves", "headloss_curves", "volume_curves"]


def nm(i):
    return "e%d" % i


def un(s):
    """name -> interned integer (names created by the harness are e<int>)"""
    s = str(s)
    if s.startswith("e") and s[1:].isdigit():
        return int(s[1:])
    raise vlib.Infra("unexpected element name %r in the implementation" % (s,))


def opt(tok):
    return None if tok == "-" else nm(int(tok))


class HarnessReject(Exception):
    """the op does not apply to that element class (decided by the harness before touching the model)"""


# ----------------------------------------------------------------------------- executing an op on the implementation


class Impl:
    def __init__(self):
        self.wntr = vlib.import_wntr()
        logging.disable(logging.CRITICAL)
        import wntr.network.controls as C
        import wntr.network.elements as E
        from wntr.network.base import LinkStatus

        self.C, self.E, self.LinkStatus = C, E, LinkStatus
        self.wn = None

    def fresh(self):
        self.wn = self.wntr.network.WaterNetworkModel()
        return self.wn

    def apply(self, op):
        """returns 'ok' | 'refused' | 'error' (+ exception text)"""
        wn, E = self.wn, self.E
        k = op[0]
        is_remove = k in ("rn", "rl", "rpat", "rcur", "rsrc", "rctl")
        try:
            if k == "aj":
                wn.add_junction(nm(int(op[1])), base_demand=1.0, demand_pattern=opt(op[2]))
            elif k == "at":
                wn.add_tank(nm(int(op[1])), vol_curve=opt(op[2]))
            elif k == "ar":
                wn.add_reservoir(nm(int(op[1])), base_head=10.0, head_pattern=opt(op[2]))
            elif k == "ap":
                wn.add_pipe(nm(int(op[1])), nm(int(op[2])), nm(int(op[3])))
            elif k == "apu":
                if op[4] == "H":
                    wn.add_pump(nm(int(op[1])), nm(int(op[2])), nm(int(op[3])), "HEAD", nm(int(op[5])), pattern=opt(op[6]))
                else:
                    wn.add_pump(nm(int(op[1])), nm(int(op[2])), nm(int(op[3])), "POWER", 50.0, pattern=opt(op[6]))
            elif k == "av":
                kind = op[4].upper()
                setting = nm(int(op[5])) if kind == "GPV" else 0.0
                wn.add_valve(nm(int(op[1])), nm(int(op[2])), nm(int(op[3])), valve_type=kind, initial_setting=setting)
            elif k == "apat":
                wn.add_pattern(nm(int(op[1])), [1.0, 0.5])
            elif k == "acur":
                wn.add_curve(nm(int(op[1])), None if op[2] == "-" else op[2], list(PTS))
            elif k == "asrc":
                wn.add_source(nm(int(op[1])), nm(int(op[2])), "CONCEN", 1.0, opt(op[3]))
            elif k == "actl":
                nodes = [wn.get_node(nm(int(x))) for x in op[2].split(",")] if op[2] != "-" else []
                links = [wn.get_link(nm(int(x))) for x in op[3].split(",")] if op[3] != "-" else []
                wn.add_control(nm(int(op[1])), self._rule(nm(int(op[1])), nodes, links))
            elif k == "rn":
                wn.remove_node(nm(int(op[1])), with_control=op[2] == "1", force=op[3] == "1")
            elif k == "rl":
                wn.remove_link(nm(int(op[1])), with_control=op[2] == "1", force=op[3] == "1")
            elif k == "rpat":
                wn.remove_pattern(nm(int(op[1])))
            elif k == "rcur":
                wn.remove_curve(nm(int(op[1])))
            elif k == "rsrc":
                wn.remove_source(nm(int(op[1])))
            elif k == "rctl":
                wn.remove_control(nm(int(op[1])))
            elif k == "ss":
                wn.get_link(nm(int(op[1]))).start_node = wn.get_node(nm(int(op[2])))
            elif k == "se":
                wn.get_link(nm(int(op[1]))).end_node = wn.get_node(nm(int(op[2])))
            elif k == "ssp":
                l = wn.get_link(nm(int(op[1])))
                if not isinstance(l, E.Pump):
                    raise HarnessReject()
                l.speed_pattern_name = opt(op[2])
            elif k == "spc":
                l = wn.get_link(nm(int(op[1])))
                if not isinstance(l, E.HeadPump):
                    raise HarnessReject()
                l.pump_curve_name = nm(int(op[2]))
            elif k == "shc":
                l = wn.get_link(nm(int(op[1])))
                if not isinstance(l, E.GPValve):
                    raise HarnessReject()
                l.headloss_curve_name = nm(int(op[2]))
            elif k == "shp":
                n = wn.get_node(nm(int(op[1])))
                if not isinstance(n, E.Reservoir):
                    raise HarnessReject()
                n.head_pattern_name = opt(op[2])
            elif k == "svc":
                n = wn.get_node(nm(int(op[1])))
                if not isinstance(n, E.Tank):
                    raise HarnessReject()
                n.vol_curve_name = opt(op[2])
            else:
                raise vlib.Infra("unknown op %r" % (op,))
            return "ok", ""
        except vlib.Infra:
            raise
        except RuntimeError as e:
            msg = str(e.args[0]) if e.args else ""
            if is_remove and msg.lower().startswith("cannot remove"):
                return "refused", "RuntimeError: " + msg[:80]
            return "error", "RuntimeError: " + msg[:80]
        except Exception as e:
            return "error", "%s: %s" % (type(e).__name__, str(e)[:80])

    def _rule(self, name, nodes, links):
        C = self.C
        if not nodes and not links:
            raise KeyError("control without targets")
        cond = None
        for n in nodes:
            c = C.ValueCondition(n, "head", ">", 0.0)
            cond = c if cond is None else C.AndCondition(cond, c)
        if cond is None:
            cond = C.SimTimeCondition(self.wn, "=", 3600)
        acts = [C.ControlAction(l, "status", self.LinkStatus.Closed) for l in links]
        if not acts:
            acts = [C.ControlAction(nodes[0], "tag", "x")]
        return C.Rule(cond, acts, name=name)

    # ------------------------------------------------------------------------- observing every view
    def snapshot(self):
        wn, E = self.wn, self.E

        def o(x):
            return "-" if x is None else str(un(x))

        def names(l):
            return "+".join(str(un(x)) for x in l)

        def tryit(f):
            try:
                return names(f())
            except Exception:
                return "!"

        nodes = []
        for k, n in wn.nodes():
            if type(n) is E.Junction:
                d = n.demand_timeseries_list
                pat = d[0]._pattern if len(d) and isinstance(d[0]._pattern, str) else None
                nodes.append("%d:j:%s:-" % (un(k), o(pat)))
            elif type(n) is E.Tank:
                nodes.append("%d:t:-:%s" % (un(k), o(n.vol_curve_name)))
            elif type(n) is E.Reservoir:
                nodes.append("%d:r:%s:-" % (un(k), o(n.head_pattern_name)))
            else:
                raise vlib.Infra("unknown node class %s" % type(n))
        lk = {E.Pipe: "pipe", E.HeadPump: "hpump", E.PowerPump: "ppump", E.PRValve: "prv", E.PSValve: "psv",
              E.PBValve: "pbv", E.TCValve: "tcv", E.FCValve: "fcv", E.GPValve: "gpv"}
        links = []
        for k, l in wn.links():
            kind = lk[type(l)]
            pat = l.speed_pattern_name if isinstance(l, E.Pump) else None
            cur = l.pump_curve_name if kind == "hpump" else (l.headloss_curve_name if kind == "gpv" else None)
            links.append("%d:%s:%d:%d:%s:%s" % (un(k), kind, un(l.start_node_name), un(l.end_node_name), o(pat), o(cur)))
        srcs = ["%d:%d:%s" % (un(k), un(s.node_name), o(s.strength_timeseries.pattern_name)) for k, s in wn.sources()]

        def usage(reg, objkeys):
            out, obj = [], []
            for k, v in reg.usage():
                rec = "+".join("%d.%s" % (un(u), ty) for (u, ty) in v)
                if isinstance(k, str):
                    out.append("%d=%s" % (un(k), rec))
                elif objkeys and isinstance(k, self.E.Pattern):
                    obj.append("%d=%s" % (un(k.name), rec))
                else:
                    raise vlib.Infra("unexpected usage key %r" % (k,))
            return ",".join(out), ",".join(obj)

        un_, _ = usage(wn._node_reg, False)
        up_, uo_ = usage(wn._pattern_reg, True)
        uc_, _ = usage(wn._curve_reg, False)
        lists = {
            "junctions": lambda: wn.junction_name_list, "reservoirs": lambda: wn.reservoir_name_list,
            "tanks": lambda: wn.tank_name_list, "pipes": lambda: wn.pipe_name_list, "pumps": lambda: wn.pump_name_list,
            "head_pumps": lambda: wn.head_pump_name_list, "power_pumps": lambda: wn.power_pump_name_list,
            "prvs": lambda: wn.prv_name_list, "psvs": lambda: wn.psv_name_list, "pbvs": lambda: wn.pbv_name_list,
            "tcvs": lambda: wn.tcv_name_list, "fcvs": lambda: wn.fcv_name_list, "gpvs": lambda: wn.gpv_name_list,
            "valves": lambda: wn.valve_name_list, "pump_curves": lambda: wn.curves.pump_curve_names,
            "efficiency_curves": lambda: wn.curves.efficiency_curve_names,
            "headloss_curves": lambda: wn.curves.headloss_curve_names, "volume_curves": lambda: wn.curves.volume_curve_names,
        }
        iters = {
            "junctions": wn.junctions, "reservoirs": wn.reservoirs, "tanks": wn.tanks, "pipes": wn.pipes, "pumps": wn.pumps,
            "head_pumps": wn.head_pumps, "power_pumps": wn.power_pumps, "prvs": wn.prvs, "psvs": wn.psvs, "pbvs": wn.pbvs,
            "tcvs": wn.tcvs, "fcvs": wn.fcvs, "gpvs": wn.gpvs, "valves": wn.valves, "pump_curves": wn.curves.pump_curves,
            "efficiency_curves": wn.curves.efficiency_curves, "headloss_curves": wn.curves.headloss_curves,
            "volume_curves": wn.curves.volume_curves,
        }
        typed = ",".join("%s=%s" % (t, names(lists[t]())) for t in TSETS)
        it = ",".join("%s=%s" % (t, tryit(lambda t=t: [k for k, _ in iters[t]()])) for t in TSETS)
        lf = []
        for n in wn.node_name_list:
            lf.append("%d=A:%s;I:%s;O:%s" % (un(n), tryit(lambda: wn.get_links_for_node(n, "ALL")),
                                              tryit(lambda: wn.get_links_for_node(n, "INLET")),
                                              tryit(lambda: wn.get_links_for_node(n, "OUTLET"))))
        G = wn.to_graph()
        pos = {k: i for i, k in enumerate(wn.link_name_list)}
        edges = sorted(G.edges(keys=True), key=lambda e: pos.get(e[2], 10 ** 9))
        g = "%s;%s" % (names(G.nodes()), "+".join("%d>%d>%d" % (un(a), un(b), un(k)) for a, b, k in edges))

        def orph(reg):
            o_ = reg.orphaned()
            return [k for k, _ in reg.usage() if k in o_]

        def unused(reg):
            u_ = reg.unused()
            return names([k for k in reg if k in u_])

        po = orph(wn._pattern_reg)
        orp = "%s;%s;%s;%s" % (names(orph(wn._node_reg)), names([k for k in po if isinstance(k, str)]),
                               names(orph(wn._curve_reg)), names([k.name for k in po if not isinstance(k, str)]))
        unu = "%s;%s;%s" % (unused(wn._node_reg), unused(wn._pattern_reg), unused(wn._curve_reg))
        # counts must be the lengths of the name lists (checked here: the model has no separate counters)
        cnt = {"num_nodes": len(wn.node_name_list), "num_junctions": len(wn.junction_name_list), "num_tanks": len(wn.tank_name_list),
               "num_reservoirs": len(wn.reservoir_name_list), "num_links": len(wn.link_name_list), "num_pipes": len(wn.pipe_name_list),
               "num_pumps": len(wn.pump_name_list), "num_valves": len(wn.valve_name_list), "num_patterns": len(wn.pattern_name_list),
               "num_curves": len(wn.curve_name_list), "num_sources": len(wn.source_name_list), "num_controls": len(wn.control_name_list)}
        badc = [k for k, v in cnt.items() if getattr(wn, k) != v]
        d = wn.describe(level=1)
        if (d["Nodes"]["Junctions"], d["Links"]["Pumps"], d["Curves"]["Pump"]) != (
                len(wn.junction_name_list), len(wn.pump_name_list), len(wn.curves.pump_curve_names)):
            badc.append("describe")
        snap = "N %s|L %s|P %s|C %s|S %s|K %s|UN %s|UP %s|UC %s|UO %s|T %s|I %s|F %s|G %s|O %s|X %s" % (
            ",".join(nodes), ",".join(links), names(wn.pattern_name_list), names(wn.curve_name_list), ",".join(srcs),
            names(wn.control_name_list), un_, up_, uc_, uo_, typed, it, ",".join(lf), g, orp, unu)
        return snap, badc

    def pre_class(self, op):
        """input class of an op w.r.t. the state it is applied to (for stable failure keys)"""
        wn, E = self.wn, self.E
        k = op[0]

        def node(i):
            return wn._node_reg._data.get(nm(int(i)))

        def link(i):
            return wn._link_reg._data.get(nm(int(i)))

        def ncls(n):
            if n is None:
                return "unknown"
            c = type(n).__name__.lower()
            if isinstance(n, E.Junction) and len(n.demand_timeseries_list) and isinstance(n.demand_timeseries_list[0]._pattern, str):
                c += "+pattern"
            if isinstance(n, E.Reservoir) and n.head_pattern_name:
                c += "+pattern"
            if isinstance(n, E.Tank) and n.vol_curve_name:
                c += "+curve"
            return c

        def lcls(l):
            if l is None:
                return "unknown"
            c = "pump" if isinstance(l, E.Pump) else ("valve" if isinstance(l, E.Valve) else "pipe")
            if isinstance(l, E.Pump) and l.speed_pattern_name:
                c += "+speed-pattern"
            if l.start_node_name == l.end_node_name:
                c = "link+selfloop"
            return c

        if k in ("aj", "at", "ar"):
            return "duplicate-name" if node(op[1]) is not None else "new"
        if k in ("ap", "apu", "av"):
            if link(op[1]) is not None:
                return "duplicate-name"
            if node(op[2]) is None:
                return "unknown-start-node"
            if node(op[3]) is None:
                return "unknown-end-node"
            c = "selfloop" if op[2] == op[3] else "new"
            if k == "apu" and op[4] == "H" and nm(int(op[5])) not in wn._curve_reg._data:
                c += "+unknown-curve"
            if k == "av" and op[4] == "gpv" and nm(int(op[5])) not in wn._curve_reg._data:
                c += "+unknown-curve"
            return c
        if k == "asrc":
            if nm(int(op[1])) in wn._sources._data:
                return "duplicate-name"
            return "pattern" if op[3] != "-" and nm(int(op[3])) in wn._pattern_reg._data else "no-pattern"
        if k == "rn":
            return ncls(node(op[1]))
        if k == "rl":
            return lcls(link(op[1]))
        if k == "rsrc":
            s = wn._sources._data.get(nm(int(op[1])))
            return "unknown" if s is None else ("pattern" if s.strength_timeseries.pattern_name else "no-pattern")
        if k in ("ss", "se"):
            return lcls(link(op[1]))
        if k in ("rcur",):
            c = nm(int(op[1]))
            typed = any(c in s for s in (wn.curves.pump_curve_names, wn.curves.efficiency_curve_names,
                                         wn.curves.headloss_curve_names, wn.curves.volume_curve_names))
            return "typed" if typed else "untyped"
        if k in ("spc", "shc"):
            return "known-curve" if nm(int(op[2])) in wn._curve_reg._data else "unknown-curve"
        return "any"


OPNAME = {"aj": "add_junction", "at": "add_tank", "ar": "add_reservoir", "ap": "add_pipe", "apu": "add_pump", "av": "add_valve",
          "apat": "add_pattern", "acur": "add_curve", "asrc": "add_source", "actl": "add_control", "rn": "remove_node",
          "rl": "remove_link", "rpat": "remove_pattern", "rcur": "remove_curve", "rsrc": "remove_source", "rctl": "remove_control",
          "ss": "set_start_node", "se": "set_end_node", "ssp": "set_speed_pattern", "spc": "set_pump_curve",
          "shp": "set_head_pattern", "svc": "set_vol_curve", "shc": "set_headloss_curve"}


# ----------------------------------------------------------------------------- generator


class Gen:
    """one op at a time, looking at the implementation's current name lists for valid references"""

    def __init__(self, rng, wn, malformed):
        self.rng, self.wn, self.bad = rng, wn, malformed
        self.next = 1
        # most histories start from a small base (one element of the classes that other ops refer to)
        self.prefix = []
        if rng.random() < 0.6:
            base = [["apat", "%d"], ["acur", "%d", "HEAD"], ["acur", "%d", "VOLUME"], ["acur", "%d", "HEADLOSS"], ["aj", "%d", "-"],
                    ["aj", "%d", "-"], ["ar", "%d", "-"], ["at", "%d", "-"]]
            rng.shuffle(base)
            for b in base[: rng.randint(3, 6)]:
                self.prefix.append([b[0], b[1] % self.fresh()] + b[2:])

    def fresh(self):
        self.next += 1
        return self.next

    def some(self, names, p_none=0.0):
        r = self.rng
        if p_none and r.random() < p_none:
            return "-"
        if self.bad and r.random() < 0.2:
            # an unknown name, or a name of some other registry
            pool = self.wn.node_name_list + self.wn.link_name_list + self.wn.pattern_name_list + self.wn.curve_name_list
            if pool and r.random() < 0.5:
                return str(un(r.choice(pool)))
            return str(900 + r.randint(0, 5))
        if not names:
            return None
        return str(un(r.choice(list(names))))

    def newname(self, existing):
        if self.bad and existing and self.rng.random() < 0.25:
            return str(un(self.rng.choice(list(existing))))  # duplicate name
        return str(self.fresh())

    def op(self):
        if self.prefix:
            return self.prefix.pop(0)
        r, wn = self.rng, self.wn
        nodes, links = wn.node_name_list, wn.link_name_list
        juncs = wn.junction_name_list
        kinds = ["aj", "at", "ar", "ap", "apu", "av", "apat", "acur", "asrc", "actl", "rn", "rl", "rpat", "rcur", "rsrc", "rctl",
                 "ss", "se", "ssp", "spc", "shp", "svc", "shc"]
        weights = [4, 3, 3, 8, 10, 10, 3, 3, 5, 7, 13, 9, 7, 7, 7, 7, 5, 5, 6, 11, 4, 4, 13]
        need = {"ap": nodes, "apu": nodes, "av": nodes, "asrc": nodes, "actl": nodes, "rn": nodes, "rl": links,
                "rpat": wn.pattern_name_list, "rcur": wn.curve_name_list, "rsrc": wn.source_name_list, "rctl": wn.control_name_list,
                "ss": links, "se": links, "ssp": wn.pump_name_list, "spc": wn.head_pump_name_list, "shp": wn.reservoir_name_list,
                "svc": wn.tank_name_list, "shc": wn.gpv_name_list}
        weights = [w if (k not in need or need[k] or (self.bad and (nodes or links))) else 0 for k, w in zip(kinds, weights)]
        for _ in range(50):
            k = r.choices(kinds, weights)[0]
            if len(nodes) < 2 and k not in ("aj", "at", "ar", "apat", "acur") and r.random() < 0.8:
                continue
            if k == "aj":
                p = self.some(wn.pattern_name_list, 0.5)
                return [k, self.newname(nodes), p or "-"]
            if k == "at":
                c = self.some(wn.curves.volume_curve_names if not self.bad or r.random() < 0.7 else wn.curve_name_list, 0.5)
                return [k, self.newname(nodes), c or "-"]
            if k == "ar":
                p = self.some(wn.pattern_name_list, 0.5)
                return [k, self.newname(nodes), p or "-"]
            if k in ("ap", "apu", "av"):
                pool = nodes
                if k == "av":
                    kind = "gpv" if r.random() < 0.3 else r.choice(VALVES)
                    if kind in ("prv", "psv", "fcv") and not (self.bad and r.random() < 0.3):
                        pool = juncs
                a, b = self.some(pool), self.some(pool)
                if a is None or b is None:
                    continue
                if a == b and r.random() < 0.9 and len(pool) > 1:
                    continue  # self loops stay rare
                name = self.newname(links)
                if k == "ap":
                    return [k, name, a, b]
                if k == "apu":
                    p = self.some(wn.pattern_name_list, 0.5) or "-"
                    if r.random() < 0.5:
                        c = self.some(wn.curve_name_list)
                        if c is None:
                            continue
                        return [k, name, a, b, "H", c, p]
                    return [k, name, a, b, "P", "-", p]
                c = "-"
                if kind == "gpv":
                    c = self.some(wn.curve_name_list)
                    if c is None:
                        continue
                return [k, name, a, b, kind, c]
            if k == "apat":
                return [k, self.newname(wn.pattern_name_list)]
            if k == "acur":
                name = str(un(r.choice(wn.curve_name_list))) if wn.curve_name_list and r.random() < 0.1 else str(self.fresh())
                return [k, name, r.choice(CTYPES + (["-"] if r.random() < 0.3 else []))]
            if k == "asrc":
                n = self.some(nodes)
                if n is None:
                    continue
                return [k, self.newname(wn.source_name_list), n, self.some(wn.pattern_name_list, 0.4) or "-"]
            if k == "actl":
                ns = [self.some(nodes) for _ in range(r.choice([0, 1, 1, 2]))]
                ls = [self.some(links) for _ in range(r.choice([0, 1, 1, 2]))]
                ns, ls = [x for x in ns if x], [x for x in ls if x]
                if not ns and not ls:
                    continue
                return [k, self.newname(wn.control_name_list), ",".join(ns) or "-", ",".join(ls) or "-"]
            if k in ("rn", "rl"):
                pool = nodes if k == "rn" else links
                if k == "rn" and r.random() < 0.6:
                    pool = [n for n in nodes if wn._node_reg.get_usage(n)] or nodes
                t = self.some(pool)
                if t is None:
                    continue
                return [k, t, r.choice("0001"), r.choice("00001")]
            if k in ("rpat", "rcur", "rsrc", "rctl"):
                pool = {"rpat": wn.pattern_name_list, "rcur": wn.curve_name_list, "rsrc": wn.source_name_list,
                        "rctl": wn.control_name_list}[k]
                if k in ("rpat", "rcur") and r.random() < 0.7:
                    reg = wn._pattern_reg if k == "rpat" else wn._curve_reg
                    pool = [n for n in pool if reg.get_usage(n)] or pool
                t = self.some(pool)
                if t is None:
                    continue
                return [k, t]
            if k in ("ss", "se"):
                l, n = self.some(links), self.some(nodes)
                if l is None or n is None:
                    continue
                return [k, l, n]
            if k == "ssp":
                l = self.some(wn.pump_name_list if not self.bad else links)
                if l is None:
                    continue
                return [k, l, self.some(wn.pattern_name_list, 0.3) or "-"]
            if k == "spc":
                l, c = self.some(wn.head_pump_name_list if not self.bad else links), self.some(wn.curve_name_list)
                if l is None or c is None:
                    continue
                return [k, l, c]
            if k == "shc":
                l, c = self.some(wn.gpv_name_list if not self.bad else links), self.some(wn.curve_name_list)
                if l is None or c is None:
                    continue
                return [k, l, c]
            if k == "shp":
                n = self.some(wn.reservoir_name_list if not self.bad else nodes)
                if n is None:
                    continue
                return [k, n, self.some(wn.pattern_name_list, 0.3) or "-"]
            if k == "svc":
                n = self.some(wn.tank_name_list if not self.bad else nodes)
                if n is None:
                    continue
                return [k, n, self.some(wn.curve_name_list, 0.3) or "-"]
        return ["aj", str(self.fresh()), "-"]


# ----------------------------------------------------------------------------- the check


def strip_model_only(snap):
    return snap


class C14(Check):
    pid = "C14"
    level = "proof"
    prop_modules = ["WntrModel.Props.C14"]
    manifest = dict(
        category="proof",
        text="Lean theorems over a line-by-line model of the WNTR registries (nodes, links, patterns, curves, sources, controls, "
        "the usage maps and the typed ordered sets): the consistency invariant (typed sets = elements of the class, end nodes exist, "
        "usage records <-> existing referring elements) holds initially and is preserved by EVERY add/remove/reassign operation with "
        "arbitrary (also invalid) arguments, hence after every finite history; under the invariant typed iterators never raise, "
        "get_links_for_node is the incidence relation and to_graph has exactly the model's nodes and links; a refused removal returns "
        "the same state; in-use elements are refused. The model is tied to the code by a differential run after every op of random "
        "histories, and the Lean invariant is evaluated on the state observed on the implementation.",
        design_ref="DESIGN.md §4 M3, §5 C14",
        note="modelled, not verified: Python dict/OrderedSet semantics, object identity of controls (uids); not modelled: multiple "
        "demands per junction, Pattern/Curve objects passed instead of names, INP/dict readers, leaks, renaming of sources. "
        "The theorems are about the code after fixes/C14-*.patch; the coded variant is kept in the model and refuted by `decide`.",
        technique="Lean 4 invariant proof over an executable registry model + differential run against the Lean driver after every operation",
    )
    rule = (
        "obligations: theorems of Props/C14.lean. correspondence cases: one per executed op (history prefix), compared on outcome class "
        "and the full canonical snapshot; distinct = distinct (op kind, input class, outcome); non-trivial = the op changed the snapshot "
        "or was refused"
    )
    trusted_base = [
        "hand-written model lean/WntrModel/Model/Registry.lean (checked against the implementation after every op of every generated history)",
        "harness/props/c14.py (snapshot of the implementation's views; op wrappers that reject class-mismatched setter ops)",
    ]
    assumptions = [
        "element names are non-empty strings; no pattern is named like options.hydraulic.pattern ('1'); patterns have >= 1 multiplier",
        "volume curves span the default tank levels; names/references are strings (no Pattern/Curve objects passed to add_*)",
        "_link_reg._usage and _sources._usage are never written (no code path does)",
    ]

    # ------------------------------------------------------------------
    def translate(self, ctx):
        return

    def variant(self):
        return os.environ.get("VERIF_C14_VARIANT", "repaired")

    def run_history(self, impl, ops=None, gen=None, length=0):
        """execute on the implementation; returns list of (op, outcome, detail, snapshot, badcounts, preclass)"""
        impl.fresh()
        snap0, _ = impl.snapshot()
        steps = []
        g = gen(impl.wn) if gen else None
        n = len(ops) if ops is not None else length
        for i in range(n):
            op = ops[i] if ops is not None else g.op()
            pc = impl.pre_class(op)
            out, detail = impl.apply(op)
            snap, badc = impl.snapshot()
            steps.append((op, out, detail, snap, badc, pc))
        return snap0, steps

    def lean_batch(self, histories):
        """histories: list of (snap0, steps). Returns per history list of (model_out, model_snap, oracle_line)."""
        lines = []
        for snap0, steps in histories:
            lines.append("reset " + self.variant())
            for (op, out, detail, snap, badc, pc) in steps:
                lines.append(" ".join(op))
                lines.append("snap")
                lines.append("check " + snap)
        out = vlib.lean_run(DRIVER, "\n".join(lines) + "\n")
        if len(out) != len(lines):
            raise vlib.Infra("driver returned %d lines for %d requests" % (len(out), len(lines)))
        res, i = [], 0
        for snap0, steps in histories:
            if out[i] != "ready":
                raise vlib.Infra("driver: " + out[i])
            i += 1
            r = []
            for _ in steps:
                r.append((out[i], out[i + 1], out[i + 2]))
                i += 3
            res.append(r)
        return res

    @staticmethod
    def model_part(snap):
        """the implementation snapshot carries X (unused) which the model snapshot also prints; both full"""
        return snap

    def judge(self, snap0, steps, lean):
        """first property failure / first model disagreement of one history.
        returns (failure|None, broken|None, n_used)"""
        prev = snap0
        for i, ((op, out, detail, snap, badc, pc), (mout, msnap, oracle)) in enumerate(zip(steps, lean)):
            opname = OPNAME[op[0]]
            if oracle.startswith("bad-snapshot") or mout == "bad-op":
                raise vlib.Infra("driver could not parse: %s / %s" % (" ".join(op), oracle))
            hist = [s[0] for s in steps[: i + 1]]
            rep = {"ops": [" ".join(o) for o in hist], "failing_op": " ".join(op), "impl_outcome": out, "impl_detail": detail,
                   "observed_snapshot": snap, "oracle": oracle}
            inv_ok = oracle.startswith("inv:true")
            views_ok = oracle.endswith("views:ok")
            if not inv_ok or not views_ok or badc:
                key = "%s-%s" % (opname, pc)
                what = "%s (%s): views disagree after `%s` -> %s%s" % (opname, pc, " ".join(op), oracle,
                                                                       (" counts:" + ",".join(badc)) if badc else "")
                rep["expected"] = "inv:true views:ok (all views agree)"
                return Failure(key, what, rep), None, i + 1
            if out == "refused" and snap != prev:
                key = "%s-%s-refused-changed" % (opname, "with_control" if len(op) > 2 and op[2] == "1" else "plain")
                rep["expected"] = "a refused removal leaves every view unchanged"
                rep["before"] = prev
                return Failure(key, "%s (%s): refused but the model changed after `%s`" % (opname, pc, " ".join(op)), rep), None, i + 1
            if mout != out or msnap != snap:
                d = "history: %s\nimpl : %s %s\nmodel: %s %s" % ("; ".join(" ".join(o) for o in hist), out, snap, mout, msnap)
                return None, Broken("correspondence", "Registry model vs implementation at `%s` (%s)" % (" ".join(op), pc), d), i + 1
            prev = snap
        return None, None, len(steps)

    # ------------------------------------------------------------------
    def correspondence(self, ctx):
        impl = Impl()
        rng = ctx.rng
        failures, broken = [], []
        histories, meta = [], []
        # corpus first
        for fn, item in vlib.corpus_items("C14"):
            ops = [o.split() for o in item["ops"]]
            histories.append(self.run_history(impl, ops=ops))
            meta.append(("corpus:" + fn, ops))
        nh = (60, 45) if ctx.quick else (260, 160)
        maxlen = 40 if ctx.quick else 400
        for stream, count in (("valid", nh[0]), ("malformed", nh[1])):
            for h in range(count):
                if ctx.quick:
                    length = rng.randint(15, maxlen)
                else:
                    length = rng.choice([rng.randint(5, 40), rng.randint(40, 120), rng.randint(120, maxlen)]) if h % 4 == 0 else rng.randint(5, 60)
                histories.append(self.run_history(impl, gen=lambda wn, s=stream: Gen(rng, wn, s == "malformed"), length=length))
                meta.append((stream, None))
        lean = self.lean_batch(histories)
        for (snap0, steps), lr, (stream, _) in zip(histories, lean, meta):
            f, b, used = self.judge(snap0, steps, lr)
            prev = snap0
            for (op, out, detail, snap, badc, pc) in steps[:used]:
                ctx.case((op[0], pc, out), nontrivial=(snap != prev or out == "refused"))
                ctx.count("op:" + OPNAME[op[0]])
                ctx.count("outcome:" + out)
                ctx.count("stream:" + stream.split(":")[0])
                prev = snap
            if f is not None:
                failures.append(f)
            if b is not None:
                broken.append(b)
            if len(ctx.samples) < 4 and steps and f is None and b is None:
                ctx.sample({"stream": stream, "ops": [" ".join(s[0]) for s in steps[:12]], "outcomes": [s[1] for s in steps[:12]],
                            "final_snapshot": steps[min(len(steps), 12) - 1][3][:400]})
        failures = self.shrink_all(impl, failures, 90 if ctx.quick else 300)
        ctx.cov["histories"] = len(histories)
        ctx.cov["model_variant"] = self.variant()
        # one Broken per distinct op kind is enough
        seen, ub = set(), []
        for b in broken:
            if b.name not in seen:
                seen.add(b.name)
                ub.append(b)
        return failures, ub[:5]

    def first_failure(self, impl, ops_list):
        hs = [self.run_history(impl, ops=ops) for ops in ops_list]
        lean = self.lean_batch(hs)
        out = []
        for (snap0, steps), lr in zip(hs, lean):
            f, b, used = self.judge(snap0, steps, lr)
            out.append((f, used))
        return out

    def shrink_all(self, impl, failures, budget_s):
        """keep the shortest history per key and delta-debug it (time-boxed)"""
        import time

        best = {}
        for f in failures:
            if f.key not in best or len(f.replay["ops"]) < len(best[f.key].replay["ops"]):
                best[f.key] = f
        t0 = time.time()
        out = []
        for key in sorted(best):
            f = best[key]
            if time.time() - t0 < budget_s:
                f = self.shrink(impl, f)
            out.append(f)
        return out

    def shrink(self, impl, f):
        """ddmin on the op list (the failing op stays last), keeping the failure key"""
        ops = [o.split() for o in f.replay["ops"]]
        best = f
        n = 2
        while len(ops) >= 2:
            body = len(ops) - 1
            size = max(1, body // n)
            cands = [ops[:i] + ops[i + size:body] + [ops[-1]] for i in range(0, body, size)]
            res = self.first_failure(impl, cands)
            hit = None
            for cand, (g, used) in zip(cands, res):
                if g is not None and g.key == f.key:
                    hit = (cand[:used], g)
                    break
            if hit is not None:
                ops, best = hit
                n = max(n - 1, 2)
            elif size == 1:
                break
            else:
                n = min(n * 2, body)
        best.replay["how"] = "/venv/bin/python harness/check.py C14 --replay <this file>"
        return best

    def search(self, ctx, broken):
        """wider malformed + valid streams on the implementation with the Lean oracle"""
        impl = Impl()
        rng = ctx.rng
        hs = []
        for h in range(150 if ctx.quick else 500):
            stream = "malformed" if h % 2 else "valid"
            hs.append(self.run_history(impl, gen=lambda wn, s=stream: Gen(rng, wn, s == "malformed"), length=rng.randint(10, 60)))
        lean = self.lean_batch(hs)
        out = []
        keys = set()
        for (snap0, steps), lr in zip(hs, lean):
            f, b, used = self.judge(snap0, steps, lr)
            if f is not None:
                out.append(f)
        return self.shrink_all(impl, out, 90 if ctx.quick else 300)

    def replay(self, ctx, path):
        r = json.load(open(path if os.path.isabs(path) else os.path.join(vlib.VERIF, path)))
        rp = r.get("replay", r)
        ops = [o.split() for o in rp["ops"]]
        impl = Impl()
        hs = [self.run_history(impl, ops=ops)]
        lean = self.lean_batch(hs)
        for (op, out, detail, snap, badc, pc), (mout, msnap, oracle) in zip(hs[0][1], lean[0]):
            print("%-28s impl=%-8s model=%-8s %s %s" % (" ".join(op), out, mout, oracle, detail))
        f, b, used = self.judge(hs[0][0], hs[0][1], lean[0])
        if f is not None:
            print("replay: REPRODUCED %s -- %s" % (f.key, f.what))
            return 1
        print("replay: not reproduced on the current tree" + (" (model disagreement: %s)" % b.name if b else ""))
        return 0


if __name__ == "__main__":
    vlib.run_check(C14)
