"""ast translator for C18: wntr/metrics/topographic.py `valve_segments`, `_valve_criticality`, `_valve_criticality_demand`,
`_valve_criticality_length` -> typed tokens of `Model/SegmentsShape.lean` (`Gen/SegmentsShape.lean`).

Every statement of the functions is either recognised (its unparsed text, with the definitions of the local names it uses, is one
of the known forms -> a token) or becomes `.other` (the theorem `generated_segments_shape_is_ref` of Props/C18.lean then fails and
names the function as edited).  The whole text of each pass is also written out for reading."""
import ast
import json
import os


class Bad(Exception):
    pass


def U(n):
    return ast.unparse(n)


def _fn(tree, name):
    for n in tree.body:
        if isinstance(n, ast.FunctionDef) and n.name == name:
            return n
    raise Bad("function %s not found in wntr/metrics/topographic.py" % name)


SETUP = ["uG = G.to_undirected()", "node_names = ['N_' + n for n in uG.nodes()]", "link_names = ['L_' + k for u, v, k in uG.edges(keys=True)]",
         "all_names = node_names + link_names", "seg_index = 0", "seg_label = np.zeros(shape=len(all_names), dtype=int)"]
VALVED = ["valved_link_names = list(valve_layer['link'].unique())", "valved_edges = []",
          "for edge in uG.edges:\n    link_name = edge[2]\n    if link_name in valved_link_names:\n        valved_edges.append(edge)",
          "uG.remove_edges_from(valved_edges)"]
FINISH = ["seg_labels_index = all_names", "seg_label = pd.Series(seg_label, index=seg_labels_index, dtype=int)", "node_segments = seg_label[node_names]",
          "link_segments = seg_label[link_names]", "node_segments.index = node_segments.index.str[2:]", "link_segments.index = link_segments.index.str[2:]",
          "seg_link_sizes = link_segments.value_counts().rename('link')", "seg_node_sizes = node_segments.value_counts().rename('node')",
          "seg_sizes = pd.concat([seg_link_sizes, seg_node_sizes], axis=1).fillna(0)", "seg_sizes = seg_sizes.astype(int)",
          "return (node_segments, link_segments, seg_sizes)"]

ITER = {"for start_node, end_node, link_name in uG.edges(keys=True)": ".edges", "for node_name in node_names": ".nodeNames",
        "for component in nx.connected_components(uG)": ".components", "for edge in uG.edges(keys=True)": ".unvalvedEdges",
        "for valved_edge in valved_edges": ".valvedEdges"}

# (prelude statements of the loop body, test text) -> token
TEST = {
    (("link_valves = valve_layer[valve_layer['link'] == link_name]",), "set(link_valves['node']) >= set([start_node, end_node])"): ".nodesCoverEnds",
    (("node_valves = valve_layer[valve_layer['node'] == node_name]", "node_links = [k for u, v, k in uG.edges(node_name[2:], keys=True)]"),
     "set(node_valves['link']) >= set(node_links)"): ".linksCoveredPrefixed",
    (("node_valves = valve_layer[valve_layer['node'] == node_name[2:]]", "node_links = [k for u, v, k in uG.edges(node_name[2:], keys=True)]"),
     "set(node_valves['link']) >= set(node_links)"): ".linksCovered",
}
P6_PRE = ("node1_name, node2_name, link_name = valved_edge", "link_valves = valve_layer[valve_layer['link'] == link_name]",
          "link_index = all_names.index('L_' + link_name)")
P6B_PRE = ("both_node_names = [node1_name, node2_name]", "valved_node_name = link_valves.iloc[0]['node']", "both_node_names.remove(valved_node_name)",
           "unvalved_node_name = both_node_names[0]", "unvalved_node_index = all_names.index('N_' + unvalved_node_name)")
P5_PRE = ("node1, node2, link_name = edge", "node1 = all_names.index('N_' + node1)", "link_index = all_names.index('L_' + link_name)")
P5_PRE2 = ("node1, node2, link_name = edge", "node2 = all_names.index('N_' + node2)", "link_index = all_names.index('L_' + link_name)")

OPS = {"seg_index += 1": ".incIndex", "seg_label[all_names.index('L_' + link_name)] = seg_index": ".linkGetsIndex",
       "seg_label[all_names.index(node_name)] = seg_index": ".nodeGetsIndex",
       "for node in component:\n    index = all_names.index('N_' + node)\n    seg_label[index] = seg_index": ".compNodesGetIndex",
       "continue": ".keep"}


def ops_of(stmts, extra=None):
    d = dict(OPS)
    d.update(extra or {})
    out = []
    for s in stmts:
        t = U(s)
        if isinstance(s, ast.Raise):
            out.append(".raise_")
        else:
            out.append(d.get(t, ".other"))
    return out


def lean_list(xs):
    return "[" + ", ".join(xs) + "]"


def branch(test, ops):
    return "{ test := %s, ops := %s }" % (test, lean_list(ops))


def chain(node):
    """if / elif / else chain -> [(test text or None, body)]"""
    out = []
    while True:
        out.append((U(node.test), node.body))
        if len(node.orelse) == 1 and isinstance(node.orelse[0], ast.If):
            node = node.orelse[0]
        else:
            if node.orelse:
                out.append((None, node.orelse))
            return out


def segments_shape(f, texts):
    body = [s for s in f.body if not (isinstance(s, ast.Expr) and isinstance(s.value, ast.Constant))]
    sh = {}
    # de-duplication
    first = body[0] if body else None
    if (isinstance(first, ast.If) and U(first.test) == "valve_layer.duplicated().any()" and first.body and not first.orelse
            and U(first.body[0]) == "valve_layer.drop_duplicates(inplace=True)"
            and all(isinstance(s, ast.Expr) and U(s).startswith("warnings.warn(") for s in first.body[1:])):
        sh["dedup"] = ".dropDuplicatesInPlace"
        body = body[1:]
    elif not any("duplicate" in U(s) for s in body):
        sh["dedup"] = ".none"
    else:
        sh["dedup"] = ".other"
    loops = [k for k, s in enumerate(body) if isinstance(s, ast.For)]
    plain = [U(s) for s in body if not isinstance(s, ast.For)]
    if len(loops) != 6:
        raise Bad("valve_segments: expected 6 top-level loops (isolated links, isolated nodes, collect valved edges, components, "
                  "unvalved links, valved links), found %d" % len(loops))
    pre = [U(s) for s in body[:loops[0]]]
    sh["start"] = "[]" if pre == SETUP else "[.other]"
    texts.append(("setup", pre))
    mid = [U(s) for s in body[loops[1] + 1:loops[3]]]
    sh["valved"] = ".anyRow" if mid == VALVED else ".other"
    texts.append(("valved links", mid))
    fin = [U(s) for s in body[loops[5] + 1:]]
    sh["finish"] = ".splitByNamesAndValueCounts" if fin == FINISH else ".other"
    texts.append(("finish", fin))
    between = [U(s) for k in (0, 3, 4) for s in body[loops[k] + 1:loops[k + 1 if k != 0 else 1]]]
    if between:
        sh["start"] = "[.other]"  # statements between passes that the skeleton has no place for
        texts.append(("between passes", between))
    passes = []
    for k in (0, 1, 3, 4, 5):
        lp = body[loops[k]]
        it = ITER.get(U(lp).split("\n")[0].rstrip(":"), ".other")
        texts.append(("pass %d" % (len(passes) + 1), U(lp).split("\n")))
        stm = lp.body
        if it in (".edges", ".nodeNames"):
            prelude = tuple(U(s) for s in stm[:-1])
            last = stm[-1] if stm else None
            if isinstance(last, ast.If) and not last.orelse:
                passes.append("{ iter := %s, branches := [%s] }" % (it, branch(TEST.get((prelude, U(last.test)), ".other"), ops_of(last.body))))
            else:
                passes.append("{ iter := %s, branches := [%s] }" % (it, branch(".other", [".other"])))
        elif it == ".components":
            passes.append("{ iter := %s, branches := [%s] }" % (it, branch(".always", ops_of(stm))))
        elif it == ".unvalvedEdges":
            prelude = tuple(U(s) for s in stm[:-1])
            last = U(stm[-1]) if stm else ""
            if prelude == P5_PRE and last == "seg_label[link_index] = seg_label[node1]":
                ops = [".linkGetsFirstNode"]
            elif prelude == P5_PRE2 and last == "seg_label[link_index] = seg_label[node2]":
                ops = [".linkGetsSecondNode"]
            else:
                ops = [".other"]
            passes.append("{ iter := %s, branches := [%s] }" % (it, branch(".always", ops)))
        elif it == ".valvedEdges":
            prelude = tuple(U(s) for s in stm[:-1])
            last = stm[-1] if stm else None
            outer, inner = [], [branch(".other", [".other"])]
            if prelude == P6_PRE and isinstance(last, ast.If):
                for (t, b) in chain(last):
                    if t is None:
                        outer.append(branch(".always", ops_of(b)))
                    elif t.startswith("link_valves.shape[0] == ") and t.split("== ")[1].isdigit():
                        c = int(t.split("== ")[1])
                        inner_if = b[-1] if b else None
                        if c == 1 and tuple(U(s) for s in b[:-1]) == P6B_PRE and isinstance(inner_if, ast.If):
                            outer.append(branch(".rowsEq 1", []))
                            ex = {"seg_label[unvalved_node_index] = seg_index": ".otherEndGetsIndex", "seg_label[link_index] = seg_index": ".linkGetsIndex",
                                  "seg_label[link_index] = seg_label[unvalved_node_index]": ".linkGetsOtherEnd"}
                            inner = []
                            for (t2, b2) in chain(inner_if):
                                tt = ".always" if t2 is None else (".otherEndUnlabelled" if t2 == "seg_label[unvalved_node_index] == 0" else ".other")
                                inner.append(branch(tt, ops_of(b2, ex)))
                        else:
                            outer.append(branch(".rowsEq %d" % c, ops_of(b) if c != 1 else [".other"]))
                    else:
                        outer.append(branch(".other", ops_of(b)))
            else:
                outer = [branch(".other", [".other"])]
            passes.append("{ iter := %s, branches := %s }" % (it, lean_list(outer)))
            passes.append("{ iter := %s, branches := %s }" % (it, lean_list(inner)))
        else:
            passes.append("{ iter := .other, branches := [] }")
    sh["passes"] = passes
    return sh


def crit_shape(f, kind, texts):
    """kind: 'surround' | 'demand' | 'length' -> dict of tokens"""
    loops = [s for s in f.body if isinstance(s, ast.For)]
    out = {"same": ".other", "touch": ".other", "count": ".other", "over": ".other", "zero": ".other", "f": ".other"}
    if len(loops) != 1 or U(loops[0].iter) != "valve_layer.index":
        return out
    lp = loops[0]
    texts.append((f.name, U(lp).split("\n")))
    b = lp.body
    heads = [U(s) for s in b[:2]]
    if heads != ["node_seg = node_segments[valve_layer.loc[i, 'node']]", "link_seg = link_segments[valve_layer.loc[i, 'link']]"]:
        return out
    iff = b[2] if len(b) > 2 and isinstance(b[2], ast.If) else None
    if iff is None or len(b) != 4 or not U(b[3]).startswith("VC[i] = "):
        return out
    var = U(b[3]).split("= ")[1]
    if U(iff.test) == "node_seg == link_seg" and len(iff.body) == 1 and U(iff.body[0]) in (var + " = 0", var + " = 0.0"):
        out["same"] = ".zero"
    els = [U(s) for s in iff.orelse]
    if kind == "surround":
        ref_touch = [
            "V_list = []",
            "links_in_segs = link_segments[(link_segments == link_seg) | (link_segments == node_seg)].index",
            "nodes_in_segs = node_segments[(node_segments == link_seg) | (node_segments == node_seg)].index",
            "for link in links_in_segs:\n    valves = valve_layer[valve_layer['link'] == link].index\n    if len(valves) == 0:\n        pass\n    else:\n"
            "        for valve in valves:\n            if valve in V_list:\n                pass\n            else:\n                V_list.append(valve)",
            "for node in nodes_in_segs:\n    valves = valve_layer[valve_layer['node'] == node].index\n    if len(valves) == 0:\n        pass\n    else:\n"
            "        for valve in valves:\n            if valve in V_list:\n                pass\n            else:\n                V_list.append(valve)"]
        if els[:-1] == ref_touch:
            out["touch"] = ".linkOrNodeInEitherSegment"
        out["count"] = {var + " = len(V_list) - 1": ".lenMinusOne", var + " = len(V_list)": ".len"}.get(els[-1] if els else "", ".other")
        return out
    S, seg, A, B, src = ("node_demands", "node_segments", "D_node", "D_link", "nodes") if kind == "demand" else ("link_lengths", "link_segments", "L_node", "L_link", "links")
    ref_over = ["%s_in_node_seg = %s[%s == node_seg].index" % (src, seg, seg), "n_ixs = %s.index.intersection(%s_in_node_seg)" % (S, src),
                None, "%s_in_link_seg = %s[%s == link_seg].index" % (src, seg, seg), "l_ixs = %s.index.intersection(%s_in_link_seg)" % (S, src), None]
    sums = {2: ("%s = %s.loc[n_ixs].sum()" % (A, S), "%s = %s[n_ixs].sum()" % (A, S)), 5: ("%s = %s.loc[l_ixs].sum()" % (B, S), "%s = %s[l_ixs].sum()" % (B, S))}
    if len(els) == 7 and all((els[k] == ref_over[k]) if ref_over[k] is not None else (els[k] in sums[k]) for k in range(6)):
        out["over"] = ".nodesOfSegment" if kind == "demand" else ".linksOfSegment"
    last = iff.orelse[-1] if iff.orelse else None
    if isinstance(last, ast.If) and U(last.test) == "%s == 0 and %s == 0" % (A, B) and len(last.body) == 1 and U(last.body[0]) in (var + " = 0", var + " = 0.0"):
        out["zero"] = ".bothZeroGivesZero"
        if len(last.orelse) == 1 and U(last.orelse[0]) == "%s = (%s + %s) / max(%s, %s) - 1" % (var, B, A, B, A):
            out["f"] = ".sumOverMaxMinusOne"
    return out


def translate(repo):
    src = open(os.path.join(repo, "wntr", "metrics", "topographic.py")).read()
    tree = ast.parse(src)
    texts = []
    sh = segments_shape(_fn(tree, "valve_segments"), texts)
    a = crit_shape(_fn(tree, "_valve_criticality"), "surround", texts)
    d = crit_shape(_fn(tree, "_valve_criticality_demand"), "demand", texts)
    l = crit_shape(_fn(tree, "_valve_criticality_length"), "length", texts)
    # valve_segment_attributes: which helper fills which column
    va = _fn(tree, "valve_segment_attributes")
    cols = [U(s) for s in ast.walk(va) if isinstance(s, ast.Assign) and U(s.targets[0]).startswith("valve_attr[")]
    ref_cols = ["valve_attr['num_surround'] = _valve_criticality(valve_layer, node_segments, link_segments)",
                "valve_attr['demand_increase'] = _valve_criticality_demand(demand, valve_layer, node_segments, link_segments)",
                "valve_attr['length_increase'] = _valve_criticality_length(length, valve_layer, node_segments, link_segments)"]
    texts.append(("valve_segment_attributes", cols))
    if cols != ref_cols:
        a["same"] = ".other"
    q = json.dumps
    out = ["/- GENERATED by harness/props/c18_translate.py from wntr/metrics/topographic.py (`valve_segments`, `_valve_criticality*`). Do not edit:",
           "   rewritten on every run of check C18.  Props/C18.lean proves `Gen.segShape = Shape.refShape`. -/",
           "import WntrModel.Model.SegmentsShape", "namespace Wntr.Segments.Shape.Gen", "open Wntr.Segments.Shape", "",
           "def segShape : SegShape :=", "  { dedup := %s" % sh["dedup"], "    start := %s" % sh["start"], "    valved := %s" % sh["valved"],
           "    finish := %s" % sh["finish"], "    passes := [", ",\n".join("      " + p for p in sh["passes"]) + "]",
           "    attrs :=", "      { surroundSame := %s, touch := %s, count := %s," % (a["same"], a["touch"], a["count"]),
           "        demandSame := %s, demandOver := %s, demandZero := %s, demandF := %s," % (d["same"], d["over"], d["zero"], d["f"]),
           "        lengthSame := %s, lengthOver := %s, lengthZero := %s, lengthF := %s } }" % (l["same"], l["over"], l["zero"], l["f"]), "",
           "/-- the source of every part, for reading -/", "def segTexts : List (String × List String) := ["]
    out.append(",\n".join("  (%s, [%s])" % (q(k), ", ".join(q(x) for x in v)) for k, v in texts) + "]")
    out += ["", "end Wntr.Segments.Shape.Gen", ""]
    return "\n".join(out)


if __name__ == "__main__":
    print(translate(os.environ.get("VERIF_REPO", "/repo")))
