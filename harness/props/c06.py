"""C06 -- tank volumes integrate their net inflow and stay within their limits.

Model: lean/WntrModel/Model/Tank.lean (update_tank_heads, numpy.interp with clamping, TankLevelCondition backtrack,
_get_all_tank_controls).  Theorems: lean/WntrModel/Props/C06.lean.
Tie (C): every observed call of update_tank_heads / TankLevelCondition.evaluate in instrumented WNTRSimulator runs, plus
seeded direct calls on real Tank objects, are diffed against the Lean functions through Drivers/TankDriver.lean; the list
_get_all_tank_controls builds is diffed against `tankControls`.
Oracles on the REAL results (report_timestep='ALL'), evaluated by the Lean driver: tankIntegralOk, tankLimitsOk,
limitFlowOk, first level = init_level; a coarser report grid must show the same rows.
"""
import json
import math
import os
import sys

sys.path.insert(0, os.path.dirname(os.path.dirname(os.path.abspath(__file__))))
sys.path.insert(0, os.path.dirname(os.path.abspath(__file__)))
import vlib
from vlib import Broken, Failure, Check
import c05c06_common as K

F = vlib.frac_str

# float rounding: heads are O(1e2) doubles (eps 2.2e-16), volumes A*h with a handful of operations -> relative error of the
# identity ~1e-14; 1e-9 leaves five orders of magnitude and still exposes any wrong area / dt / sign / axis (O(1) relative).
RTOL = 1e-9
ATOL = 1e-9
SECS = 2.0  # "about two seconds of the tank's flow"


def tentative_outside_curve(p, hyd, a, b):
    """did the tentative full-step volume (from row a to the next hydraulic grid time) leave the volume curve?"""
    import numpy as np

    if not p["curve"] or K.probe_mode() == "extrap":
        return False  # with the extrapolating lookup nothing is clamped: no failure may be put down to clamping
    arr = np.array(p["curve"])
    va = float(np.interp(a[1] - p["elev"], arr[:, 0], arr[:, 1]))
    tgrid = (math.floor(a[0] / hyd) + 1) * hyd
    for t in (tgrid, b[0]):
        v1 = va + a[2] * (t - a[0])
        if v1 > arr[-1, 1] + 1e-9 or v1 < arr[0, 1] - 1e-9:
            return True
    return False


class C06(Check):
    pid = "C06"
    level = "proof"
    prop_modules = ["WntrModel.Props.C06", "WntrModel.Lemmas.TankShape"]
    extra_targets = ["WntrModel.Model.Controls"]
    manifest = dict(
        category="proof",
        text="Lean theorems over a line-by-line model of update_tank_heads / numpy.interp / TankLevelCondition.evaluate / "
        "_get_all_tank_controls: the Euler step is exact for cylinders and, inside the volume curve, for curve tanks (interp inverse on "
        "strictly increasing curves); the level trace is the integral of the reported net inflow over any sequence of accepted steps "
        "(update is a function of _prev_head only); with the internal limit controls the accepted head passes a limit by less than one "
        "second of flow. The full statement is FALSE for volume-curve tanks whose tentative volume leaves the curve (interp clamps before "
        "the backtrack): kept as a Prop with a counterexample and a _partial theorem; reproduced on the real code (known finding). "
        "The model is tied to the code by diffing every observed call in instrumented runs and seeded direct calls; the oracles "
        "tankIntegralOk / tankLimitsOk / limitFlowOk are evaluated by the Lean driver on the real results.",
        design_ref="DESIGN.md §5 C06, §4 M7",
        note="modelled, not verified: IEEE rounding (Rat model, 1e-9 relative comparison), numpy.interp (transliterated with its clamping, "
        "checked on every observed call), the hydraulic solve (link flows and leak_demand are whatever the real solver reported; the leak law itself is C08's)",
        technique="Lean 4 proof over hand-written model + ast translator (Gen/TankShape.lean: update_tank_heads, _interp_extrapolate, Tank.get_volume, backtrack block of TankLevelCondition.evaluate, _run_postsolve_controls, _internal_status writers; Lemmas/TankShape.lean: the interpreted skeletons ARE the model) + differential run (in-process wrapping) + Lean-evaluated oracles on real results",
    )
    rule = (
        "obligations: theorems of Props/C06.lean. correspondence cases: observed update_tank_heads / TankLevelCondition.evaluate calls "
        "(deduplicated, capped per network), seeded direct calls, one _get_all_tank_controls list per network; oracle cases: one per "
        "(network, tank) for integral/limits/limit-flow. distinct = distinct (network signature, tank) or call inputs"
    )
    trusted_base = [
        "harness/props/c05c06_common.py (in-process wrappers report the inputs/outputs they observe)",
        "numpy.interp contract: transliterated (clamping outside the breakpoints, last segment with xp[j] <= x), diffed on every observed call",
        "IEEE-754 arithmetic is not modelled: doubles are sent as exact rationals, results compared at 1e-9 relative",
    ]
    assumptions = [
        "volume curves are strictly increasing in level and volume (what add_curve/add_tank accept in practice; theorems state it)",
        "the tentative volume stays inside the volume curve (the _partial theorems; violated by the recorded known finding)",
        "limits / no-discharge are not judged for a tank with a leak defined (the integral identity is); runs that converge (rows saved before a non-converged step are judged)",
    ]

    def translate(self, ctx):
        """Gen/TankShape.lean regenerated from the Python ast of update_tank_heads, _interp_extrapolate, Tank.get_volume,
        _run_postsolve_controls and the _internal_status writers; Lemmas/TankShape.lean proves the interpretation is the model"""
        import c06_translate

        try:
            text, writers = c06_translate.generate()
        except c06_translate.Bad as e:
            raise vlib.BrokenTie("c06_translate: %s" % e)
        ctx.cov["translated"] = ["update_tank_heads", "_interp_extrapolate", "Tank.get_volume", "_run_postsolve_controls", "_internal_status writers (%d)" % len(writers)]
        vlib.write_if_changed(os.path.join(vlib.GEN, "TankShape.lean"), text)

    # ------------------------------------------------------------------ pieces
    def _function_level(self, ctx, B, failures, broken):
        wntr = vlib.import_wntr()
        rng = ctx.rng
        K.probe_mode()
        for name, detail in K.PROBE_BROKEN:
            broken.append(Broken("correspondence", name, detail))
        nt = 12 if ctx.quick else 60
        for k in range(nt):
            p = K.synthetic_tank(rng)
            wn, tank = K.make_real_tank(wntr, p)
            p = K.tank_params(tank)
            tid = B.new_tank(p)
            kindname = "curve" if p["curve"] else "cyl"
            for c in K.synthetic_upd_cases(rng, p, 25 if ctx.quick else 60):
                out, err = K.safe_call(K.real_upd, wntr, wn, tank, c)
                if err:
                    ctx.count("direct-call-exception")
                    if not any(b.name == "update_tank_heads (direct call)" for b in broken):
                        broken.append(Broken("correspondence", "update_tank_heads (direct call)", "%s on %s tank=%s" % (err, c, p)))
                    continue
                ctx.case(("upd", kindname, c["prev"], c["demand"], c["dt"]))
                ctx.count("upd-direct:" + kindname)

                def cb(ans, c=c, out=out, p=p):
                    if not K.close(out, K.parse_rat(ans)):
                        broken.append(Broken("correspondence", "update_tank_heads vs Tank.updateHead",
                                             "direct call %s tank=%s: impl %r model %r" % (c, p, out, float(K.parse_rat(ans)))))

                B.ask(K.upd_line(tid, c), cb)
            for c in K.synthetic_lvl_cases(rng, p, 25 if ctx.quick else 60):
                rec, err = K.safe_call(K.real_lvl, wntr, tank, c)
                if err:
                    ctx.count("direct-call-exception")
                    if not any(b.name == "TankLevelCondition.evaluate (direct call)" for b in broken):
                        broken.append(Broken("correspondence", "TankLevelCondition.evaluate (direct call)", "%s on %s tank=%s" % (err, c, p)))
                    continue
                ctx.case(("lvl", kindname, c["kind"], c["attr"], c["rel"], c["thr"], c["head"]))
                ctx.count("lvl-direct:%s:%s" % (kindname, c["kind"]))
                if rec["raised"]:
                    ctx.count("lvl-direct:NotImplementedError")

                def cb2(ans, rec=rec, p=p):
                    m = K.check_lvl_answer(rec, p, ans)
                    if m:
                        broken.append(Broken("correspondence", "TankLevelCondition.evaluate vs Tank.evalLevel",
                                             "direct call %s tank=%s: %s" % ({k: rec[k] for k in ("attr", "rel", "thr", "head", "demand", "last")}, p, m)))

                B.ask(K.lvl_line(tid, rec), cb2)
            # get_volume
            for _ in range(4):
                l = rng.uniform(p["min"] - 0.5, p["max"] + 0.5)
                v, err = K.safe_call(lambda: float(tank.get_volume(l)))
                if err:
                    ctx.count("direct-call-exception")
                    if not any(b.name == "Tank.get_volume (direct call)" for b in broken):
                        broken.append(Broken("correspondence", "Tank.get_volume (direct call)", "%s at level %r tank=%s" % (err, l, p)))
                    continue
                ctx.count("vol-direct")

                def cb3(ans, l=l, v=v, p=p):
                    if not K.close(v, K.parse_rat(ans)):
                        broken.append(Broken("correspondence", "Tank.get_volume vs Tank.getVolume", "level %r tank=%s impl %r model %s" % (l, p, v, ans)))

                B.ask("vol %d %s" % (tid, F(l)), cb3)

    def _network(self, ctx, B, spec, label, failures, broken, grid_check=False):
        tr = K.run_instrumented(spec, keep_wn=True)
        sig = K.spec_sig(spec)
        hyd = spec["options"]["hyd"]
        if tr.exception:
            ctx.count("run-exception:" + tr.exception.split(":")[0])
            if tr.exception.startswith("NotImplementedError"):
                return tr
            failures.append(Failure("run-exception-" + tr.exception.split(":")[0], "WNTRSimulator raised %s on a generated tank network (%s)" % (tr.exception, label),
                                    {"spec": spec, "observed": tr.exception}))
            return tr
        ctx.count("run:" + ("error_code" if tr.error else "ok"))
        tids = {}
        for n in tr.tank_names:
            tids[n] = B.new_tank(tr.tanks[n])
        # --- observed update_tank_heads calls
        seen = set()
        cap = 150 if ctx.quick else 600
        for r in tr.upd:
            key = (r["tank"], r["prev"], r["head"], r["demand"], r["dt"])
            if key in seen or len(seen) >= cap:
                continue
            seen.add(key)
            ctx.count("upd-observed:" + ("curve" if tr.tanks[r["tank"]]["curve"] else "cyl"))

            def cb(ans, r=r):
                if not K.close(r["out"], K.parse_rat(ans)):
                    broken.append(Broken("correspondence", "update_tank_heads vs Tank.updateHead",
                                         "%s: observed call %s: model %r" % (label, r, float(K.parse_rat(ans)))))

            B.ask(K.upd_line(tids[r["tank"]], r), cb)
        # --- observed TankLevelCondition.evaluate calls of the internal limit controls and user controls
        seen = set()
        for r in tr.lvl:
            key = (r["tank"], r["attr"], r["rel"], r["thr"], r["head"], r["demand"], r["last"])
            if key in seen or len(seen) >= cap:
                continue
            seen.add(key)
            crossing = r["back"] != 0
            ctx.count("lvl-observed" + (":backtrack" if crossing else ""))

            def cb2(ans, r=r):
                m = K.check_lvl_answer(r, tr.tanks[r["tank"]], ans)
                if m:
                    broken.append(Broken("correspondence", "TankLevelCondition.evaluate vs Tank.evalLevel", "%s: observed %s: %s" % (label, r, m)))

            B.ask(K.lvl_line(tids[r["tank"]], r), cb2)
        # --- _get_all_tank_controls
        wn = tr.wn
        node_ids = {n: i for i, n in enumerate(wn.node_name_list)}
        from wntr.network.elements import Pipe, Pump

        pos = 0
        for tn in tr.tank_names:
            lnames = wn.get_links_for_node(tn, "ALL")
            toks = []
            for ln in lnames:
                l = wn.get_link(ln)
                kind = "pipe" if isinstance(l, Pipe) else ("pump" if isinstance(l, Pump) else "valve")
                cv = 1 if (kind == "pipe" and l.check_valve) else 0
                st = 1 if l.start_node_name == tn else 0
                other = l.end_node_name if st else l.start_node_name
                toks.append("%d %s %d %d %d" % (tr.links.index(ln), kind, cv, st, node_ids[other]))
                ctx.count("tank-link:%s%s%s" % (kind, "-cv" if cv else "", "-out" if st else "-in"))
            mine = [c for c in tr.tctl if c["tank"] == tn]
            exp = []
            odd = []
            for c in mine:
                ro = "-,-" if c["rel_other"] is None else "%s,%d" % (c["rel_other"][0], c["rel_other"][1])
                exp.append("%d,%d,%s,%s,%s,%d,%d" % (tr.links.index(c["link"]), c["value"], c["rel"], F(c["thr"]), ro, c["prio"], 1 if c["pre"] else 0))
                if c["cls"] != "TankLevelCondition" or c["attr"] != "head" or c["internal"] != "_internal_status" or (not c["pre"] and c["ctype"] != "postsolve") \
                        or (c["rel_other"] is not None and (c["rel_other"][2] != tn or c["rel_other"][3] != "head" or c["rel_other"][4] != "head")):
                    odd.append(c)
            ctx.case(("tctl", sig, tn))

            def cb3(ans, exp=exp, tn=tn, odd=odd):
                got = [x for x in ans.split(" ; ") if x]

                def same(a, b):
                    # thresholds are float sums (min_head + Htol): the exact model value differs in the last ulp
                    fa, fb = a.split(","), b.split(",")
                    return fa[:3] == fb[:3] and fa[4:] == fb[4:] and K.close(float(K.parse_rat(fa[3])), K.parse_rat(fb[3]), rel=1e-13, absol=0.0)

                if len(got) != len(exp) or not all(same(a, b) for a, b in zip(exp, got)) or odd:
                    broken.append(Broken("correspondence", "_get_all_tank_controls vs Tank.tankControls",
                                         "%s tank %s:\n impl  %s\n model %s\n unexpected shape: %s" % (label, tn, exp, got, odd[:2])))

            B.ask("tctl %d %s %d %s" % (tids[tn], F(tr.htol), len(lnames), " ".join(toks)), cb3)
        # --- oracles on the real results
        res = tr.results
        times = [r["t"] for r in tr.rows]
        if res is not None and times:
            # the DataFrames must hold exactly what save_results saw
            for tn in tr.tank_names:
                for i, r in enumerate(tr.rows):
                    if float(res.node["head"][tn].iloc[i]) != r["tanks"][tn][0] or float(res.node["demand"][tn].iloc[i]) != r["tanks"][tn][1] \
                            or float(res.node["pressure"][tn].iloc[i]) != r["tanks"][tn][0] - tr.tanks[tn]["elev"] or int(res.node["head"].index[i]) != int(r["t"]):
                        broken.append(Broken("correspondence", "results frame vs save_results", "%s tank %s row %d" % (label, tn, i)))
                        break
        for tn in tr.tank_names:
            p = tr.tanks[tn]
            rows = [(r["t"], r["tanks"][tn][0], r["tanks"][tn][1]) for r in tr.rows]
            if not rows:
                continue
            tid = tids[tn]
            nl = len(wn.get_links_for_node(tn, "ALL"))
            kindname = "curve" if p["curve"] else "cyl"
            ctx.case(("oracle", sig, tn))
            ctx.count("oracle-tank:" + kindname)
            lv = [h - p["elev"] for _, h, _ in rows]
            if min(lv) <= p["min"] + 1e-3:
                ctx.count("reached-min:" + kindname)
            if max(lv) >= p["max"] - 1e-3:
                ctx.count("reached-max:" + kindname)
            ctx.count("partial-steps", sum(1 for t, _, _ in rows if t % hyd != 0))
            B.ask("rows %d %d %s" % (tid, len(rows), " ".join("%s %s %s" % (F(t), F(h), F(q)) for t, h, q in rows)))
            tspec = [t for t in spec["tanks"] if t["name"] == tn][0]
            adj_valves = [tr.links.index(ln) for ln in wn.get_links_for_node(tn, "ALL") if tr.kinds[tr.links.index(ln)] == "valve"]

            def valve_user_open(t, adj_valves=adj_valves):
                """a valve at the tank whose _user_status is Open at the reported step t (its `status` ignores _internal_status)"""
                for r in tr.rows:
                    if r["t"] == t:
                        return any(r["priv"][i][0] == 1.0 for i in adj_valves)
                return False

            pumps_in = [ln for ln in wn.get_links_for_node(tn, "ALL") if tr.kinds[tr.links.index(ln)] == "pump" and wn.get_link(ln).end_node_name == tn]
            pumps_out = [ln for ln in wn.get_links_for_node(tn, "ALL") if tr.kinds[tr.links.index(ln)] == "pump" and wn.get_link(ln).start_node_name == tn]

            def pump_reverse(t, pumps_in=pumps_in, pumps_out=pumps_out):
                """a pump at the tank carries flow against its direction at the reported step t (the limit controls skip
                pumps pointing the harmless way; the pump model admits reverse flow within Htol of the shut-off head -- C02)"""
                for r in tr.rows:
                    if r["t"] == t:
                        return any(r["flow"][ln] < -tr.qtol for ln in pumps_in + pumps_out)
                return False

            adj = [(ln, wn.get_link(ln).end_node_name if wn.get_link(ln).start_node_name == tn else wn.get_link(ln).start_node_name)
                   for ln in wn.get_links_for_node(tn, "ALL")]

            def head_tie(t, adj=adj, tn=tn):
                """an open link at the tank whose other end has exactly the tank's head (zero-loss open valve): the high-priority
                re-open rule `tank.head >= other.head` holds on the tie although water flows into the tank"""
                for r in tr.rows:
                    if r["t"] == t:
                        for ln, other in adj:
                            if r["links"][ln][0] != 0.0 and other in r["junc"] and abs(r["junc"][other][0] - r["tanks"][tn][0]) <= 1e-9 and abs(r["flow"][ln]) > tr.qtol:
                                return True
                return False

            def classify(t0, t1, base, vuo=valve_user_open, prv=pump_reverse, tie=head_tie):
                if vuo(t0) or vuo(t1):
                    return "tank-limit-valve-user-open", "; a valve at the tank has _user_status Open, so the limit control's _internal_status is ignored"
                if prv(t0) or prv(t1):
                    return "tank-limit-pump-reverse-flow", "; a pump at the tank carries reverse flow (not closed by the limit controls)"
                if tie(t0) or tie(t1):
                    return "tank-limit-reopen-on-head-tie", "; an open zero-loss link joins the tank to a node of equal head: the re-open rule (tank.head >= other.head) wins although the tank is filling/draining"
                return base, ""
            # first level is init_level
            if rows[0][0] == 0.0 and abs(lv[0] - tspec["init"]) > 1e-12 * max(1.0, abs(rows[0][1])):
                failures.append(Failure("first-level-init", "first reported level of tank %s is %r, init_level %r" % (tn, lv[0], tspec["init"]),
                                        {"spec": spec, "tank": tn, "observed": lv[0], "expected": tspec["init"]}))

            def cb_int(ans, rows=rows, p=p, tn=tn, kindname=kindname):
                if ans == "ok":
                    return
                i = int(ans.split()[1])
                a, b = rows[i], rows[i + 1]
                clamp = tentative_outside_curve(p, hyd, a, b)
                key = "volcurve-clamp-integral" if clamp else "integral-" + ("volcurve" if kindname == "curve" else "cylinder")
                failures.append(Failure(key,
                                        "tank %s (%s): volume change between t=%s and t=%s is not net inflow x dt (level %.6f -> %.6f, inflow %.6g m3/s, dt %s)%s"
                                        % (tn, kindname, a[0], b[0], a[1] - p["elev"], b[1] - p["elev"], a[2], b[0] - a[0],
                                           "; tentative volume left the volume curve (interp clamps)" if clamp else ""),
                                        {"spec": spec, "tank": tn, "oracle": "tankIntegralOk", "pair": [a, b], "tank_params": p}))

            B.ask("integral %d %s %s" % (tid, F(RTOL), F(ATOL)), cb_int)
            # the same identity with the leak explicit: reported demand = (sum inlet flows - sum outlet flows) - leak_demand and
            # dV = (link net inflow - leak_demand) * dt  (qtol: the solver's flow-balance tolerance at the tank)
            # the links at the tank are read off the LINKS' own end nodes, not off the tank's registry entry (which an edit of the
            # model may have left stale)
            inl = [ln for ln in tr.links if wn.get_link(ln).end_node_name == tn]
            outl = [ln for ln in tr.links if wn.get_link(ln).start_node_name == tn]
            if sorted(inl + outl) != sorted(wn.get_links_for_node(tn, "ALL")):
                broken.append(Broken("correspondence", "get_links_for_node vs the links' end nodes",
                                     "%s tank %s: registry lists %s, links ending/starting at it %s" % (label, tn, wn.get_links_for_node(tn, "ALL"), sorted(inl + outl))))
            rl = [(r["t"], r["tanks"][tn][0], r["tanks"][tn][1], r["leak"][tn][0],
                   sum(r["flow"][ln] for ln in inl) - sum(r["flow"][ln] for ln in outl)) for r in tr.rows]
            has_leak = bool(tspec.get("leak"))
            if has_leak:
                ctx.count("oracle-tank:leak:" + spec["options"].get("demand_model", "DD"))
                ctx.count("leak-active-rows", sum(1 for r in tr.rows if r["leak"][tn][1]))
            B.ask("rowsl %d %d %s" % (tid, len(rl), " ".join("%s %s %s %s %s" % tuple(F(x) for x in row) for row in rl)))

            def cb_intl(ans, rl=rl, p=p, tn=tn, has_leak=has_leak):
                if ans == "ok":
                    return
                i = int(ans.split()[1])
                a, b = rl[i], rl[i + 1]
                failures.append(Failure("integral-leak" if has_leak else "integral-balance",
                                        "tank %s: between t=%s and t=%s the stored volume must change by (link net inflow %.6g - leak %.6g) x dt = %.6g m3 "
                                        "and the reported demand must be that net inflow; reported demand %.6g, level %.6f -> %.6f"
                                        % (tn, a[0], b[0], a[4], a[3], (a[4] - a[3]) * (b[0] - a[0]), a[2], a[1] - p["elev"], b[1] - p["elev"]),
                                        {"spec": spec, "tank": tn, "oracle": "integralOkPairLeak", "pair": [a, b], "tank_params": p}))

            B.ask("integrall %d %s %s %s" % (tid, F(RTOL), F(ATOL), F(1e-6)), cb_intl)
            if has_leak:
                # a leaking tank may legitimately pass min_level and "discharges" through the leak; it cannot be pushed ABOVE max_level
                def cb_lmax(ans, rows=rows, p=p, tn=tn, kindname=kindname, classify=classify):
                    if ans == "ok":
                        return
                    i = int(ans.split()[1])
                    a, b = rows[i - 1], rows[i]
                    key, why = classify(a[0], b[0], "limits-max-leaking-tank")
                    failures.append(Failure(key, "tank %s (%s, with a leak): level %.6f at t=%s above max_level %.3f by more than 2 s of its flow %.6g m3/s%s"
                                            % (tn, kindname, b[1] - p["elev"], b[0], p["max"], a[2], why),
                                            {"spec": spec, "tank": tn, "oracle": "tankLimitsOk(max side)", "pair": [a, b], "tank_params": p}))

                B.ask("limitsmax %d %s %s" % (tid, F(SECS), F(ATOL)), cb_lmax)
                continue

            def cb_lim(ans, rows=rows, p=p, tn=tn, kindname=kindname, classify=classify):
                if ans == "ok":
                    return
                i = int(ans.split()[1])
                a, b = rows[i - 1], rows[i]
                clamp = tentative_outside_curve(p, hyd, a, b)
                key, why = classify(a[0], b[0], "volcurve-clamp-overshoot" if clamp else "limits-" + ("volcurve" if kindname == "curve" else "cylinder"))
                failures.append(Failure(key,
                                        "tank %s (%s): level %.6f at t=%s outside [%.3f, %.3f] by more than 2 s of its flow %.6g m3/s%s"
                                        % (tn, kindname, b[1] - p["elev"], b[0], p["min"], p["max"], a[2],
                                           why or ("; tentative volume left the volume curve (interp clamps before the backtrack)" if clamp else "")),
                                        {"spec": spec, "tank": tn, "oracle": "tankLimitsOk", "pair": [a, b], "tank_params": p}))

            B.ask("limits %d %s %s" % (tid, F(SECS), F(ATOL)), cb_lim)

            def cb_flow(ans, rows=rows, p=p, tn=tn, classify=classify):
                if ans == "ok":
                    return
                i = int(ans.split()[1])
                r = rows[i]
                at_min = r[1] - p["elev"] <= p["min"]
                key, why = classify(r[0], r[0], "limitflow-" + ("min" if at_min else "max"))
                failures.append(Failure(key,
                                        "tank %s at its %s level (level %.6f, t=%s) has net inflow %.6g m3/s%s" % (tn, "minimum" if at_min else "maximum", r[1] - p["elev"], r[0], r[2],
                                        why),
                                        {"spec": spec, "tank": tn, "oracle": "limitFlowOk", "row": r, "tank_params": p}))

            B.ask("limflow %d %s" % (tid, F(tr.qtol * max(1, nl) + 1e-9)), cb_flow)
        # --- coarser report grid shows the same rows
        if grid_check and tr.rows and not tr.error:
            rep = 2 * hyd
            tr2 = K.run_instrumented(spec, report=rep)
            ctx.count("grid-rerun")
            full = {r["t"]: r for r in tr.rows}
            want = [t for t in sorted(full) if t % rep == 0]
            got = [r["t"] for r in tr2.rows]
            bad = None
            if got != want:
                bad = "reported times %s, expected the solved steps on the grid %s" % (got[:8], want[:8])
            else:
                # the solver is not bitwise reproducible between runs (last-ulp differences): compare at 1e-6 relative
                for r in tr2.rows:
                    f = full[r["t"]]
                    for tn in r["tanks"]:
                        for x, y in zip(r["tanks"][tn], f["tanks"][tn]):
                            if abs(x - y) > 1e-6 * max(1.0, abs(x), abs(y)):
                                bad = "tank %s at t=%s: %r, report_timestep='ALL' run has %r" % (tn, r["t"], r["tanks"][tn], f["tanks"][tn])
                    if [v[0] for v in r["links"].values()] != [v[0] for v in f["links"].values()]:
                        bad = "link statuses at t=%s differ from the report_timestep='ALL' run" % r["t"]
                    if bad:
                        break
            if bad and not tr2.exception:
                # the solver is not bitwise reproducible: a last-ulp difference can flip a control decision. Only a difference that
                # a SECOND report_timestep='ALL' run does not show against the first one is put down to the report grid.
                tr3 = K.run_instrumented(spec)
                full3 = {r["t"]: r for r in tr3.rows}
                same = sorted(full3) == sorted(full) and all(
                    [v[0] for v in full3[t]["links"].values()] == [v[0] for v in full[t]["links"].values()]
                    and all(abs(x - y) <= 1e-6 * max(1.0, abs(x), abs(y)) for tn in full[t]["tanks"] for x, y in zip(full3[t]["tanks"][tn], full[t]["tanks"][tn]))
                    for t in full)
                if not same:
                    ctx.count("grid-rerun:nondeterministic-run-skipped")
                    bad = None
            if bad and not tr2.exception:
                failures.append(Failure("report-grid", "report_timestep=%d: %s" % (rep, bad), {"spec": spec, "report": rep, "observed": bad}))
        return tr

    # ------------------------------------------------------------------ run
    def correspondence(self, ctx):
        failures, broken = [], []
        B = K.Batch()
        self._function_level(ctx, B, failures, broken)
        specs = []
        for fn, item in vlib.corpus_items("C06"):
            specs.append(("corpus/" + fn, item["spec"]))
        specs.append(("designed/volcurve-clamp", K.volcurve_clamp_spec()))
        specs.append(("designed/curve-ends-at-max", K.curve_end_at_limit_spec("max")))
        specs.append(("designed/curve-starts-at-min", K.curve_end_at_limit_spec("min")))
        specs.append(("designed/reversed-tank-link", K.reversed_tank_link_spec("reverse")))
        specs.append(("designed/swapped-ends-tank-link", K.reversed_tank_link_spec("swap_ends")))
        specs.append(("designed/reservoir-head-pattern-start", K.reservoir_pattern_spec()))
        for mk in (K.overflow_spec, K.curve_end_at_limit_spec, K.reservoir_pattern_spec):
            sp = mk()
            sp["options"]["hw_approx"] = "piecewise"
            specs.append(("designed/piecewise-%s" % mk.__name__, sp))
        pw = K.priority_presolve_spec(3, "min")
        pw["options"]["hw_approx"] = "piecewise"
        specs.append(("designed/piecewise-min", pw))
        specs.append(("designed/overflow-flag", K.overflow_spec(True)))
        for attr in ("min_level", "max_level", "elevation"):
            specs.append(("designed/rerun-same-simulator-%s" % attr, K.rerun_edit_spec(attr, False)))
        specs.append(("designed/rerun-fresh-simulator-min_level", K.rerun_edit_spec("min_level", True)))
        specs.append(("designed/tank-leak-DD", K.tank_leak_spec("DD")))
        specs.append(("designed/tank-leak-PDD", K.tank_leak_spec("PDD")))
        specs.append(("designed/valve-user-open", K.valve_user_open_spec()))
        specs.append(("designed/pump-reverse", K.pump_reverse_spec()))
        specs.append(("designed/head-tie", K.head_tie_spec()))
        # presolve controls of every priority firing in the step where a tank limit is crossed: the limit's backtrack must win
        for prio in ([0, 1, 3, 6] if ctx.quick else range(7)):
            specs.append(("designed/presolve-priority-%d-min" % prio, K.priority_presolve_spec(prio, "min")))
            specs.append(("designed/presolve-priority-%d-max" % prio, K.priority_presolve_spec(prio, "max")))
        n = 14 if ctx.quick else 220
        for i in range(n):
            force = {}
            if i % 4 == 1:
                force["tank_kind"] = "cyl"
            if i % 4 == 3:
                force["tank_kind"] = ctx.rng.choice(["curve-wide", "curve-tight"])
            if i % 3 == 2:
                force["leaks"] = True
            if i % 4 == 0:
                force["rerun"] = True
            if i % 5 == 1:
                force["morph"] = True
            specs.append(("seed%d/net%d" % (ctx.seed, i), K.random_network(ctx.rng, ctx.quick, force)))
        for k, (label, spec) in enumerate(specs):
            tr = self._network(ctx, B, spec, label, failures, broken, grid_check=(k % 3 == 0))
            if len(ctx.samples) < 4 and tr.rows:
                tn = tr.tank_names[0]
                ctx.sample({"network": label, **K.minimal_note(spec), "tank": tn, "curve": bool(tr.tanks[tn]["curve"]),
                            "rows": [(r["t"], round(r["tanks"][tn][0] - tr.tanks[tn]["elev"], 6), r["tanks"][tn][1]) for r in tr.rows[:6]]})
        B.finish()
        ctx.cov["driver_requests"] = len(B.lines)
        ctx.cov["curve_lookup_mode"] = K.probe_mode()
        known = {k.get("key") for k in vlib.load_known_findings()["findings"] if k.get("property") == "C06"}
        if broken and not [f for f in failures if f.key not in known]:
            # vlib only searches when no failure at all was found; known findings must not suppress the search
            failures += self.search(ctx, broken)
        return failures, broken

    def search(self, ctx, broken):
        """wider run of the oracles on the real implementation (correspondence already ran them on the standard stream)"""
        if getattr(self, "_searched", False):
            return []
        self._searched = True
        failures, br2 = [], []
        B = K.Batch()
        for i in range(30 if ctx.quick else 120):
            spec = K.random_network(ctx.rng, ctx.quick, {"ntanks": ctx.rng.choice([1, 2])})
            self._network(ctx, B, spec, "search/net%d" % i, failures, br2)
        B.finish()
        known = {k.get("key") for k in vlib.load_known_findings()["findings"] if k.get("property") == "C06"}
        return [f for f in failures if f.key not in known]

    def replay(self, ctx, path):
        r = json.load(open(path if os.path.isabs(path) else os.path.join(vlib.VERIF, path)))
        print(json.dumps({k: r[k] for k in r if k != "replay"}, indent=1)[:1500])
        spec = r.get("replay", {}).get("spec")
        if spec is None:
            print("replay: no network spec in the file (a broken tie, not a failing input)")
            return 0
        failures, broken = [], []
        B = K.Batch()
        self._network(ctx, B, spec, "replay", failures, broken, grid_check=True)
        B.finish()
        hit = [f for f in failures if f.key == r.get("key")]
        print("replay: %s" % ("REPRODUCED " + hit[0].what if hit else "not reproduced on the current tree"))
        return 1 if hit else 0


if __name__ == "__main__":
    vlib.run_check(C06)
