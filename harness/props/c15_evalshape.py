"""C15 translator: the SHAPE of the C++ stack machine `_evaluate` (wntr/sim/aml/evaluator.cpp), the opcode constants of
evaluator.hpp and `OperationEnum` of expr.py  ->  lean/WntrModel/Gen/EvaluatorShape.lean.

What is read mechanically (anything unknown raises vlib.BrokenTie -- never a smaller table):
  * evaluator.hpp: every `const int NAME = <int>;`
  * expr.py (ast): class OperationEnum, name -> value
  * evaluator.cpp `_evaluate`: the leaf push (`if (ndx >= 0) { stack[stack_ndx] = ((*values)[ndx])->value; ++stack_ndx; }`), the
    chain `if (ndx == NAME) {...} else if ...`, per case the pops (`--stack_ndx; X = stack[stack_ndx];`, in source order) and the
    assignment(s) to `res` (plain expression, or one if/else with two assignments), the final `else throw`, the push of `res`, and the
    function's final pop; parsed by a small recursive-descent parser into the term language of Model/EvalShape.lean
  * evaluator.cpp `Evaluator::evaluate` / `evaluate_csr_jacobian`: every statement that updates one of the walking indices
    (con_ndx, condition_ndx, jac_ndx, nnz_ndx, c, i) in source order, as normalised text -- the strides the Lean model transliterates.
"""
import ast
import os
import re
from fractions import Fraction

import vlib


def _read(rel):
    with open(os.path.join(vlib.REPO, rel)) as f:
        return f.read()


def _strip_comments(src):
    src = re.sub(r"/\*.*?\*/", " ", src, flags=re.S)
    return re.sub(r"//[^\n]*", " ", src)


def _match_brace(s, i):
    """index just after the brace block that starts at s[i] == '{'"""
    assert s[i] == "{"
    d = 0
    for j in range(i, len(s)):
        if s[j] == "{":
            d += 1
        elif s[j] == "}":
            d -= 1
            if d == 0:
                return j + 1
    raise vlib.BrokenTie("unbalanced braces in evaluator.cpp")


def _function_body(src, header_re):
    m = re.search(header_re, src)
    if not m:
        raise vlib.BrokenTie("evaluator.cpp: function %s not found" % header_re)
    i = src.index("{", m.end() - 1)
    return src[i + 1:_match_brace(src, i) - 1]


# ----------------------------------------------------------------------------- expression parser

_TOK = re.compile(r"\s*(?:(\d+\.\d*|\d+)|((?:std)?::\w+|\w+)|(&&|>=|<=|==|[-+*/(),<>]))")


def _tokens(s):
    out, i = [], 0
    s = s.strip()
    while i < len(s):
        m = _TOK.match(s, i)
        if not m:
            raise vlib.BrokenTie("evaluator.cpp: cannot tokenise %r" % s[i:i + 30])
        out.append(m.group(1) and ("num", m.group(1)) or m.group(2) and ("id", m.group(2)) or ("op", m.group(3)))
        i = m.end()
    return out


class _P:
    def __init__(self, toks):
        self.t, self.i = toks, 0

    def peek(self):
        return self.t[self.i] if self.i < len(self.t) else ("end", "")

    def eat(self, kind=None, val=None):
        k, v = self.peek()
        if (kind and k != kind) or (val and v != val):
            raise vlib.BrokenTie("evaluator.cpp: unexpected token %r (wanted %r %r)" % ((k, v), kind, val))
        self.i += 1
        return v

    # cond := cmp ('&&' cmp)*
    def cond(self):
        c = self.cmp()
        while self.peek() == ("op", "&&"):
            self.eat()
            c = ("and", c, self.cmp())
        return c

    def cmp(self):
        x = self.expr()
        k, v = self.peek()
        if k != "op" or v not in (">=", "<=", ">", "<", "=="):
            raise vlib.BrokenTie("evaluator.cpp: comparison expected, got %r" % (v,))
        self.eat()
        y = self.expr()
        return ({">=": "ge", "<=": "le", ">": "gt", "<": "lt", "==": "eq"}[v], x, y)

    def expr(self):
        x = self.term()
        while self.peek() in (("op", "+"), ("op", "-")):
            op = self.eat()
            x = ("add" if op == "+" else "sub", x, self.term())
        return x

    def term(self):
        x = self.unary()
        while self.peek() in (("op", "*"), ("op", "/")):
            op = self.eat()
            x = ("mul" if op == "*" else "div", x, self.unary())
        return x

    def unary(self):
        if self.peek() == ("op", "-"):
            self.eat()
            return ("neg", self.unary())
        return self.atom()

    def atom(self):
        k, v = self.peek()
        if k == "num":
            self.eat()
            return ("lit", Fraction(v))
        if k == "op" and v == "(":
            self.eat()
            x = self.expr()
            self.eat("op", ")")
            return x
        if k == "id":
            self.eat()
            if self.peek() == ("op", "("):
                self.eat()
                args = [self.expr()]
                while self.peek() == ("op", ","):
                    self.eat()
                    args.append(self.expr())
                self.eat("op", ")")
                if len(args) == 1:
                    return ("call1", v, args[0])
                if len(args) == 2:
                    return ("call2", v, args[0], args[1])
                raise vlib.BrokenTie("evaluator.cpp: call of %s with %d arguments" % (v, len(args)))
            if v in ("arg", "arg1", "arg2"):
                return ({"arg": "a", "arg1": "a1", "arg2": "a2"}[v],)
            raise vlib.BrokenTie("evaluator.cpp: unknown identifier %r in an opcode case" % v)
        raise vlib.BrokenTie("evaluator.cpp: unexpected %r in an expression" % (v,))


def _parse_expr(s):
    p = _P(_tokens(s))
    x = p.expr()
    if p.peek()[0] != "end":
        raise vlib.BrokenTie("evaluator.cpp: trailing tokens in %r" % s)
    return x


def _parse_cond(s):
    p = _P(_tokens(s))
    x = p.cond()
    if p.peek()[0] != "end":
        raise vlib.BrokenTie("evaluator.cpp: trailing tokens in condition %r" % s)
    return x


_POP = re.compile(r"^\s*--\s*stack_ndx\s*;\s*(arg2|arg1|arg)\s*=\s*stack\s*\[\s*stack_ndx\s*\]\s*;")
_ASSIGN = re.compile(r"^\s*res\s*=\s*([^;]+);\s*$", re.S)
_IFELSE = re.compile(r"^\s*if\s*\((.*?)\)\s*\{?\s*res\s*=\s*([^;]+);\s*\}?\s*else\s*\{?\s*res\s*=\s*([^;]+);\s*\}?\s*$", re.S)


def _parse_case(name, body):
    pops = []
    while True:
        m = _POP.match(body)
        if not m:
            break
        pops.append(m.group(1))
        body = body[m.end():]
    m = _ASSIGN.match(body)
    if m:
        return pops, _parse_expr(m.group(1))
    m = _IFELSE.match(body)
    if m:
        return pops, ("ite", _parse_cond(m.group(1)), _parse_expr(m.group(2)), _parse_expr(m.group(3)))
    raise vlib.BrokenTie("evaluator.cpp: case %s: statement shape not understood: %r" % (name, " ".join(body.split())[:200]))


def _norm(s):
    return re.sub(r"\s+", "", s)


def read_shape():
    hpp = _strip_comments(_read("wntr/sim/aml/evaluator.hpp"))
    cpp = _strip_comments(_read("wntr/sim/aml/evaluator.cpp"))
    consts = [(m.group(1), int(m.group(2))) for m in re.finditer(r"const\s+int\s+(\w+)\s*=\s*(-?\d+)\s*;", hpp)]
    if not consts:
        raise vlib.BrokenTie("evaluator.hpp: no opcode constants found")
    # OperationEnum
    tree = ast.parse(_read("wntr/sim/aml/expr.py"))
    enum = None
    for node in tree.body:
        if isinstance(node, ast.ClassDef) and node.name == "OperationEnum":
            enum = []
            for st in node.body:
                if isinstance(st, ast.Assign) and len(st.targets) == 1 and isinstance(st.targets[0], ast.Name):
                    try:
                        enum.append((st.targets[0].id, int(ast.literal_eval(st.value))))
                    except Exception:
                        raise vlib.BrokenTie("expr.py: OperationEnum.%s is not an integer literal" % st.targets[0].id)
    if not enum:
        raise vlib.BrokenTie("expr.py: class OperationEnum not found")
    # _evaluate
    body = _function_body(cpp, r"double\s+_evaluate\s*\(")
    m = re.search(r"if\s*\(\s*ndx\s*>=\s*0\s*\)\s*\{", body)
    if not m:
        raise vlib.BrokenTie("evaluator.cpp: `if (ndx >= 0)` not found in _evaluate")
    j = _match_brace(body, m.end() - 1)
    leaf_push = _norm(body[m.end():j - 1])
    if leaf_push != _norm("stack[stack_ndx] = ((*values)[ndx])->value; ++stack_ndx;"):
        raise vlib.BrokenTie("evaluator.cpp: the leaf push of _evaluate changed: %r" % leaf_push)
    m2 = re.match(r"\s*else\s*\{", body[j:])
    if not m2:
        raise vlib.BrokenTie("evaluator.cpp: `else {` after the leaf push not found")
    k0 = j + m2.end() - 1
    k1 = _match_brace(body, k0)
    chain = body[k0 + 1:k1 - 1]
    cases, pos, first = [], 0, True
    while True:
        m = re.match(r"\s*(else\s+)?if\s*\(\s*ndx\s*==\s*(\w+)\s*\)\s*\{", chain[pos:])
        if not m:
            break
        if first == bool(m.group(1)):
            raise vlib.BrokenTie("evaluator.cpp: opcode chain is not `if … else if …`")
        first = False
        b0 = pos + m.end() - 1
        b1 = _match_brace(chain, b0)
        cases.append((m.group(2), chain[b0 + 1:b1 - 1]))
        pos = b1
    tail = _norm(chain[pos:])
    if not re.fullmatch(r'elsethrowstd::runtime_error\("[^"]*"\);stack\[stack_ndx\]=res;\+\+stack_ndx;', tail):
        raise vlib.BrokenTie("evaluator.cpp: end of the opcode chain changed: %r" % tail[:200])
    after = _norm(body[k1:])
    # the enclosing for-loop closes, then the final pop
    if not after.endswith(_norm("--stack_ndx; res = stack[stack_ndx]; return res;")):
        raise vlib.BrokenTie("evaluator.cpp: the final pop of _evaluate changed: %r" % after[-120:])
    cdict = dict(consts)
    shapes = []
    for name, blk in cases:
        if name not in cdict:
            raise vlib.BrokenTie("evaluator.cpp: case on unknown constant %s" % name)
        pops, res = _parse_case(name, blk)
        shapes.append((name, cdict[name], pops, res))
    # strides of the two loops
    strides = {}
    for fn in ("evaluate", "evaluate_csr_jacobian"):
        b = _function_body(cpp, r"void\s+Evaluator::%s\s*\(" % fn)
        upd = []
        for m in re.finditer(r"(?:\+\+\s*(con_ndx|condition_ndx|jac_ndx|nnz_ndx|c|i)\s*;)|(?:\b(con_ndx|condition_ndx|jac_ndx|nnz_ndx|c|i|_n_conditions|nnz|found)\s*(\+=|=)\s*([^;]+);)", b):
            if m.group(1):
                upd.append("++" + m.group(1))
            else:
                upd.append("%s%s%s" % (m.group(2), m.group(3), _norm(m.group(4))))
        conds = []
        for m in re.finditer(r"\b(while|if)\s*\(", b):
            d, j = 1, m.end()
            while d and j < len(b):
                d += {"(": 1, ")": -1}.get(b[j], 0)
                j += 1
            conds.append(m.group(1) + ":" + _norm(b[m.end():j - 1]))
        for m in re.finditer(r"\bfor\s*\(([^)]*)\)", b):
            conds.append("for:" + _norm(m.group(1)))
        strides[fn] = (upd, conds)
    return {"consts": consts, "enum": enum, "cases": shapes, "strides": strides}


# ----------------------------------------------------------------------------- Lean text


def _rat(q):
    q = Fraction(q)
    return "(%d : Rat)" % q.numerator if q.denominator == 1 else "((%d : Rat) / %d)" % (q.numerator, q.denominator)


def _lean(x):
    t = x[0]
    if t in ("a", "a1", "a2"):
        return ".%s" % t
    if t == "lit":
        return "(.lit %s)" % _rat(x[1])
    if t in ("add", "sub", "mul", "div"):
        return "(.%s %s %s)" % (t, _lean(x[1]), _lean(x[2]))
    if t == "neg":
        return "(.neg %s)" % _lean(x[1])
    if t == "call1":
        return "(.call1 \"%s\" %s)" % (x[1], _lean(x[2]))
    if t == "call2":
        return "(.call2 \"%s\" %s %s)" % (x[1], _lean(x[2]), _lean(x[3]))
    if t == "ite":
        return "(.ite %s %s %s)" % (_lean(x[1]), _lean(x[2]), _lean(x[3]))
    if t in ("ge", "le", "gt", "lt", "eq", "and"):
        return "(.%s %s %s)" % (t, _lean(x[1]), _lean(x[2]))
    raise ValueError(x)


def gen_lean(sh):
    L = ["-- GENERATED by harness/props/c15_evalshape.py from wntr/sim/aml/evaluator.cpp, evaluator.hpp, expr.py. Do not edit.",
         "import WntrModel.Model.EvalShape", "namespace Wntr.Aml.Gen", "open Wntr.Aml", "",
         "/-- `const int NAME = k;` of evaluator.hpp -/",
         "def cppConsts : List (String × Int) := [" + ", ".join('("%s", %d)' % c for c in sh["consts"]) + "]", "",
         "/-- `OperationEnum` of expr.py -/",
         "def pyEnum : List (String × Int) := [" + ", ".join('("%s", %d)' % c for c in sh["enum"]) + "]", "",
         "/-- the `if (ndx == NAME) {…}` chain of `_evaluate`, in source order -/",
         "def cases : List CaseShape := ["]
    L.append(",\n".join('  { name := "%s", code := %d, pops := [%s], res := %s }' % (n, c, ", ".join('"%s"' % p for p in pops), _lean(r))
                        for n, c, pops, r in sh["cases"]))
    L.append("]")
    for fn, nm in (("evaluate", "evaluateUpdates"), ("evaluate_csr_jacobian", "csrUpdates")):
        upd, conds = sh["strides"][fn]
        L += ["", "/-- index updates of `Evaluator::%s`, in source order (normalised text) -/" % fn,
              "def %s : List String := [%s]" % (nm, ", ".join('"%s"' % u for u in upd)),
              "/-- loop / branch conditions of `Evaluator::%s`, in source order -/" % fn,
              "def %sConds : List String := [%s]" % (nm.replace("Updates", ""), ", ".join('"%s"' % c.replace('"', "'") for c in conds))]
    L += ["", "end Wntr.Aml.Gen", ""]
    return "\n".join(L)


def translate():
    sh = read_shape()
    vlib.write_if_changed(os.path.join(vlib.GEN, "EvaluatorShape.lean"), gen_lean(sh))
    return sh


if __name__ == "__main__":
    print(gen_lean(read_shape()))


# ----------------------------------------------------------------------------- operator overloads of ExpressionBase (expr.py)

_OVERLOADS = ["__add__", "__sub__", "__mul__", "__truediv__", "__div__", "__pow__",
              "__radd__", "__rsub__", "__rmul__", "__rtruediv__", "__rdiv__", "__rpow__", "__neg__"]
_CLS = {"AddOperator": "add", "SubtractOperator": "sub", "MultiplyOperator": "mul", "DivideOperator": "div", "PowerOperator": "pow",
        "NegationOperator": "neg"}
_BINOP = {ast.Add: "add", ast.Sub: "sub", ast.Mult: "mul", ast.Div: "div", ast.Pow: "pow"}


def _ret(node, meth):
    """result of a `return` in an overload: ("self",) | ("num", k) | ("negself",) | ("helper", op) | ("reflect", op)"""
    v = node.value
    if isinstance(v, ast.Name) and v.id == "self":
        return ("self",)
    if isinstance(v, ast.Constant) and isinstance(v.value, (int, float)) and not isinstance(v.value, bool):
        return ("num", Fraction(v.value))
    if isinstance(v, ast.UnaryOp) and isinstance(v.op, ast.USub) and isinstance(v.operand, ast.Name) and v.operand.id == "self":
        return ("negself",)
    if isinstance(v, ast.Call) and isinstance(v.func, ast.Attribute) and isinstance(v.func.value, ast.Name) and v.func.value.id == "self":
        if v.func.attr == "_binary_operation_helper" and len(v.args) == 2 and isinstance(v.args[0], ast.Name) and v.args[0].id == "other" \
                and isinstance(v.args[1], ast.Name) and v.args[1].id in _CLS:
            return ("helper", _CLS[v.args[1].id])
        if v.func.attr == "_unary_operation_helper" and len(v.args) == 1 and isinstance(v.args[0], ast.Name) and v.args[0].id in _CLS:
            return ("helper", _CLS[v.args[0].id])
    if isinstance(v, ast.BinOp) and type(v.op) in _BINOP and isinstance(v.right, ast.Name) and v.right.id == "self" \
            and isinstance(v.left, ast.Call) and isinstance(v.left.func, ast.Name) and v.left.func.id == "Float" \
            and len(v.left.args) == 1 and isinstance(v.left.args[0], ast.Name) and v.left.args[0].id == "other":
        return ("reflect", _BINOP[type(v.op)])
    raise vlib.BrokenTie("expr.py: %s: return value not understood: %s" % (meth, ast.unparse(v)))


def read_overloads():
    tree = ast.parse(_read("wntr/sim/aml/expr.py"))
    cls = [n for n in tree.body if isinstance(n, ast.ClassDef) and n.name == "ExpressionBase"]
    if not cls:
        raise vlib.BrokenTie("expr.py: class ExpressionBase not found")
    out = []
    for fn in cls[0].body:
        if not isinstance(fn, ast.FunctionDef) or fn.name not in _OVERLOADS:
            continue
        body = [st for st in fn.body if not (isinstance(st, ast.Expr) and isinstance(st.value, ast.Constant))]
        body = [st for st in body if not isinstance(st, ast.Assert)]   # `assert type(other) in native_numeric_types`
        shortcuts, final = [], None

        def test_const(t):
            if isinstance(t, ast.Compare) and len(t.ops) == 1 and isinstance(t.ops[0], ast.Eq) and isinstance(t.left, ast.Name) \
                    and t.left.id == "other" and isinstance(t.comparators[0], ast.Constant):
                return Fraction(t.comparators[0].value)
            raise vlib.BrokenTie("expr.py: %s: test not understood: %s" % (fn.name, ast.unparse(t)))

        def branch(stmts):
            if len(stmts) == 1 and isinstance(stmts[0], ast.Return):
                return _ret(stmts[0], fn.name)
            if len(stmts) == 1 and isinstance(stmts[0], ast.Raise):
                return ("raise",)
            raise vlib.BrokenTie("expr.py: %s: branch not understood: %s" % (fn.name, " ; ".join(ast.unparse(s) for s in stmts)))

        for st in body:
            if isinstance(st, ast.If):
                cur = st
                while True:
                    shortcuts.append((test_const(cur.test), branch(cur.body)))
                    if len(cur.orelse) == 1 and isinstance(cur.orelse[0], ast.If):
                        cur = cur.orelse[0]
                    elif not cur.orelse:
                        break
                    else:
                        raise vlib.BrokenTie("expr.py: %s: `else:` branch in an overload" % fn.name)
            elif isinstance(st, ast.Return) and final is None:
                final = _ret(st, fn.name)
            else:
                raise vlib.BrokenTie("expr.py: %s: statement not understood: %s" % (fn.name, ast.unparse(st)))
        if final is None:
            raise vlib.BrokenTie("expr.py: %s has no final return" % fn.name)
        out.append((fn.name, shortcuts, final))
    missing = [m for m in _OVERLOADS if m not in [o[0] for o in out]]
    if missing:
        raise vlib.BrokenTie("expr.py: ExpressionBase lacks %s" % missing)
    return out


def _lean_res(r):
    if r[0] == "num":
        return "(.num %s)" % _rat(r[1])
    if r[0] in ("helper", "reflect"):
        return "(.%s \"%s\")" % (r[0], r[1])
    return "." + {"self": "self", "negself": "negSelf", "raise": "raise"}[r[0]]


def gen_overloads_lean(ov):
    L = ["-- GENERATED by harness/props/c15_evalshape.py from wntr/sim/aml/expr.py (ast of ExpressionBase's operator overloads). Do not edit.",
         "import WntrModel.Model.EvalShape", "namespace Wntr.Aml.Gen", "open Wntr.Aml", "",
         "/-- per overload: the `if other == k: return …` shortcuts in source order, then the final return -/",
         "def overloads : List OverloadShape := ["]
    L.append(",\n".join('  { name := "%s", shortcuts := [%s], final := %s }' % (
        n, ", ".join("(%s, %s)" % (_rat(k), _lean_res(r)) for k, r in sc), _lean_res(fin)) for n, sc, fin in ov))
    L += ["]", "", "end Wntr.Aml.Gen", ""]
    return "\n".join(L)


def translate_overloads():
    ov = read_overloads()
    vlib.write_if_changed(os.path.join(vlib.GEN, "OverloadShape.lean"), gen_overloads_lean(ov))
    return ov
