"""C07 -- pressure-dependent demand follows the documented pressure-demand curve.

Tie (T): `Gen/RowsC07.lean` is regenerated on every run (harness/translate/rows_c07c08.py): the `m.pdd[j]` rows of a zoo
         network (all 8 own/None override combinations, an isolated junction, one with Preq-Pmin < 2*delta), `cubic_spline`,
         `pdd_poly_coeffs_param.build` / `pnom_param.build` as decision trees (symbolic execution, every comparison outcome
         explored), `pdd_constants`, the ModelUpdater registrations and the attributes every Definition reads.
         `Props/C07.lean` is re-checked against it; rows are compared semantically (Model/RowsNorm.lean, sound).
Tie (C): the REAL `m.pdd[j]` residual (`con.evaluate()`, no solve) for random (Pmin, Preq, e, D, overrides) over pressures
         from far below Pmin to far above Preq incl. the joints, against the Lean driver evaluating the parametric row and
         the curve with coefficients computed by the generated spline code (Float).
Oracle : on the implementation: zero at/below Pmin, full at/above Preq, D*((p-Pmin)/(Preq-Pmin))^e between the bands,
         continuity at the four joints, non-decreasing; reported (pressure, demand) pairs of short real PDD simulations.
"""
import json
import math
import os
import struct
import sys
from fractions import Fraction

sys.path.insert(0, os.path.dirname(os.path.dirname(os.path.abspath(__file__))))
import vlib
from vlib import BrokenTie, Broken, Failure, Check
from translate import rows_c07c08 as T

DRIVER = "Drivers/RowsDriver.lean"


def fbits(x):
    return str(struct.unpack("<Q", struct.pack("<d", float(x)))[0])


def bitsf(s):
    return struct.unpack("<d", struct.pack("<Q", int(s)))[0]


def ulp_steps(x, k):
    for _ in range(abs(k)):
        x = math.nextafter(x, math.inf if k > 0 else -math.inf)
    return x


COEFFS = ["pdd_poly1_coeffs_a", "pdd_poly1_coeffs_b", "pdd_poly1_coeffs_c", "pdd_poly1_coeffs_d",
          "pdd_poly2_coeffs_a", "pdd_poly2_coeffs_b", "pdd_poly2_coeffs_c", "pdd_poly2_coeffs_d"]


def build_case(wntr, glob, specs):
    """star network R -> Jk; specs: dict(own=(pmin|None, pnom|None, e|None), D, elev)"""
    import wntr.sim.hydraulics as H

    wn = wntr.network.WaterNetworkModel()
    wn.add_reservoir("R", base_head=100.0)
    for k, s in enumerate(specs):
        nm = "J%d" % k
        wn.add_junction(nm, base_demand=s["D"], elevation=s["elev"])
        j = wn.get_node(nm)
        j.minimum_pressure, j.required_pressure, j.pressure_exponent = s["own"]
        wn.add_pipe("P%d" % k, "R", nm, length=100.0, diameter=0.3, roughness=100.0)
    h = wn.options.hydraulic
    h.demand_model = "PDD"
    h.minimum_pressure, h.required_pressure, h.pressure_exponent = glob
    m, upd = H.create_hydraulic_model(wn)
    return wn, m, upd


def eff(own, glob):
    return tuple(g if o is None else o for o, g in zip(own, glob))


def sweep_points(rng, pmin, pnom, delta, n_dense, shipped=None):
    """delta: the documented band width of this junction; shipped: pdd_smoothing_delta (its joints are sampled too, so that a
    band that is wider than documented shows as a jump there)"""
    R = pnom - pmin
    pts = [pmin - 1e6, pmin - 1e4, pmin - 100.0, pmin - 1.0, pmin - 1e-6, pnom + 1e-6, pnom + 1.0, pnom + 100.0, pnom + 1e4, pnom + 1e6]
    joints = [pmin, pmin + delta, pnom - delta, pnom]
    if shipped is not None and shipped != delta:
        joints += [c for c in (pmin + shipped, pnom - shipped) if pmin < c < pnom]
    for c in joints:
        for k in (-2, -1, 0, 1, 2):
            pts.append(ulp_steps(c, k))
    for _ in range(n_dense):
        pts.append(pmin + delta * rng.random())
        pts.append(pnom - delta * rng.random())
        pts.append(pmin + R * rng.random())
    return sorted(set(pts)), joints


class C07(Check):
    pid = "C07"
    level = "proof"
    prop_modules = ["WntrModel.Props.C07"]
    manifest = dict(
        category="proof",
        text="Lean theorems over definitions regenerated from the current source on every run: the m.pdd[j] rows built by "
        "create_hydraulic_model for a zoo (all 8 own/None override combinations, an isolated junction, a junction with "
        "Preq-Pmin < 2*delta), compared SEMANTICALLY with the parametric 5-branch row (polynomial normal form over atoms, atoms and "
        "branch conditions compared recursively, sound over the reals: rowSem_sound) -- a re-ordered row still checks, a sign, a "
        "constant, a bound, a leaf does not (rowSem_is_sensitive); cubic_spline, pdd_poly_coeffs_param.build and pnom_param.build by "
        "symbolic execution with every outcome of every comparison explored (decision trees pddPolyBuild, pnomBuild: refusals "
        "included); pdd_constants; the ModelUpdater registrations of the zoo and the node attributes each Definition's build "
        "READS (recorded at run time). Proved for ALL real pressures, every Pmin < Preq, exponent in (0,1], D >= 0, with the band "
        "width min(delta,(Preq-Pmin)/2) the repaired build stores (pddPolyBuild_spec): branch values, equality of neighbouring "
        "branches at the four joints, 0 <= delivered <= D, monotone over the whole line (pdd_full_statement, no band hypothesis); "
        "every generated row evaluates to demand - D*fraction at every point (gen_rows_eval); per-junction override of row, "
        "parameters and coefficients; every attribute a PDD Definition reads is registered for it (pressure_exponent included) and "
        "then the model update rebuilds it from the current values (updateDef_current). Real residuals, band widths, coefficients "
        "and refusals are compared with the Lean driver; the curve oracle runs on the implementation and on real PDD simulations "
        "(pressures landed on Pmin / Preq / band edges / inside both bands, WNTR's default Preq 0.07 m, parameter controls mid-run).",
        design_ref="DESIGN.md §5 C07",
        note="the model follows the REPAIRED code (fixes/C07-1-pressure-exponent-updater.patch, fixes/C07-2-pdd-band-overlap.patch); on the "
        "unrepaired tree the check reports pdd-band-overlap and pdd-param-control-ignored:pressure_exponent with replays. Modelled, "
        "not verified: real-number semantics of the row (pow = Real.rpow; IEEE rounding only exercised by the correspondence, "
        "tolerance 1e-7 of D plus the forward error bound 8*eps*sum|coeff||x|^k of the monomial-basis cubic for continuity / "
        "monotonicity); continuity is stated as equality of neighbouring branches at the joints; monotonicity needs "
        "slope*(Preq-Pmin) <= 3e (true for slope=1e-11 unless Preq-Pmin > 3e11*e m); the update model (updateDef) is one model "
        "update for one Definition of one node, the change tracker is C02's. Newton solve and result storing are covered by the "
        "simulation oracle only.",
        technique="Lean 4 proof over translator-regenerated constraint rows (semantic normaliser with soundness proof), path-explored symbolic execution of the parameter builds, generated updater registrations + differential run of real residuals and real PDD simulations against the Lean driver",
    )
    rule = (
        "obligations: theorems of Props/C07.lean. correspondence cases: (override pattern, Pmin, Preq, e, D, elevation, pressure) "
        "residual evaluations of the real m.pdd[j] vs the Lean row; refused builds vs the generated build model; reported (pressure, "
        "demand) points of real PDD runs; distinct = distinct (override pattern, regime of p, e class, band class); "
        "non-trivial = D != 0 or p inside a smoothing band / at a joint"
    )
    trusted_base = [
        "translator harness/translate/rows_c07c08.py (runtime reflection of aml expressions via amldump, path-exploring symbolic execution of cubic_spline, pdd_poly_coeffs_param.build, pnom_param.build; ModelUpdater.update_functions; attribute reads recorded through a recording subclass)",
        "Real.rpow as the meaning of aml `**` (agrees with C pow on natural exponents and on positive bases)",
        "IEEE-754 rounding not modelled (differential run only)",
    ]
    assumptions = [
        "Pmin < Preq and Preq > pdd_smoothing_delta (everything else is refused by the build: pddCode_eq)",
        "pdd_slope*(Preq-Pmin) <= 3*exponent for the monotonicity theorem",
    ]

    # ------------------------------------------------------------------ translate
    def translate(self, ctx):
        wntr = vlib.import_wntr()
        self.meta = T.write_c07(wntr)
        ctx.cov["zoo_junctions"] = len(self.meta["info"])

    # ------------------------------------------------------------------ helpers
    def _gen_cases(self, ctx, n, narrow=False):
        rng = ctx.rng
        cases = []
        for _ in range(n):
            gl_pmin = rng.choice([0.0, 0.0, round(rng.uniform(-2, 8), 3)])
            gl_R = rng.choice([rng.uniform(0.11, 1.0), rng.uniform(1, 20), rng.uniform(10, 60), 0.1000001])
            gl = (gl_pmin, gl_pmin + gl_R, rng.choice([0.5, 0.5, 1.0, round(rng.uniform(0.05, 1.0), 3), 0.8]))
            specs = []
            for k in range(rng.randint(1, 4)):
                own = [None, None, None]
                if rng.random() < 0.5:
                    own[0] = rng.choice([0.0, round(rng.uniform(-3, 12), 3)])
                pm = gl[0] if own[0] is None else own[0]
                if own[0] is not None or rng.random() < 0.5:
                    if narrow:
                        own[1] = pm + rng.choice([rng.uniform(0.051, 0.0999), rng.uniform(0.005, 0.049), 0.075, 0.07])
                    else:
                        own[1] = pm + rng.choice([rng.uniform(0.1001, 0.5), rng.uniform(0.5, 15), rng.uniform(15, 80), 0.1 + 1e-9])
                if rng.random() < 0.5:
                    own[2] = rng.choice([1.0, 0.5, 0.8, round(rng.uniform(0.02, 1.0), 4), 0.333])
                D = rng.choice([0.0, 0.0, rng.uniform(1e-5, 1e-2), rng.uniform(0.01, 0.5), -rng.uniform(1e-4, 0.2)])  # < 0: an inflow junction
                elev = rng.choice([0.0, 0.0, round(rng.uniform(-20, 120), 2)])
                specs.append({"own": tuple(own), "D": D, "elev": elev})
            if narrow:
                # make the global narrow too when no own pnom (0.07 m above Pmin = 0 are WNTR's DEFAULT options)
                gl = (gl[0], gl[0] + rng.choice([0.075, 0.07, rng.uniform(0.051, 0.099)]), gl[2])
            cases.append({"glob": gl, "specs": specs})
        return cases

    def _change_cases(self, ctx, n):
        """a valid case, then ONE junction's minimum_pressure / required_pressure / pressure_exponent is changed the way a control
        does it (attribute write + ModelUpdater.update): the row, the parameters and the cubics must be those of the new value"""
        rng = ctx.rng
        out = []
        for case in self._gen_cases(ctx, n):
            k = rng.randrange(len(case["specs"]))
            pmin, pnom, e = eff(case["specs"][k]["own"], case["glob"])
            attr = rng.choice(["minimum_pressure", "required_pressure", "pressure_exponent", "elevation"])
            if attr == "elevation":
                val = case["specs"][k]["elev"] + rng.choice([3.0, -2.0, 17.5, 0.04])
            elif attr == "minimum_pressure":
                val = pnom - rng.choice([0.2, 1.0, 0.11, rng.uniform(0.12, max(0.13, pnom - pmin + 3))])
            elif attr == "required_pressure":
                val = max(pmin, 0.0) + rng.choice([0.11, 0.5, rng.uniform(0.2, 40.0), 0.07])
            else:
                val = rng.choice([1.0, 0.5, 0.8, 0.3, round(rng.uniform(0.05, 1.0), 3)])
            if case["specs"][k]["D"] == 0:
                case["specs"][k]["D"] = 0.01
            out.append(dict(case, change={"node": k, "attr": attr, "value": val}))
        return out

    def _malformed_cases(self, ctx, n):
        """parameter sets outside the statement (Preq <= Pmin, Preq <= smoothing delta): the build must refuse them exactly
        when the generated pnomBuild / pddPolyBuild refuse (no oracle, correspondence only)"""
        rng = ctx.rng
        cases = []
        for _ in range(n):
            pm = rng.choice([0.0, 2.0, round(rng.uniform(0, 5), 2)])
            kind = rng.choice(["le_pmin", "eq_pmin", "le_delta", "ok_small"])
            if kind == "le_pmin":
                pn = pm - rng.choice([0.5, 1e-9, 3.0])
            elif kind == "eq_pmin":
                pn = pm
            elif kind == "le_delta":
                pm, pn = rng.choice([0.0, -1.0]), rng.choice([0.05, 0.04, 0.01])
            else:
                pn = pm + rng.choice([0.0501, 0.06, 1e-3 + 0.05])
            own = rng.random() < 0.5
            gl = (0.0, 20.0, 0.5) if own else (pm, pn, 0.5)
            spec = {"own": (pm, pn, None) if own else (None, None, None), "D": 0.01, "elev": 0.0}
            cases.append({"glob": gl, "specs": [{"own": (None, None, None), "D": 0.02, "elev": 1.0}, spec] if rng.random() < 0.5 else [spec], "malformed": kind})
        return cases

    def _eval_case(self, ctx, wntr, case, n_dense, narrow=False):
        """returns (records, lines) -- one record per junction with impl residual sweep"""
        rng = ctx.rng
        delta = float(self.delta)
        chg = case.get("change")
        try:
            wn, m, upd = build_case(wntr, case["glob"], case["specs"])
            if chg is not None:
                # what a control does during a run: write the attribute, then ModelUpdater.update for (node, attribute)
                node = wn.get_node("J%d" % chg["node"])
                setattr(node, chg["attr"], chg["value"])
                upd.update(m, wn, node, chg["attr"])
                specs = [dict(s_) for s_ in case["specs"]]
                if chg["attr"] == "elevation":
                    specs[chg["node"]]["elev"] = chg["value"]
                else:
                    i = ("minimum_pressure", "required_pressure", "pressure_exponent").index(chg["attr"])
                    own = list(specs[chg["node"]]["own"])
                    own[i] = chg["value"]
                    specs[chg["node"]]["own"] = tuple(own)
                case = dict(case, specs=specs)
        except Exception as err:
            # a refused build: the Lean build model must refuse at least one junction's parameters, too
            ls = []
            for k, s in enumerate(case["specs"]):
                pmin, pnom, e = eff(s["own"], case["glob"])
                ls.append("pddcurve %s %s %s %s" % (fbits(pmin), fbits(pnom), fbits(e), fbits(pmin)))
            return [{"error": "%s: %s" % (type(err).__name__, err), "etype": type(err).__name__, "nlines": len(ls), "case": case}], ls
        recs, lines = [], []
        for k, s in enumerate(case["specs"]):
            nm = "J%d" % k
            pmin, pnom, e = eff(s["own"], case["glob"])
            rec = {"node": nm, "glob": case["glob"], "own": s["own"], "D": s["D"], "elev": s["elev"], "pmin": pmin, "pnom": pnom, "e": e,
                   "pts": [], "narrow": (pnom - pmin) < 2 * delta, "change": chg if (chg is not None and chg["node"] == k) else None}
            par = {"pmin": m.pmin[nm].value, "pnom": m.pnom[nm].value, "elev": m.elevation[nm].value, "D": m.expected_demand[nm].value}
            # the junction's band width: a parameter of the (repaired) model; the unrepaired code bakes the constant in
            par["delta"] = m.pdd_delta[nm].value if hasattr(m, "pdd_delta") and nm in m.pdd_delta else delta
            co = [getattr(m, c)[nm].value for c in COEFFS]
            rec["par"], rec["co"] = par, co
            # documented band width: the shipped delta, but the two bands never overlap
            de = min(delta, (pnom - pmin) / 2.0) if pnom > pmin else delta
            rec["de"] = de
            pts, joints = sweep_points(rng, pmin, pnom, de, n_dense, delta)
            rec["joints"] = joints
            for p in pts:
                head = s["elev"] + p
                pp = head - s["elev"]  # the pressure the code sees
                m.head[nm].value = head
                # demand 0: residual = -D*fraction without cancellation (oracle); random demand: row correspondence only
                for dval in (0.0, rng.choice([s["D"] * rng.random(), rng.uniform(-1, 1)])):
                    m.demand[nm].value = dval
                    r = m.pdd[nm].evaluate()
                    rec["pts"].append((pp, head, dval, r))
                    lines.append("pddrow %s %s" % (vlib.frac_str(e), " ".join(fbits(x) for x in [head, dval, par["D"], par["pmin"], par["pnom"], par["elev"]] + co + [par["delta"]])))
                    lines.append("pddcurve %s %s %s %s" % (fbits(pmin), fbits(pnom), fbits(e), fbits(pp)))
            recs.append(rec)
        return recs, lines

    def _judge(self, ctx, rec, out_it, failures, broken):
        """compare one junction's sweep with the Lean driver, then apply the property oracle to the implementation"""
        delta, slope = float(rec["de"]), float(self.slope)
        pmin, pnom, e, D = rec["pmin"], rec["pnom"], rec["e"], rec["D"]
        R = pnom - pmin
        cls = "narrow" if rec["narrow"] else "main"
        pat = "".join("o" if o is not None else "g" for o in rec["own"])
        replay = {k: rec[k] for k in ("glob", "own", "D", "elev", "pmin", "pnom", "e")}
        if rec.get("change"):
            replay["change"] = rec["change"]
            ctx.count("updated_through_ModelUpdater:" + rec["change"]["attr"])
        # parameter values follow the override rule
        if rec["par"]["pmin"] != pmin or rec["par"]["pnom"] != pnom:
            failures.append(Failure("pdd-override-%s" % pat, "m.pmin/m.pnom do not follow the per-junction override rule: %r vs expected (%r, %r)" % (rec["par"], pmin, pnom),
                                    dict(replay, observed=rec["par"])))
        fr = []
        bad_corr = None
        lean_co = None
        for (pp, head, dval, r) in rec["pts"]:
            lr = bitsf(next(out_it))
            o2 = next(out_it)
            if o2 == "reject":
                bad_corr = bad_corr or ("accepted by the code, refused by the generated build model", pmin, pnom)
                cur = [float("nan")] * 10
            else:
                cur = [bitsf(x) for x in o2.split()]
            lean_co = cur[1:9]
            lean_delta = cur[9]
            scale = abs(dval) + abs(D) * (1.0 + abs(pp) ** 3 * (abs(rec["co"][0]) + abs(rec["co"][4])) + abs(rec["co"][3]) + abs(rec["co"][7]))
            if not (r == lr or abs(r - lr) <= 1e-12 * scale or (math.isnan(r) and math.isnan(lr))):
                bad_corr = bad_corr or ("row", pp, r, lr)
            if dval != 0.0:
                continue
            f_impl = (-r) / D if D != 0 else None
            fr.append((pp, f_impl, cur[0], dval, r))
            regime = ("below" if pp <= pmin else "band1" if pp <= pmin + delta else "mid" if pp <= pnom - delta else "band2" if pp <= pnom else "above")
            ctx.case((pat, regime, "e=.5" if e == 0.5 else "e=1" if e == 1.0 else "e*", cls, D == 0), nontrivial=(D != 0 or regime.startswith("band")))
            ctx.count("regime:" + regime)
        ctx.count("override:" + pat)
        ctx.count("class:" + cls)
        # band width and coefficients: generated build / spline code at Float vs the model's parameter values
        if lean_co is not None:
            if not (rec["par"]["delta"] == lean_delta):
                bad_corr = bad_corr or ("band width m.pdd_delta", rec["par"]["delta"], lean_delta)
            for a, b in zip(rec["co"], lean_co):
                if not (a == b or abs(a - b) <= 1e-9 * max(abs(a), abs(b), 1e-300)):
                    bad_corr = bad_corr or ("coeff", rec["co"], lean_co)
        if bad_corr:
            broken.append(Broken("correspondence", "m.pdd residual / spline coefficients vs Lean driver",
                                 "junction %s %s: %r" % (rec["node"], json.dumps(replay), bad_corr)))
        if D == 0:
            # zero requested demand: residual must be d itself (delivered 0 at every pressure)
            for (pp, head, dval, r) in rec["pts"]:
                if not (abs(r - dval) <= 1e-300 or r == dval):
                    failures.append(Failure("pdd-curve-zero-demand-%s" % cls, "requested demand 0 but delivered %r at p=%r" % (dval - r, pp), dict(replay, p=pp, observed=dval - r)))
                    break
            return
        # the shipped cubics are evaluated in the monomial basis at the absolute pressure: forward error bound of that
        # evaluation, 8 eps * sum |coefficient| |x|^k (1e-7 of D is ample for ordinary parameters; narrow ranges at high
        # pressures need the bound)
        xm = max(abs(pmin), abs(pnom), 1.0)
        co = rec["co"]
        cond = 1.8e-15 * max(abs(co[0]) * xm ** 3 + abs(co[1]) * xm ** 2 + abs(co[2]) * xm + abs(co[3]),
                             abs(co[4]) * xm ** 3 + abs(co[5]) * xm ** 2 + abs(co[6]) * xm + abs(co[7]))
        tol = 1e-7 + cond
        what = None
        # branch values
        for (pp, f, fl, dval, r) in fr:
            if f is None:
                continue
            if math.isnan(f):
                what = ("nan", pp, f, None)
                break
            if pp <= pmin:
                exp_ = slope * (pp - pmin)
                if abs(f - exp_) > 1e-12 * max(1.0, abs(exp_)):
                    what = ("below", pp, f, exp_)
                    break
            elif pp >= pnom:
                exp_ = 1.0 + slope * (pp - pnom)
                if abs(f - exp_) > 1e-12 * max(1.0, abs(exp_)):
                    what = ("above", pp, f, exp_)
                    break
            elif pmin + delta * (1 + 1e-9) < pp < pnom - delta * (1 + 1e-9):
                exp_ = ((pp - pmin) / R) ** e
                if abs(f - exp_) > 1e-12:
                    what = ("middle", pp, f, exp_)
                    break
        # continuity at the joints: samples within 2 ulp on both sides agree
        if what is None:
            for c in rec["joints"]:
                near = [f for (pp, f, fl, dval, r) in fr if abs(pp - c) <= 4 * math.ulp(max(abs(c), 1e-300)) + 0.0 and f is not None]
                if near and max(near) - min(near) > tol:
                    what = ("continuity", c, min(near), max(near))
                    break
        # monotone
        if what is None:
            prev = None
            for (pp, f, fl, dval, r) in fr:
                if prev is not None and f < prev[1] - tol:
                    what = ("monotone", (prev[0], pp), (prev[1], f), None)
                    break
                prev = (pp, f)
        # Lean curve (generated spline code, Float) vs implementation
        if what is None:
            for (pp, f, fl, dval, r) in fr:
                if abs(f - fl) > 1e-9 * max(1.0, abs(f)) + cond:
                    broken.append(Broken("correspondence", "delivered fraction vs Lean pddFrac with generated coefficients",
                                         "p=%r impl=%r lean=%r %s" % (pp, f, fl, json.dumps(replay))))
                    break
        if what is not None:
            kind = what[0]
            failures.append(
                Failure(
                    ("pdd-param-control-ignored:" + rec["change"]["attr"]) if rec.get("change") else ("pdd-curve-%s" % kind) if cls == "main" else "pdd-band-overlap",
                    "delivered-demand curve of m.pdd[%s] violates '%s': Pmin=%r Preq=%r exponent=%r D=%r at %r: observed %r expected %r"
                    % (rec["node"], kind, pmin, pnom, e, D, what[1], what[2], what[3]),
                    dict(replay, kind=kind, at=what[1], observed=what[2], expected=what[3], cls=cls),
                )
            )

    def _run_cases(self, ctx, wntr, cases, n_dense, narrow=False):
        failures, broken = [], []
        allrecs, lines = [], []
        for case in cases:
            recs, ls = self._eval_case(ctx, wntr, case, n_dense, narrow)
            allrecs += recs
            lines += ls
        out = vlib.lean_run(DRIVER, "\n".join(lines) + "\n") if lines else []
        if len(out) != len(lines):
            raise vlib.Infra("RowsDriver returned %d lines for %d requests" % (len(out), len(lines)))
        if any(o == "bad-op" for o in out):
            raise vlib.Infra("RowsDriver rejected a request")
        it = iter(out)
        for rec in allrecs:
            if "error" in rec:
                ctx.count("build_error")
                answers = [next(it) for _ in range(rec["nlines"])]
                case = rec["case"]
                effs = [eff(s_["own"], case["glob"]) for s_ in case["specs"]]
                valid = all(pn > pm and pn > float(self.delta) for (pm, pn, _e) in effs)
                ctx.case(("refused", rec["etype"], case.get("malformed")), nontrivial=True)
                if rec["etype"] == "ValueError" and "must be greater than" in rec["error"]:
                    ctx.count("refused:" + ("required_pressure<=minimum_pressure" if "minimum pressure" in rec["error"] else "required_pressure<=delta"))
                    if valid:
                        failures.append(Failure("pdd-model-build", "create_hydraulic_model refuses a valid PDD configuration (every junction has Preq > Pmin and Preq > delta): " + rec["error"], {"error": rec["error"], "case": case}))
                    elif "reject" not in answers:
                        broken.append(Broken("correspondence", "refusal of PDD parameters vs generated pnomBuild/pddPolyBuild", "code refuses %s (%s), the build model accepts every junction" % (json.dumps(case), rec["error"])))
                elif valid:
                    failures.append(Failure("pdd-model-build", "create_hydraulic_model fails on a valid PDD configuration: " + rec["error"], {"error": rec["error"], "case": case}))
                else:
                    # outside the statement (Preq <= Pmin or Preq <= delta) and no clean refusal: counted, not judged
                    ctx.count("malformed_unclean:" + rec["etype"])
                    if "reject" not in answers:
                        broken.append(Broken("correspondence", "refusal of PDD parameters vs generated pnomBuild/pddPolyBuild", "code fails on %s (%s), the build model accepts every junction" % (json.dumps(case), rec["error"])))
                continue
            self._judge(ctx, rec, it, failures, broken)
            if len(ctx.samples) < 4 and rec["D"] != 0:
                mid = [x for x in rec["pts"] if rec["pmin"] < x[0] < rec["pnom"] and x[2] == 0.0][:2]
                ctx.sample({"Pmin": rec["pmin"], "Preq": rec["pnom"], "e": rec["e"], "D": rec["D"], "own": rec["own"],
                            "pressure,delivered": [(x[0], x[2] - x[3]) for x in mid]})
        return failures, broken

    # ------------------------------------------------------------------ simulations
    def _simulate(self, ctx, wntr, n):
        rng = ctx.rng
        failures = []
        reqs = []
        obs = []
        for _ in range(n):
            gl = (rng.choice([0.0, 2.0]), rng.choice([15.0, 25.0, 30.0]), rng.choice([0.5, 0.5, 1.0, 0.7]))
            if rng.random() < 0.15:
                gl = (gl[0], gl[0] + 0.07, gl[2])   # WNTR's default Preq - Pmin
            wn = wntr.network.WaterNetworkModel()
            H = rng.uniform(20, 45)
            wn.add_pattern("hp", [1.0, rng.uniform(0.6, 0.9), rng.uniform(1.0, 1.3)])
            wn.add_reservoir("R", base_head=H, head_pattern="hp")
            prev = "R"
            nj = rng.randint(2, 5)
            conf = {}
            entries = {}
            for k in range(nj):
                nm = "J%d" % k
                el = rng.uniform(0, H + 8)
                D = rng.choice([0.0, rng.uniform(0.002, 0.03), rng.uniform(0.002, 0.03), -rng.uniform(0.002, 0.02)])
                dpat = None
                if rng.random() < 0.3:
                    # the requested demand changes from step to step (pattern), incl. a step with zero demand
                    dpat = "dp%d" % k
                    wn.add_pattern(dpat, [1.0, rng.choice([0.0, 0.5, 1.7, -0.8]), rng.choice([0.3, 2.0, -1.5])])
                    ctx.count("sim_demand_pattern")
                wn.add_junction(nm, base_demand=D, elevation=el, demand_pattern=dpat)
                j = wn.get_node(nm)
                entries[nm] = [(D, list(wn.get_pattern(dpat).multipliers) if dpat else None)]
                if rng.random() < 0.35:
                    # several demand entries, with and without patterns, of either sign; the requested demand is their sum at
                    # the time (the first entry may well be zero, the sum may be negative at some steps)
                    for _e in range(rng.randint(1, 2)):
                        extra = rng.choice([rng.uniform(0.002, 0.02), -rng.uniform(0.002, 0.03)])
                        xpat = None
                        if rng.random() < 0.5:
                            xpat = "xp%d_%d" % (k, _e)
                            wn.add_pattern(xpat, [rng.choice([1.0, 0.0]), rng.choice([2.0, -1.0, 0.5]), 1.0])
                        j.add_demand(extra, xpat, rng.choice([None, "cat"]))
                        entries[nm].append((extra, list(wn.get_pattern(xpat).multipliers) if xpat else None))
                    ctx.count("sim_multi_demand_junction" + ("_first_zero" if j.demand_timeseries_list[0].base_value == 0 else ""))
                own = (rng.choice([None, 1.0]), rng.choice([None, 12.0, 40.0]), rng.choice([None, 0.8, 1.0]))
                j.minimum_pressure, j.required_pressure, j.pressure_exponent = own
                conf[nm] = (eff(own, gl), D, el, None, dpat)
                wn.add_pipe("P%d" % k, prev if rng.random() < 0.7 else "R", nm, length=rng.uniform(50, 800), diameter=rng.choice([0.1, 0.2, 0.3]), roughness=100.0)
                prev = nm
            # in half of the cases the simulator object exists BEFORE the model is switched to pressure-dependent demand
            early_sim = wntr.sim.WNTRSimulator(wn) if rng.random() < 0.5 else None
            wn.options.hydraulic.demand_model = "PDD"
            wn.options.hydraulic.minimum_pressure, wn.options.hydraulic.required_pressure, wn.options.hydraulic.pressure_exponent = gl
            wn.options.time.duration = 2 * 3600
            wn.options.time.hydraulic_timestep = 3600
            wn.options.time.pattern_timestep = 3600
            if rng.random() < 0.4:
                # the last junction is cut off for a while (its pipe closes at 1 h and reopens at 3 h); while it is cut off a
                # control changes ITS required pressure: after the reconnection it must follow the new value
                from wntr.network.controls import Control, ControlAction, SimTimeCondition
                last = "J%d" % (nj - 1)
                cfl = conf[last]
                (pmin_l, pnom_l, e_l), D_l, el_l = cfl[0], cfl[1], cfl[2]
                new_pnom = pnom_l + rng.choice([7.0, 13.0])
                # put the junction where delivery is partial (pressure about 60 % of the way from Pmin to Preq), with a demand
                jl = wn.get_node(last)
                el_l = H * 0.7 - (pmin_l + 0.6 * (pnom_l - pmin_l))
                jl.elevation = el_l
                if D_l == 0.0:
                    D_l = 0.004
                    jl.demand_timeseries_list[0].base_value = D_l
                    entries[last][0] = (D_l, entries[last][0][1])
                LS = wntr.network.LinkStatus
                pipe = wn.get_link("P%d" % (nj - 1))
                wn.add_control("iso_close", Control(SimTimeCondition(wn, "=", 3600), ControlAction(pipe, "status", LS.Closed)))
                wn.add_control("iso_preq", Control(SimTimeCondition(wn, "=", 7200), ControlAction(wn.get_node(last), "required_pressure", new_pnom)))
                wn.add_control("iso_open", Control(SimTimeCondition(wn, "=", 10800), ControlAction(pipe, "status", LS.Opened)))
                wn.options.time.duration = 5 * 3600
                conf[last] = ((pmin_l, pnom_l, e_l), D_l, el_l, (10800, (pmin_l, new_pnom, e_l)), cfl[4])
                ctx.count("sim_required_pressure_changed_while_isolated")
            try:
                res = (early_sim if early_sim is not None else wntr.sim.WNTRSimulator(wn)).run_sim()
            except Exception as e:
                ctx.count("sim_error:" + type(e).__name__)
                continue
            if res.error_code is not None:
                ctx.count("sim_not_converged")  # the steps reported before the failure are still judged
            else:
                ctx.count("sim_ok")
            for nm, cf in conf.items():
                (pmin0, pnom0, e0), D0, el = cf[0], cf[1], cf[2]
                change = cf[3] if len(cf) > 3 else None
                for t in res.node["pressure"].index:
                    (pmin, pnom, e) = (pmin0, pnom0, e0)
                    # requested demand at t: sum over the entries of base * pattern multiplier (pattern step 1 h, start 0)
                    D = sum(b_ * (ml[(int(t) // 3600) % len(ml)] if ml else 1.0) for b_, ml in entries[nm])
                    ctx.count("sim_requested:" + ("negative" if D < 0 else "zero" if D == 0 else "positive"))
                    if change is not None:
                        if 3600 <= t < change[0]:
                            continue  # cut off from every source: reported as zero (C09), not on the curve
                        if t >= change[0]:
                            (pmin, pnom, e) = change[1]
                    p = float(res.node["pressure"].loc[t, nm])
                    d = float(res.node["demand"].loc[t, nm])
                    reqs.append("pddcurve %s %s %s %s" % (fbits(pmin), fbits(pnom), fbits(e), fbits(p)))
                    obs.append((nm, int(t), p, d, D, pmin, pnom, e, gl))
        return failures + self._judge_sim_points(ctx, reqs, obs)

    def _judge_sim_points(self, ctx, reqs, obs, key="pdd-sim-point", extra=None):
        """reported (pressure, demand) of real runs against the Lean curve (generated build + spline code at Float)"""
        failures = []
        if not reqs:
            return failures
        delta = float(self.delta)
        out = vlib.lean_run(DRIVER, "\n".join(reqs) + "\n")
        if len(out) != len(reqs):
            raise vlib.Infra("RowsDriver returned %d lines for %d requests" % (len(out), len(reqs)))
        for i, (o, (nm, t, p, d, D, pmin, pnom, e, gl)) in enumerate(zip(out, obs)):
            if o == "reject":
                continue
            f = bitsf(o.split()[0])
            de = min(delta, (pnom - pmin) / 2.0)
            regime = ("below" if p <= pmin else "band1" if p <= pmin + de else "mid" if p <= pnom - de else "band2" if p <= pnom else "above")
            ctx.case(("sim", regime, D == 0, e, pmin != 0, (pnom - pmin) < 2 * delta), nontrivial=D != 0)
            ctx.count("sim_point")
            ctx.count("sim_regime:" + regime + (":D=0" if D == 0 else ""))
            if abs(p - pmin) <= 1e-6 or abs(p - pnom) <= 1e-6 or abs(p - pmin - de) <= 1e-6 or abs(p - pnom + de) <= 1e-6:
                ctx.count("sim_at_joint(1e-6)")
            if not (abs(d - D * f) <= 2e-6):
                k = key if isinstance(key, str) else key[i]
                failures.append(
                    Failure(
                        k,
                        "PDD simulation reports demand %r at pressure %r for junction with Pmin=%r Preq=%r e=%r requested %r; curve gives %r"
                        % (d, p, pmin, pnom, e, D, D * f),
                        dict({"node": nm, "t": t, "pressure": p, "demand": d, "requested": D, "pmin": pmin, "pnom": pnom, "e": e, "expected": D * f},
                             **(extra[i] if extra else {})),
                    )
                )
        return failures

    # ------------------------------------------------------------------ directed real runs
    def _star(self, wntr, gl, juncs, H=40.0, duration=0, head_mults=None):
        """reservoir R (head H) -- short wide pipe --> each junction; juncs: list of dict(own, D, elev)"""
        wn = wntr.network.WaterNetworkModel()
        if head_mults:
            wn.add_pattern("hp", list(head_mults))
        wn.add_reservoir("R", base_head=H, head_pattern="hp" if head_mults else None)
        for k, jn in enumerate(juncs):
            nm = "J%d" % k
            wn.add_junction(nm, base_demand=jn["D"], elevation=jn["elev"])
            j = wn.get_node(nm)
            j.minimum_pressure, j.required_pressure, j.pressure_exponent = jn["own"]
            wn.add_pipe("P%d" % k, "R", nm, length=10.0, diameter=0.5, roughness=130.0)
        h = wn.options.hydraulic
        h.demand_model = "PDD"
        h.minimum_pressure, h.required_pressure, h.pressure_exponent = gl
        wn.options.time.duration = duration
        wn.options.time.hydraulic_timestep = 3600
        wn.options.time.pattern_timestep = 3600
        return wn

    def _directed_sims(self, ctx, wntr):
        """(a) pressures that LAND on Pmin / Preq / the band edges / inside both bands (elevations are adjusted in a second run so
        that the solved pressure hits the target), incl. WNTR's default options (Preq = 0.07 m), per-junction exponent != global
        with Pmin != 0, zero-demand junctions;  (b) a control changes a junction's pressure_exponent / minimum_pressure /
        required_pressure during the run (the junction stays connected): from that step on the curve of the NEW value holds"""
        from wntr.network.controls import Control, ControlAction, SimTimeCondition
        failures = []
        delta = float(self.delta)
        reqs, obs, keys, extra = [], [], [], []
        H = 40.0
        combos = [((0.0, 0.07, 0.5), (None, None, None)),          # WNTR defaults
                  ((0.0, 20.0, 0.5), (2.5, 17.0, 0.8)),            # own exponent != global, Pmin != 0
                  ((1.0, 12.0, 1.0), (None, None, 0.3)),
                  ((3.0, 3.08, 0.7), (None, None, None))]
        for gl, own in combos:
            pmin, pnom, e = eff(own, gl)
            de = min(delta, (pnom - pmin) / 2.0)
            targets = [pmin - 0.5, pmin, pmin + de / 2, pmin + de, (pmin + pnom) / 2, pnom - de, pnom - de / 2, pnom, pnom + 0.5, pmin + de / 2,
                       (pmin + pnom) / 2, pnom - de / 2, pnom + 0.5]
            Ds = [0.03] * 9 + [0.0] + [-0.02] * 3   # the last three: NEGATIVE requested demand (an inflow junction): D*f(p) < 0
            juncs = [{"own": own, "D": D, "elev": H - tp} for tp, D in zip(targets, Ds)]
            try:
                for _pass in range(3):
                    wn = self._star(wntr, gl, juncs, H)
                    res = wntr.sim.WNTRSimulator(wn).run_sim()
                    ps = [float(res.node["pressure"].loc[0, "J%d" % k]) for k in range(len(juncs))]
                    for jn, p, tp in zip(juncs, ps, targets):
                        jn["elev"] += p - tp
            except Exception as ex:
                ctx.count("directed_sim_error:" + type(ex).__name__)
                if pnom > pmin and pnom > delta:
                    failures.append(Failure("pdd-model-build", "PDD run fails for Pmin=%r Preq=%r e=%r: %s: %s" % (pmin, pnom, e, type(ex).__name__, ex),
                                            {"glob": gl, "own": own, "error": str(ex)}))
                continue
            ctx.count("directed_sim_band_landing")
            for k, jn in enumerate(juncs):
                p = float(res.node["pressure"].loc[0, "J%d" % k])
                d = float(res.node["demand"].loc[0, "J%d" % k])
                reqs.append("pddcurve %s %s %s %s" % (fbits(pmin), fbits(pnom), fbits(e), fbits(p)))
                obs.append(("J%d" % k, 0, p, d, jn["D"], pmin, pnom, e, gl))
                keys.append("pdd-band-overlap" if (pnom - pmin) < 2 * delta else "pdd-sim-point")
                extra.append({"directed": "band-landing", "glob": gl, "own": own, "target": targets[k]})
        # (b) parameter changed by a control while the junction is connected
        changes = [("pressure_exponent", 1.0), ("pressure_exponent", 0.3), ("minimum_pressure", 4.0), ("required_pressure", 26.0),
                   ("required_pressure", 9.0)]
        # ... and changes after which the (unchanged) pressure lies INSIDE the new upper / lower smoothing band, where the
        # smoothing cubics (not only Pmin / Preq themselves) must have been recomputed
        changes += [("required_pressure", "p+"), ("minimum_pressure", "p-")]
        # ... and the junction's ELEVATION: the row's pressure is head - m.elevation[j], the reported one head - node.elevation
        changes += [("elevation", 2.5), ("elevation", -1.5)]
        gl = (1.0, 18.0, 0.5)
        for attr, val in changes:
            for own in ((None, None, None), (0.0, 15.0, 0.7)):
                pmin, pnom, e = eff(own, gl)
                tp = pmin + 0.45 * (pnom - pmin)
                juncs = [{"own": own, "D": 0.02, "elev": H - tp}, {"own": (None, None, None), "D": 0.01, "elev": H - 6.0}]
                if isinstance(val, str):
                    try:
                        r0 = wntr.sim.WNTRSimulator(self._star(wntr, gl, juncs, H)).run_sim()
                    except Exception as ex:
                        ctx.count("directed_sim_error:" + type(ex).__name__)
                        continue
                    p0 = float(r0.node["pressure"].loc[0, "J0"])
                    val = p0 + 0.02 if val == "p+" else p0 - 0.02
                    ctx.count("directed_sim_param_control_into_band:" + attr)
                wn = self._star(wntr, gl, juncs, H, duration=3 * 3600)
                if attr == "elevation":
                    val = juncs[0]["elev"] + val   # the junction stays between Pmin and Preq
                wn.add_control("chg", Control(SimTimeCondition(wn, "=", 3600), ControlAction(wn.get_node("J0"), attr, val)))
                try:
                    res = wntr.sim.WNTRSimulator(wn).run_sim()
                except Exception as ex:
                    ctx.count("directed_sim_error:" + type(ex).__name__)
                    continue
                ctx.count("directed_sim_param_control:" + attr)
                new = {"minimum_pressure": (val, pnom, e), "required_pressure": (pmin, val, e), "pressure_exponent": (pmin, pnom, val),
                       "elevation": (pmin, pnom, e)}[attr]
                for t in res.node["pressure"].index:
                    for k, nm in enumerate(("J0", "J1")):
                        cur = (new if t >= 3600 else (pmin, pnom, e)) if k == 0 else gl
                        p = float(res.node["pressure"].loc[t, nm])
                        d = float(res.node["demand"].loc[t, nm])
                        reqs.append("pddcurve %s %s %s %s" % (fbits(cur[0]), fbits(cur[1]), fbits(cur[2]), fbits(p)))
                        obs.append((nm, int(t), p, d, juncs[k]["D"], cur[0], cur[1], cur[2], gl))
                        keys.append("pdd-param-control-ignored:" + attr if (k == 0 and t >= 3600) else "pdd-sim-point")
                        extra.append({"directed": "param-control", "attr": attr, "value": val, "glob": gl, "own": own})
        # (c) a CONDITIONAL (post-solve) control changes a PDD attribute: the reservoir head rises at 1 h, J1's pressure passes a
        # threshold, the control fires after that solve and the step must be solved again: the very step in which the control
        # fires is reported on the curve of the NEW value
        from wntr.network.controls import ValueCondition
        for attr, val in [("required_pressure", 26.0), ("pressure_exponent", 1.0), ("minimum_pressure", 4.0), ("required_pressure", 11.5)]:
            for own in ((None, None, None), (0.0, 15.0, 0.7)):
                pmin, pnom, e = eff(own, gl)
                tp = pmin + 0.3 * (pnom - pmin)
                juncs = [{"own": own, "D": 0.02, "elev": H - tp}, {"own": (None, None, None), "D": 0.01, "elev": H - 6.0}]
                wn = self._star(wntr, gl, juncs, H, duration=3 * 3600, head_mults=[1.0, 1.1, 1.1])
                thr = 8.0  # J1: 6 m at t = 0, about 10 m from 1 h on
                wn.add_control("cond", Control(ValueCondition(wn.get_node("J1"), "pressure", ">", thr), ControlAction(wn.get_node("J0"), attr, val)))
                try:
                    res = wntr.sim.WNTRSimulator(wn).run_sim()
                except Exception as ex:
                    ctx.count("directed_sim_error:" + type(ex).__name__)
                    continue
                ctx.count("directed_sim_conditional_control:" + attr)
                new = {"minimum_pressure": (val, pnom, e), "required_pressure": (pmin, val, e), "pressure_exponent": (pmin, pnom, val)}[attr]
                fired = False
                for t in res.node["pressure"].index:
                    fired = fired or float(res.node["pressure"].loc[t, "J1"]) > thr
                    for k, nm in enumerate(("J0", "J1")):
                        cur = (new if fired else (pmin, pnom, e)) if k == 0 else gl
                        p = float(res.node["pressure"].loc[t, nm])
                        d = float(res.node["demand"].loc[t, nm])
                        reqs.append("pddcurve %s %s %s %s" % (fbits(cur[0]), fbits(cur[1]), fbits(cur[2]), fbits(p)))
                        obs.append((nm, int(t), p, d, juncs[k]["D"], cur[0], cur[1], cur[2], gl))
                        keys.append("pdd-conditional-control-lag:" + attr if (k == 0 and fired) else "pdd-sim-point")
                        extra.append({"directed": "conditional-control", "attr": attr, "value": val, "glob": gl, "own": own, "fired": fired})
        # (e) pause / edit the PDD attributes directly on the network (per junction or the global options) / continue, with the SAME
        # simulator object or a new one: every point reported after the pause lies on the curve of the attributes the model has THEN
        edits = [("junction", "required_pressure", 26.0), ("junction", "pressure_exponent", 1.0), ("junction", "minimum_pressure", 4.0),
                 ("global", "required_pressure", 30.0), ("global", "pressure_exponent", 0.9), ("global", "minimum_pressure", 3.0)]
        for ei, (where, attr, val) in enumerate(edits):
            for same_sim in (True, False):
                own = (0.0, 15.0, 0.7) if (ei + same_sim) % 2 else (None, None, None)
                pmin, pnom, e = eff(own, gl)
                juncs = [{"own": own, "D": 0.02, "elev": H - (pmin + 0.4 * (pnom - pmin))}, {"own": (None, None, None), "D": 0.01, "elev": H - 6.0}]
                wn = self._star(wntr, gl, juncs, H, duration=2 * 3600)
                try:
                    sim = wntr.sim.WNTRSimulator(wn)
                    r1 = sim.run_sim()
                    if where == "junction":
                        setattr(wn.get_node("J0"), attr, val)
                    else:
                        setattr(wn.options.hydraulic, attr, val)
                    wn.options.time.duration = 5 * 3600
                    r2 = (sim if same_sim else wntr.sim.WNTRSimulator(wn)).run_sim()
                except Exception as ex:
                    ctx.count("directed_sim_error:" + type(ex).__name__)
                    continue
                ctx.count("directed_sim_pause_edit:%s:%s" % (where, "same-simulator" if same_sim else "new-simulator"))
                i = ("minimum_pressure", "required_pressure", "pressure_exponent").index(attr)
                gl2 = tuple(val if (k == i and where == "global") else g for k, g in enumerate(gl))
                own2 = tuple(val if (k == i and where == "junction") else o for k, o in enumerate(own))
                for fi, res in enumerate((r1, r2)):
                    for t in res.node["pressure"].index:
                        if fi == 1 and t <= 2 * 3600:
                            continue
                        for k, nm in enumerate(("J0", "J1")):
                            cur = eff(own2 if k == 0 else (None, None, None), gl2) if fi == 1 else eff(own if k == 0 else (None, None, None), gl)
                            p = float(res.node["pressure"].loc[t, nm])
                            d = float(res.node["demand"].loc[t, nm])
                            reqs.append("pddcurve %s %s %s %s" % (fbits(cur[0]), fbits(cur[1]), fbits(cur[2]), fbits(p)))
                            obs.append((nm, int(t), p, d, juncs[k]["D"], cur[0], cur[1], cur[2], gl2 if fi == 1 else gl))
                            keys.append("pdd-edit-during-pause-ignored:%s:%s" % (where, attr) if fi == 1 else "pdd-sim-point")
                            extra.append({"directed": "pause-edit-continue", "where": where, "attr": attr, "value": val, "same_sim": same_sim, "glob": gl, "own": own})
        # (d) a control sets a value the model build REFUSES (Preq <= smoothing delta, Preq <= Pmin): either run_sim raises, or
        # every later reported point lies on the curve of the REPORTED attributes -- for a refused value there is none
        for own in ((None, None, None), (0.0, 15.0, 0.7)):
            pmin, pnom, e = eff(own, gl)
            for attr, val in [("required_pressure", 0.04), ("required_pressure", 0.05), ("required_pressure", pmin), ("required_pressure", pmin - 1.0),
                              ("minimum_pressure", pnom), ("minimum_pressure", pnom + 2.0)]:
                tp = pmin + 0.45 * (pnom - pmin)
                juncs = [{"own": own, "D": 0.02, "elev": H - tp}, {"own": (None, None, None), "D": 0.01, "elev": H - 6.0}]
                wn = self._star(wntr, gl, juncs, H, duration=3 * 3600)
                wn.add_control("chg", Control(SimTimeCondition(wn, "=", 3600), ControlAction(wn.get_node("J0"), attr, val)))
                try:
                    import warnings
                    with warnings.catch_warnings():
                        warnings.simplefilter("ignore")
                        res = wntr.sim.WNTRSimulator(wn).run_sim()
                except Exception as ex:
                    ctx.count("refused_value_control:raised:" + type(ex).__name__)
                    ctx.case(("refused-value-control", attr, "raised"), nontrivial=True)
                    continue
                late = [int(t) for t in res.node["pressure"].index if t >= 3600]
                ctx.case(("refused-value-control", attr, "continued" if late else "stopped"), nontrivial=True)
                if late:
                    j0 = wn.get_node("J0")
                    t = late[0]
                    failures.append(Failure("pdd-refused-value-half-applied:" + attr,
                                            "a control set %s of J0 to %r at 1 h (refused by the model build: Pmin=%r Preq=%r now); run_sim neither raised nor "
                                            "followed it: at t=%d it reports pressure %r demand %r for a junction whose reported attributes admit no curve"
                                            % (attr, val, j0.minimum_pressure if j0.minimum_pressure is not None else gl[0],
                                               j0.required_pressure if j0.required_pressure is not None else gl[1], t,
                                               float(res.node["pressure"].loc[t, "J0"]), float(res.node["demand"].loc[t, "J0"])),
                                            {"directed": "refused-value-control", "attr": attr, "value": val, "glob": gl, "own": own}))
                else:
                    ctx.count("refused_value_control:stopped")
        return failures + self._judge_sim_points(ctx, reqs, obs, key=keys, extra=extra)

    # ------------------------------------------------------------------ correspondence + oracle
    def correspondence(self, ctx):
        wntr = vlib.import_wntr()
        from wntr.sim.models import constants
        import types

        ns = types.SimpleNamespace()
        constants.pdd_constants(ns)
        self.delta, self.slope = ns.pdd_smoothing_delta, ns.pdd_slope
        failures, broken = [], []
        # corpus first
        corpus = [c for _, c in vlib.corpus_items(self.pid)]
        main_cases = [c for c in corpus if not c.get("narrow")]
        narrow_cases = [c for c in corpus if c.get("narrow")]
        n = 25 if ctx.quick else 250
        f, b = self._run_cases(ctx, wntr, main_cases + self._gen_cases(ctx, n), 6 if ctx.quick else 20)
        failures += f
        broken += b
        # Preq - Pmin < 2*delta (WNTR's default options, Preq = 0.07 m, are of this kind): judged like every other case
        default_case = {"glob": (0.0, 0.07, 0.5), "specs": [{"own": (None, None, None), "D": 0.01, "elev": 0.0},
                                                            {"own": (None, None, 1.0), "D": 0.02, "elev": 3.0}]}
        f, b = self._run_cases(ctx, wntr, narrow_cases + [default_case] + self._gen_cases(ctx, 6 if ctx.quick else 40, narrow=True), 6)
        failures += f
        broken += b
        # a junction's parameter changed through the ModelUpdater (what a control does mid-run)
        f, b = self._run_cases(ctx, wntr, self._change_cases(ctx, 12 if ctx.quick else 120), 6)
        failures += f
        broken += b
        # parameter sets outside the statement: refusal correspondence only
        f, b = self._run_cases(ctx, wntr, self._malformed_cases(ctx, 8 if ctx.quick else 60), 2)
        failures += f
        broken += b
        failures += self._simulate(ctx, wntr, 6 if ctx.quick else 60)
        failures += self._directed_sims(ctx, wntr)
        return failures, broken

    def search(self, ctx, broken):
        """something no longer checks: hunt for a concrete pressure/parameter set on which the real residual leaves the curve"""
        wntr = vlib.import_wntr()
        cases = []
        for e in (0.8, 1.0, 0.3, 0.5, 0.65):
            for (pmin, pnom) in ((0.0, 20.0), (2.0, 30.0), (0.0, 0.5), (5.0, 5.2)):
                cases.append({"glob": (pmin, pnom, e), "specs": [{"own": (None, None, None), "D": 0.01, "elev": 0.0}]})
                cases.append({"glob": (0.0, 10.0, 0.5), "specs": [{"own": (pmin, pnom, e), "D": 0.02, "elev": 5.0}]})
        cases += self._gen_cases(ctx, 150)
        f, b = self._run_cases(ctx, wntr, cases, 40)
        f2, b = self._run_cases(ctx, wntr, self._gen_cases(ctx, 40, narrow=True), 20)
        f += f2
        f2, b = self._run_cases(ctx, wntr, self._change_cases(ctx, 80), 20)
        f += f2
        f.sort(key=lambda x: (len(json.dumps(x.replay, default=str))))
        return f + self._directed_sims(ctx, wntr) + self._simulate(ctx, wntr, 40)

    def replay(self, ctx, path):
        r = json.load(open(path if os.path.isabs(path) else os.path.join(vlib.VERIF, path)))
        print(json.dumps(r, indent=1, default=str)[:3000])
        rp = r.get("replay", {})
        if "glob" not in rp:
            print("replay: nothing to re-run (no concrete input recorded)")
            return 0
        wntr = vlib.import_wntr()
        from wntr.sim.models import constants
        import types

        ns = types.SimpleNamespace()
        constants.pdd_constants(ns)
        self.delta, self.slope = ns.pdd_smoothing_delta, ns.pdd_slope
        case = {"glob": tuple(rp["glob"]), "specs": [{"own": tuple(rp["own"]), "D": rp["D"], "elev": rp["elev"]}]}
        if rp.get("change"):
            # the recorded own values are those AFTER the change; start from the global ones and re-apply it
            if rp["change"]["attr"] == "elevation":
                case["specs"][0]["elev"] = rp["elev"] - 1.0
            else:
                case["specs"][0]["own"] = (None, None, None)
            case["change"] = dict(rp["change"], node=0)
        fs, bs = self._run_cases(ctx, wntr, [case], 40, narrow=(rp.get("cls") == "narrow"))
        hit = [f for f in fs if f.key == r.get("key")]
        print("replay: %s" % ("REPRODUCED " + hit[0].what if hit else "not reproduced on the current tree"))
        return 1 if hit else 0


if __name__ == "__main__":
    vlib.run_check(C07)
