"""C20 -- demand, resilience and pump-cost metrics equal their documented formulas.

Tie (T): `Gen/Tables.lean` is regenerated on every run from wntr/metrics/economic.py: the default lookup
tables are obtained by partially evaluating the `if <table> is None:` blocks of the CURRENT source (ast), the
documented tables by parsing the RST tables of the same functions' docstrings (what Sphinx publishes).
Props/C20.lean proves by `decide` that the two agree.
Tie (C): Model/Pattern.lean + Model/Metrics.lean (exact rationals, run through Drivers/MetricsDriver.lean) against
the real pandas/numpy implementation on the same generated inputs, plus expected_demand against the demand a
real WNTRSimulator run delivers in demand-driven mode.
"""
import ast
import math
import os
import re
import struct
import sys
from fractions import Fraction

sys.path.insert(0, os.path.dirname(os.path.dirname(os.path.abspath(__file__))))
import vlib
from vlib import BrokenTie, Broken, Failure, Check

F = Fraction

# ----------------------------------------------------------------------------- translator


def _rst_tables(doc):
    """all RST simple tables of a docstring: list of (start offset, header cells, rows of cells)"""
    lines = doc.splitlines()
    offs = []
    o = 0
    for l in lines:
        offs.append(o)
        o += len(l) + 1
    out = []
    i = 0
    bar = re.compile(r"^\s*=+(\s+=+)+\s*$")
    while i < len(lines):
        if bar.match(lines[i]):
            j = i + 1
            hdr = lines[j]
            j += 1
            if not bar.match(lines[j]):
                raise BrokenTie("unexpected RST table layout near %r" % lines[i + 1])
            # column spans from the bar
            spans = [(m.start(), m.end()) for m in re.finditer(r"=+", lines[i])]
            j += 1
            rows = []
            while j < len(lines) and not bar.match(lines[j]):
                if lines[j].strip():
                    rows.append(lines[j].split())
                j += 1
            hcells = [hdr[a:b if k < len(spans) - 1 else None].strip() for k, (a, b) in enumerate(spans)]
            out.append((offs[i], hcells, rows))
            i = j + 1
        else:
            i += 1
    return out


def _default_tables(src, funcname, names):
    """partially evaluate the `if <name> is None:` blocks of funcname; returns {name: (keys, values, literals)}"""
    import numpy as np
    import pandas as pd

    tree = ast.parse(src)
    fn = [n for n in tree.body if isinstance(n, ast.FunctionDef) and n.name == funcname]
    if len(fn) != 1:
        raise BrokenTie("function %s not found in economic.py" % funcname)
    res = {}
    for node in ast.walk(fn[0]):
        if (
            isinstance(node, ast.If)
            and isinstance(node.test, ast.Compare)
            and isinstance(node.test.left, ast.Name)
            and node.test.left.id in names
            and len(node.test.ops) == 1
            and isinstance(node.test.ops[0], ast.Is)
            and isinstance(node.test.comparators[0], ast.Constant)
            and node.test.comparators[0].value is None
        ):
            nm = node.test.left.id
            for st in node.body:
                if not isinstance(st, ast.Assign):
                    raise BrokenTie("default block of %s contains a non-assignment" % nm)
            env = {"np": np, "pd": pd}
            lits = []
            for st in node.body:
                if isinstance(st.value, ast.List):
                    lits.append([ast.literal_eval(e) for e in st.value.elts])
                code = compile(ast.Module(body=[st], type_ignores=[]), "<economic.py:%s>" % nm, "exec")
                exec(code, env)
            ser = env.get(nm)
            if not isinstance(ser, pd.Series):
                raise BrokenTie("default of %s is not a pandas Series" % nm)
            res[nm] = ([float(k) for k in ser.index], [float(v) for v in ser.values], lits)
    missing = [n for n in names if n not in res]
    if missing:
        raise BrokenTie("default table block(s) not found: %s" % missing)
    return res


def _num(s):
    try:
        return F(s)
    except Exception:
        raise BrokenTie("non-numeric cell %r in a documented table" % s)


def read_tables():
    path = os.path.join(vlib.REPO, "wntr", "metrics", "economic.py")
    src = open(path).read()
    tree = ast.parse(src)
    docs = {n.name: ast.get_docstring(n, clean=False) or "" for n in tree.body if isinstance(n, ast.FunctionDef)}
    code = _default_tables(src, "annual_network_cost", ["tank_cost", "pipe_cost", "prv_cost", "pump_cost"])
    code.update(_default_tables(src, "annual_ghg_emissions", ["pipe_ghg"]))
    doc = {}
    d = docs.get("annual_network_cost", "")
    tabs = _rst_tables(d)
    for nm in ["tank_cost", "pipe_cost", "prv_cost", "pump_cost"]:
        m = re.search(r"^\s*%s\s*:" % nm, d, re.M)
        if not m:
            raise BrokenTie("parameter %s is not documented" % nm)
        after = [t for t in tabs if t[0] > m.start()]
        if not after:
            raise BrokenTie("no documented table for %s" % nm)
        doc[nm] = after[0]
    d = docs.get("annual_ghg_emissions", "")
    tabs = _rst_tables(d)
    if not tabs:
        raise BrokenTie("no documented table for pipe_ghg")
    doc["pipe_ghg"] = tabs[0]
    out = {}
    for nm in code:
        off, hdr, rows = doc[nm]
        out[nm] = dict(keys=code[nm][0], values=code[nm][1], literals=code[nm][2], doc_header=hdr,
                       doc_rows=[[_num(c) for c in r] for r in rows])
    return out


def _lr(x):
    fr = F(x)
    if fr.denominator == 1:
        return "%d" % fr.numerator if fr.numerator >= 0 else "(%d)" % fr.numerator
    return "(%d / %d)" % (fr.numerator, fr.denominator)


def gen_tables_lean(tb):
    out = [
        "-- GENERATED by harness/props/c20.py from wntr/metrics/economic.py (default blocks + docstring tables). Do not edit.",
        "namespace Wntr.Metrics.Gen",
        "",
    ]
    lean_names = {"tank_cost": "tankCost", "pipe_cost": "pipeCost", "prv_cost": "prvCost", "pump_cost": "pumpCost", "pipe_ghg": "pipeGhg"}
    for nm in ["tank_cost", "pipe_cost", "prv_cost", "pump_cost", "pipe_ghg"]:
        t = tb[nm]
        ln = lean_names[nm]
        out.append("/-- default `%s` as the code builds it: (index, value), exact values of the doubles -/" % nm)
        out.append("def %s : List (Rat × Rat) := [%s]" % (ln, ", ".join("(%s, %s)" % (_lr(k), _lr(v)) for k, v in zip(t["keys"], t["values"]))))
        out.append("/-- the first list literal of that block (volumes / inches / watts) -/")
        out.append("def %sLiteral : List Rat := [%s]" % (ln, ", ".join(_lr(x) for x in (t["literals"][0] if t["literals"] else []))))
        out.append("/-- documented table (docstring, columns: %s) -/" % " | ".join(t["doc_header"]))
        out.append("def %sDoc : List (List Rat) := [%s]" % (ln, ", ".join("[" + ", ".join(_lr(c) for c in r) + "]" for r in t["doc_rows"])))
        out.append("")
    out.append("end Wntr.Metrics.Gen")
    return "\n".join(out) + "\n"


if __name__ == "__main__":
    print(gen_tables_lean(read_tables()))
